#!/usr/bin/env python3
"""Regenerates MANIFEST.json from the table below (keeps it valid at all times)."""
import json, os, subprocess
ROOT = os.path.dirname(os.path.abspath(__file__))
PROPS = [json.loads(l) for l in open(os.path.join(ROOT, "properties.jsonl"))]

CHECKS = {
 "C01": dict(cat="exploration", tech="runtime monitoring: generated C++ executed (plain + ASan/UBSan) on reference-encoded inputs, output decoded by an independent reference codec; 64 KiB boundary sweep",
   text="Held on the executions explored: seeded corpus of generated packages x edge-heavy value sets, every encoder placed at every offset around the 64 KiB buffer boundary, values above 64 KiB, and the writer's batch overloads with empty batches. Exploration, not proof: says nothing about type shapes or values the generators never produced.",
   note="Trusted: reference codec written from docs/reference/binary.md and self-tested on its worked examples; harness ndarray/date shims; g++ 12; HDF5/MATLAB not executable here.", ref="§5 C01"),
 "C02": dict(cat="exploration", tech="runtime monitoring: generated C++ NDJSON writer/reader executed; lines compared type-directedly with an independent reference mapping; union matrix over JSON kinds",
   text="Held on the executions explored: corpus models x JSON-representable values, both directions and return trips, plus every pair of JSON kinds in a two-case union. One listed known finding (thorough tier): two unions with the same case types but different tags share one C++ variant and NDJSON converter. Exploration: unexplored shapes/values are not covered.",
   note="Trusted: reference mapping written from docs/reference/ndjson.md (self-tested on its transcript); date shim; nlohmann/json 3.11.2 from the image.", ref="§5 C02"),
 "C03": dict(cat="exploration", tech="runtime monitoring: generated C++ and generated Python executed back to back on the same streams (16 two-hop chains), reference decode of the final output; Python buffer-boundary sweep and I/O modes",
   text="Held on the chains explored (corpus, 64 KiB sweep incl. a list-keeping consumer, big values, multi-array records across refills, null in tagged unions in both spellings, the JSON-kind union matrix with undefined enum / flags values), except for the listed known findings (Python N-d arrays of compound or nested-array elements; an undefined numpy TypeVar in the dtype map of nested generics). Exploration over seeded models/values; MATLAB is not an endpoint (no interpreter).",
   note="Trusted: reference codec; CPython 3.11.7 + numpy 2.4.6 of the tooling venv (the only numpy available); shims for C++.", ref="§5 C03"),
 "C10": dict(cat="exploration", tech="runtime monitoring / fuzzing: one monitored child process per hostile input (exit status, Go panic text and call site, child CPU and peak RSS via rusage, located-diagnostic oracle)",
   text="Held on the inputs explored (raw bytes, 12 text/YAML mutation operators, arbitrary models, manifest and -c mutations, generic nesting, a typed expression catalogue, computed-field cycles, a catalogue of tag/kind mismatches, alias cycles at use sites, first-line flow-style expressions and comment shapes) except for two listed known findings (exponential generic nesting; NDJSON kind of a union case that is an alias of a union), each identified by panic call site or input class. Exploration: a fuzzer samples the input space.",
   note="Trusted: rusage accounting; PyYAML of the system python only to excuse yaml.v3's missing line number for first-line syntax errors.", ref="§5 C10"),
 "C06": dict(cat="exploration", tech="runtime monitoring of `yardl validate` on (old, new) pairs built from a catalogue of documented edit classes at seeded positions; verdict oracle on exit status / errors / warnings, 3 fresh processes per pair",
   text="Held on the pairs explored (reflexive, meaning-preserving, breaking, compatible, partially compatible, unrelated) except for the listed known findings (changes inside arrays / map values, optional changes on containers and named unions, aliases of containers as items, spelling-sensitive comparison). Two listed versions (one identical, one changed) are compared in both orders. Exploration over seeded bases and positions.",
   note="Trusted: the catalogue's reading of docs/cpp/evolution.md; adding an enum symbol is treated as don't-care (deliberately allowed by the implementation).", ref="§5 C06"),
 "C09": dict(cat="exploration", tech="single-fault injection with control calibration: each rule's violating construct run alone (control) and then at every position / file; oracle on exit status and on the file named by the diagnostics",
   text="Held for the rule constructs x 11 positions x 4 files, plus the offending file reached through a symbolic link from the package, an import or a previous version (the three validator gaps found earlier - named map keys, unions inside generic arguments, streams nested in steps - were repaired).",
   note="Trusted: the catalogue instantiates each rule with the construct the repository's own unit tests use; the valid base tree is checked to be accepted.", ref="§5 C09"),
 "C11": dict(cat="fault_enumeration", tech="fault enumeration with file-system monitor: recursive (sha256, mtime_ns, inode) snapshot before/after failing `yardl generate` runs plus file.write/file.remove hook events",
   text="Every enumerated failing input x output configuration x initial state left the tree byte- and mtime-identical and logged no write. Faults sit in the main file, a second file, a second YAML document, a symlinked file, an import, a previous version or the import of a previous version archived as a source-tree snapshot; manifest, evolution and -c override faults. Enumeration is over the listed fault catalogue, not all invalid packages.",
   note="Trusted: snapshot covers the whole case tree (HOME excluded); verif-tagged build for the event log.", ref="§5 C11"),
 "C12": dict(cat="exploration", tech="runtime monitoring across N fresh processes (fresh map-iteration seeds): hashes of all outputs, diagnostics and exit status compared; re-run monitored with mtime/inode snapshot and write events",
   text="All N runs identical and the re-run touched nothing, for the packages explored. A two-outcome order dependence escapes N runs with probability 2^-(N-1) (N=5 quick, 25 thorough).",
   note="Trusted: same absolute paths for the runs of one package; sha256.", ref="§5 C12"),
 "C16": dict(cat="fault_enumeration", tech="fault enumeration over cut points: every prefix of small streams and every cut around 64 KiB multiples / block headers of large ones, read by generated C++ (asserts on, NDEBUG, ASan+UBSan) and Python under a process monitor; prefix-of-reference oracle on the delivered NDJSON lines",
   text="Every enumerated proper prefix was reported as an error without crash, sanitizer report or wrong delivered value (after two repairs of coded_stream.h found by this check). Enumeration covers the listed streams, not all streams.",
   note="Trusted: reference codec offsets; unit-buffered NDJSON output of the harness driver; sanitizers only see what red zones see (the value oracle is the deciding one).", ref="§5 C16"),
 "C18": dict(cat="exploration", tech="exhaustive enumeration of import graphs (<= 3 packages, all permutations of import lists; 4 packages sampled/all) run through the real CLI, compared with a reference resolver; order-invariance monitor on exit, parsed-namespace log and normalised model dump",
   text="Exhaustive for <= 3 packages incl. self loops; 4 packages sampled in quick and exhaustive in thorough; special layouts (conflicts, spellings, symlink, identical relative import text in different parent directories, chains of 9..13 packages with the nesting-limit boundary pinned at 10 packages, cycles closed through symbolic links, shortcut graphs whose generated C++ types.cc must compile in every listing order).",
   note="Trusted: reference resolver (cycle / conflict / depth) written from the property text; a package exactly at the limit is don't-care.", ref="§5 C18"),
 "C04": dict(cat="exploration", tech="metamorphic runtime monitoring: schema literals of C++/Python/MATLAB output and headers written by executed generated writers, under neutral edits and under candidate edits classified affecting/non-affecting by reference-encoding a value pool under both models",
   text="Held on the bases and edits explored: all observations of a schema agree (also for a 25 KB schema), neutral edits (incl. nested documentation comments) keep it byte-identical, and every edit that changed a reference encoding changed the schema text - except one listed known finding: !enum vs !flags give the same schema although their NDJSON encodings differ. Encoding-changing edits saved while `generate --watch` runs must change the embedded schemas like a one-shot generation does.",
   note="Trusted: reference codec as the judge of 'alters how some value is encoded' (8 pool value sets per protocol); MATLAB literal read from text.", ref="§5 C04"),
 "C13": dict(cat="exploration", tech="metamorphic runtime monitoring: complete generated trees hashed across 10 pure-syntax spellings, schema literals and bytes written by executed generated Python across layout variants, verdict agreement on invalid packages",
   text="Held on the ASTs explored: pure-syntax spellings gave byte-identical trees for all targets; layout variants kept schemas and written bytes; a nesting zoo (containers of optionals / unions in containers) and fixed-size containers of optionals in plain records agree between short and expanded spellings; HDF5 sources are part of the compared trees; several YAML documents in one file is one of the layouts.",
   note="Trusted: the harness emitter's notion of 'same model in another spelling' (docs/cpp/language.md syntax forms).", ref="§5 C13"),
 "C15": dict(cat="fault_enumeration", tech="fault enumeration on the header + neighbour protocols: executed generated readers (C++ plain/ASan, Python; binary/NDJSON) fed foreign or corrupted streams under a process monitor; refusal-before-first-value oracle on the unit-buffered output",
   text="Every enumerated foreign / corrupted stream was refused with an error before any value was delivered, without crash or sanitizer report; C++ readers are opened through both their stream and their file-name constructors; includes an imported protocol that shares the simple name of a protocol added since the previous version, a foreign reader constructed after the stream's own reader ran in the same process, and models that differ only in a type reachable through the second instantiation of a generic.",
   note="Trusted: harness driver constructs the reader before reading; an ASan abort on a failing operator new is counted as refusal (std::bad_alloc in the plain build).", ref="§5 C15"),
 "C17": dict(cat="exploration", tech="runtime monitoring, exhaustive over block partitions (n<=5 quick / 6 thorough) x buffer capacities: executed generated C++ CopyTo (single, batch, fallback batch) and Python write modes on shape-alternating item sequences, reference decode of the output",
   text="Item sequences were preserved for every explored (partition, capacity, input format, write mode); exhaustive over partitions of short streams, sampled for long ones; Python list / generator batches of 127..300 items; fixed-size items with varint elements, enum items and items above 4 KiB.",
   note="Trusted: reference codec controls the input block partition; equality on canonical values.", ref="§5 C17"),
 "C08": dict(cat="exploration", tech="runtime monitoring of generate + execution/compilation of its output: fresh-interpreter import and construction of every generated Python writer/serializer, g++ -std=c++17 -fsyntax-only of every generated TU, file.write event log checked for path collisions; hostile-identifier, option-matrix and init workloads",
   text="Held for the ordinary corpus and the option matrix; Python/C++ NDJSON options with an imported package, hostile documentation comments, a zoo of generic definitions with equally shaped unions, and a smaller model generated over the output of a larger one; hostile identifiers expose the listed known-finding classes (namespace shadowing, case-conversion collisions, helper-name collisions, version labels, vector<bool>, a computed field called yardl). Exploration over the identifier lists.",
   note="Trusted: g++ 12 with harness shims (no xtensor/date/HDF5); MATLAB output is not parsed; hdf5 TUs are not compiled.", ref="§5 C08"),
 "C19": dict(cat="exploration", tech="runtime monitoring with an exact-arithmetic oracle: exhaustive 13x13x5 operand-type table through the CLI (acceptance symmetry, declared C++/Python result types), generated C++ and Python computed fields executed on reference-encoded records and compared with exact rational values",
   text="Type table exhaustive; values, a 45-expression catalogue and random well-typed expression trees (60 quick, 10 000 thorough) judged against an exact evaluator in C++ and Python. Held except one listed known finding (integer division of opposite signs).",
   note="Trusted: Python Fraction arithmetic as the mathematical value; 'in range' = operands and exact result representable in the static result type; MATLAB not executable.", ref="§5 C19"),
 "C20": dict(cat="exploration", tech="runtime monitoring of the real watcher under the Go race detector with forced interleavings: verif-tag delay points make the k-th regeneration slow (overtaken by a later one), event-log based quiescence, convergence oracle against a one-shot generate, liveness and race-report monitors",
   text="Held on the schedules explored (seeded timed edit scripts around the 5 ms debounce + forced overtaking schedules) after serialising regenerations; schedules include model files added, deleted and moved out, saves during the very first generation, and output removed or overwritten by something else while watching; exploration over schedules, not all interleavings. Liveness is restated as bounded progress.",
   note="Trusted: hook events only log/sleep outside locks; quiescence decided on events; wall-clock bounds only yield inconclusive.", ref="§5 C20"),
 "C07": dict(cat="exploration", tech="runtime monitoring against reference automata: generated abstract reader/writer base classes (C++ compiled with stub subclasses, Python subclassed by reflection) driven with every reference-valid call prefix extended by every action (all (state, action) pairs for shapes <= 3/4 steps) plus random walks",
   text="Exhaustive over (reference state, action) pairs for all protocol shapes up to 3 steps (4 in thorough) with bounded stream visits, in C++ and Python, plus 130 / 260-step protocols (the uint8_t state defect found here was repaired) and half-consumed Python iterators that are closed and dropped.",
   note="Trusted: reference automata written from docs/{cpp,python}/language.md with stated don't-care zones (use after close, re-reading an exhausted stream after an empty final batch, Close() while the end is pending); MATLAB not executable.", ref="§5 C07"),
 "C05": dict(cat="exploration", tech="runtime monitoring with a reference conversion interpreter: seeded version chains accepted by yardl, newest generated C++ (with compatibility serializers, plain + ASan) reading every old version and writing every old version, old versions' own generated readers fed the result; reference decode + documented-conversion oracle",
   text="Held on the chains explored (after five repairs found by this check); generic instances of evolving records and version labels in non-sorted order are part of every chain; old-version writers are constructed over streams and through their file-name constructor; records of only fixed-width fields are included. One listed known finding: evolution of a record defined in an imported package generates C++ that does not compile. Restricted to edit classes with crisp data semantics; union case changes, number<->string text and out-of-range numerics are not evaluated.",
   note="Trusted: reference conversion written from docs/cpp/evolution.md; reference codec; each site edited once per chain.", ref="§5 C05"),
 "C14": dict(cat="exploration", tech="runtime monitoring + plan extraction: the generated Python package is imported and every serializer/converter instantiated; the serializer construction expressions of Python binary, Python NDJSON and MATLAB binary (every protocol step, reader and writer, and every record field) are normalised to plans and compared with the reference plan from the harness AST; the C++ plan is executed by C01/C03",
   text="All compared plans agree on the corpus explored, including the bare/tagged decision of NDJSON unions over a zoo of 3- and 4-case unions, the constructor argument order of generic serializers and the JSON keys of every converter (one listed known finding: an undefined numpy TypeVar in the dtype map of nested generics). Plans of generated C++ are not extracted here (they are executed by C01/C03). MATLAB is text-only (no interpreter), so a wrong static helper inside +yardl/+binary would not show.",
   note="Trusted: reference plan from docs/reference/binary.md; expression parser for Python / MATLAB call syntax; MATLAB fixed-array dimensions are reversed (column-major) by documented normalisation.", ref="§5 C14"),
}

# sentences appended after the fifth seeding round (what each check additionally explores since then)
ADDENDA = {
 "C01": dict(text=" Since the fifth round the generated Python reader / writer is an endpoint too (corpus, big values) and a retained-values workload keeps every decoded value while more than 64 KiB follow (Python list-keeping consumer, C++ batches of 64).",
             tech="; generated Python executed on the same reference-encoded inputs (copy_to and list-keeping consumers)"),
 "C02": dict(text=" The same two oracles run on the generated Python (document written = documented mapping; documented mapping read back), including record fields that are optional only through a named alias; the Python N-d-array-of-compound-elements defects are listed findings.",
             tech="; generated Python NDJSON writer/reader executed under the same oracles"),
 "C03": dict(text=" Also: arrays and vectors of fixed-width records with and without padding (nested, generic), and enums / flags over every integer base spelled through aliases, through all four endpoints.", tech=""),
 "C05": dict(text=" Includes named aliases of primitives that changed, as elements of vectors / fixed vectors / streams (defect found and repaired: 8a0c624).", tech=""),
 "C06": dict(text=" The documented classes are also applied below one to three levels of optional / vector / stream wrappers at four positions.", tech=""),
 "C07": dict(text=" Every Python sequence also runs on the real generated binary and NDJSON readers / writers over in-memory streams, and leaving a with-block is an action of the alphabet.", tech="; the same sequences on the real generated Python binary / NDJSON classes"),
 "C08": dict(text=" Includes a catalogue of generic aliases by body shape (one listed finding: identity alias in Python).", tech=""),
 "C09": dict(text=" Positions include cases of untagged unions; look-alike scenarios place a valid use with the same spelling but another meaning before the violating one.", tech=""),
 "C10": dict(text=" Includes every rule-violating construct of C09's catalogue at every position, alone and combined with a second violation (later validation passes run over trees that earlier passes rejected).", tech=""),
 "C12": dict(text=" Packages with several independently broken parts (versions, imports, imports of versions) are run 30 (120) times each.", tech=""),
 "C14": dict(text=" Includes enums / flags whose base type is an alias, an alias chain or an imported alias.", tech=""),
 "C15": dict(text=" Includes single-edit neighbour packages that keep every name (documented and undocumented definitions), in both directions.", tech=""),
 "C18": dict(text=" Every loop-free graph is also run with one namespace claimed by each pair of its packages, in two import orders.", tech=""),
 "C19": dict(text=" Includes arithmetic over elements of narrow integer / float32 containers and narrow scalar fields with results beyond the element type.", tech=""),
 "C20": dict(text=" Schedules include saves that give unchanged definition names a different meaning (defaults, enum zero value, alias target, generic body).", tech=""),
 "C11": dict(text=" Evolution faults include a breaking change below a package record that shares its simple name with an imported record.", tech=""),
 "C16": dict(text=" A sample of cut points per stream is also read under valgrind memcheck (NDEBUG build).", tech="; valgrind memcheck on a sample"),
}
ADDENDA["C01"]["tech"] += "; valgrind memcheck on two value sets per protocol"
ADDENDA["C03"]["text"] += " The C++ batch writer with empty batches is part of the chains into Python."
ADDENDA["C08"]["text"] += " A computed-field zoo uses switch-case variables, members and elements below every kind of expression node (C++ compiled, Python computed fields called)."
ADDENDA["C09"]["text"] += " The offending previous version is also placed among three previous versions."
ADDENDA["C10"]["text"] += " Integer literals at the boundaries of every integer width appear in every integer position of a computed field."
ADDENDA["C12"]["text"] += " One-shot runs of multi-version packages also run under the Go race detector, and a watcher is taken through saves that change the meaning of names and compared with a fresh process after each (history independence)."
ADDENDA["C12"]["tech"] += "; Go race detector on one-shot runs"
ADDENDA["C14"]["text"] += " Since the sixth round the plans are also observed as executed: generated C++ and Python (copy_to, list, Fortran order) write covering values that must decode to the same values under the reference plan."
ADDENDA["C14"]["tech"] += "; executed layout of generated C++ and Python against the reference codec"
ADDENDA["C15"]["text"] += " and aliases reachable only through one kind of position (map key, vector item, type argument, union case, enum base, array item)."
for _k in ("C04", "C13", "C16", "C17"):
    ADDENDA.setdefault(_k, dict(text="", tech=""))
ADDENDA["C02"]["text"] += " The Python NDJSON writer is also fed Fortran-ordered arrays."
ADDENDA["C03"]["text"] += " Adjacent stream steps in every combination of empty / non-empty streams run through all NDJSON / binary chains."
ADDENDA["C04"]["text"] += " Unions whose cases are named aliases are among the bases."
ADDENDA["C10"]["text"] += " Near-identical type pairs are compared as union cases, under one tag, in switch patterns and across versions; degenerate version pairs (one side defines nothing)."
ADDENDA["C13"]["text"] += " The Python / C++ files generated for every layout consist of the same lines (per-definition text does not depend on definition order); fixed lengths at the integer boundaries in both spellings."
ADDENDA["C15"]["text"] += " A reader regenerated over the output of the model before a same-length edit must refuse the earlier model's streams."
ADDENDA["C12"]["text"] += " Contents generated over the output of earlier contents equal a generation into an empty directory."
ADDENDA["C16"] = dict(text=ADDENDA["C16"]["text"] + " Previous-version streams are read by the newest (converting) reader at every cut point.", tech=ADDENDA["C16"]["tech"])
ADDENDA["C18"]["text"] += " A loader whose threads are all asleep without consuming CPU for 20 s is judged blocked (deadlock)."
ADDENDA["C19"]["text"] += " Chained computed fields and the computed fields of a generic record reached through two instantiations; generated C++ compiled with -Werror=return-local-addr."
ADDENDA["C18"]["text"] += " Git imports are served offline through an insteadOf rewrite: several commits of one repository in one load, cold and warm cache."
# eighth round
ADDENDA["C01"]["text"] += " Generic aliases and records are instantiated with arguments that differ only in a fixed length, rank or shape (C++ and Python endpoints)."
ADDENDA["C02"]["text"] += " Flags with overlapping, multi-bit and zero-named symbols over every value of the base type; flags documents are compared by the value they denote."
ADDENDA.setdefault("C06", dict(text="", tech=""))
ADDENDA["C06"]["text"] += " Fixed pairs in which a definition is renamed through an alias and changed inside in the same step."
ADDENDA.setdefault("C07", dict(text="", tech=""))
ADDENDA["C07"]["text"] += " Fault injection: C++ stub implementations and Python implementations that throw once - the step they were called for is not completed."
ADDENDA["C07"]["tech"] += "; fault injection in the stub implementations"
ADDENDA["C08"]["text"] += " Loop-free import graphs on 3-4 packages with a package reachable along more than one path, import lists in both orders, all targets compiled / imported."
ADDENDA["C10"]["text"] += " One predecessor directory listed under several labels."
ADDENDA.setdefault("C11", dict(text="", tech=""))
ADDENDA["C11"]["text"] += " Borderline packages (names hostile to a target language) are judged only when the run fails, at whatever stage."
ADDENDA["C12"]["text"] += " Unknown names equally close to several known names."
ADDENDA["C15"]["text"] += " Readers regenerated by a running watcher that has seen earlier models of the same protocol are fed the earlier models' streams."
ADDENDA["C17"]["text"] += " Flags / enum / flag-carrying record items; populated/zero alternating sequences through binary, reference NDJSON and C++-written NDJSON at every capacity."
ADDENDA["C18"]["text"] += " The same graphs laid out in directories with hostile names load the same model as the plain layout."
ADDENDA["C19"]["text"] += " A switch-case variable named like a field of another record whose computed field the case calls."
ADDENDA.setdefault("C20", dict(text="", tech=""))
ADDENDA["C20"]["text"] += " Schedules that start on an invalid package (repaired in an import) and schedules in which an import dangles for a while (directory moved away, deleted, half-typed path)."
# ninth round
ADDENDA["C01"]["text"] += " Dates / times / datetimes are handed to the Python writer in every representation it accepts."
ADDENDA["C02"]["text"] += " Maps keyed by a type parameter (generic records and map aliases) instantiated with string, aliases of string and integers."
ADDENDA["C06"]["text"] += " Every fixed pair is also judged by a running watcher after its first pass and three comment-only saves."
ADDENDA["C07"]["text"] += " CopyTo() from a stub reader into the writer, failing at every implementation call."
ADDENDA["C09"]["text"] += " The naming rule with 14 ill-formed names (incl. non-ASCII letters and digits) in 12 kinds of name position."
ADDENDA["C10"]["text"] += " Types that contain themselves through constructs of imported packages."
ADDENDA["C11"]["text"] += " Faults that exist in the import graph only (cycles, self imports, conflicts below an import, too deep a chain)."
ADDENDA["C12"]["text"] += " One map-ordered group of diagnostics behind 0..19 diagnostics with a fixed order."
ADDENDA["C13"]["text"] += " Explicitly tagged unions whose tags equal the derived tags of other unions."
ADDENDA["C14"]["text"] += " Unions that share their non-null cases with and without null, executed by C++ and Python."
ADDENDA["C16"]["text"] += " NDJSON input cut at every byte position (cuts that leave a complete shorter stream by the format are exempt)."
ADDENDA["C17"]["text"] += " Streams several times longer than the reader buffers whose items are multi-byte varints, through every Python mode and C++."
ADDENDA["C18"]["text"] += " Packages reached through linked ancestor directories and package directories that are links."
ADDENDA["C19"]["text"] += " Integer literals around the limits of every width; switches over a plain type; same-record scope of switch variables."
for _pid, _a in ADDENDA.items():
    CHECKS[_pid]["text"] += _a["text"]
    CHECKS[_pid]["tech"] += _a["tech"]
NA_REASON = "check not built yet in this session (work in progress, see DESIGN.md §5 for the planned monitor)"

def main():
    commits = subprocess.run(["git", "-C", "/repo", "log", "--format=%h %s"], capture_output=True, text=True).stdout.splitlines()
    hook_commits = [c.split()[0] for c in commits if c.split(" ", 1)[1].startswith("verif hooks")]
    checks = []
    for pid, c in sorted(CHECKS.items()):
        checks.append({
            "property_id": pid,
            "quick_cmd": "./check %s --tier quick" % pid,
            "thorough_cmd": "./check %s --tier thorough" % pid,
            "evidence_file": "/verif/evidence/%s.json" % pid,
            "replay_cmd_template": "./check %s --replay {path}" % pid,
            "engine": "vlib",
            "level_claimed": {"category": c["cat"], "text": c["text"], "design_ref": c["ref"]},
            "level_note": c["note"],
            "technique": c["tech"],
        })
    na = [{"property_id": p["id"], "reason": NA.get(p["id"], NA_REASON)} for p in PROPS if p["id"] not in CHECKS]
    m = {
        "version": 1,
        "setup_cmd": "./setup.sh",
        "hooks": {
            "guard": "verif (Go build tag)",
            "enable": "go build -tags verif ./cmd/yardl (done by vlib.common.build_yardl at the start of every check; -race added for C20)",
            "baseline_off_cmd": "cd /repo/tooling && GOFLAGS=-mod=mod GOPROXY=off go test -vet=off -count=1 -timeout 25m ./...",
            "source_commits": hook_commits,
            "add_only": True,
        },
        "engines": [{"name": "vlib", "path": "/verif/vlib", "serves_properties": sorted(CHECKS),
                     "kind_free_text": "Python harness: generates packages, runs the real yardl CLI and the code it generates (C++ via g++ incl. ASan/UBSan, Python), monitors processes / files / event logs, compares with independent reference oracles"}],
        "checks": checks,
        "not_applicable": na,
        "notes": "All checks are runtime monitors over executions of the real CLI and of generated code; verdicts are three-valued (exit 0 held / 1 violation / 2 inconclusive). Known findings: /verif/known_findings.jsonl.",
    }
    with open(os.path.join(ROOT, "MANIFEST.json"), "w") as f:
        json.dump(m, f, indent=1)
        f.write("\n")
NA = {}
if __name__ == "__main__":
    main()
