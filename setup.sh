#!/bin/bash
# Run once after a fresh restore, offline. Builds nothing that is not on disk already:
# warms the yardl build and self-tests the trusted base against the documentation.
set -e
cd "$(dirname "$0")"
export GOFLAGS=-mod=mod GOPROXY=off GOTOOLCHAIN=auto PYTHONDONTWRITEBYTECODE=1
unset GOSUMDB
mkdir -p .cache/bin .cache/cxx evidence work
/opt/veriftools/pyvenv/bin/python -m vlib.selftest
/opt/veriftools/pyvenv/bin/python - <<'PY'
from vlib import common
print("yardl (verif tag):", common.build_yardl())
PY
