"""Harness AST for yardl packages (independent of yardl's own data structures)."""
from __future__ import annotations

from dataclasses import dataclass, field, replace
from typing import Optional, Tuple, Union

PRIMS = ["bool", "int8", "uint8", "int16", "uint16", "int32", "uint32", "int64", "uint64", "size",
         "float32", "float64", "complexfloat32", "complexfloat64", "string", "date", "time", "datetime"]
PRIM_ALIASES = {"byte": "uint8", "int": "int32", "uint": "uint32", "long": "int64", "ulong": "uint64",
                "float": "float32", "double": "float64", "complexfloat": "complexfloat32",
                "complexdouble": "complexfloat64"}
INT_PRIMS = ["int8", "uint8", "int16", "uint16", "int32", "uint32", "int64", "uint64", "size"]
INT_RANGE = {"int8": (-2**7, 2**7 - 1), "uint8": (0, 2**8 - 1), "int16": (-2**15, 2**15 - 1),
             "uint16": (0, 2**16 - 1), "int32": (-2**31, 2**31 - 1), "uint32": (0, 2**32 - 1),
             "int64": (-2**63, 2**63 - 1), "uint64": (0, 2**64 - 1), "size": (0, 2**64 - 1)}
SIGNED = {"int8", "int16", "int32", "int64"}
MAP_KEY_PRIMS = [p for p in PRIMS if p not in ()]  # any primitive scalar is a legal key


# ----------------------------------------------------------------------------- types

@dataclass(frozen=True)
class P:            # primitive
    name: str
    spell: Optional[str] = None   # alias spelling to use when emitting (e.g. "int")


@dataclass(frozen=True)
class N:            # reference to a named type (record / enum / flags / alias)
    name: str
    args: Tuple = ()
    ns: Optional[str] = None      # namespace qualifier (imported types)


@dataclass(frozen=True)
class TP:           # reference to a generic type parameter
    name: str


@dataclass(frozen=True)
class U:            # union; cases = ((tag|None, type), ...); nullable => null is case 0
    cases: Tuple
    nullable: bool = False
    explicit: bool = False        # emit with !union and explicit tags

    @property
    def is_optional(self):
        return self.nullable and len(self.cases) == 1


def Opt(t):
    return U(((None, t),), True)


@dataclass(frozen=True)
class V:            # vector
    item: object
    length: Optional[int] = None


@dataclass(frozen=True)
class A:            # array; dims: None (dynamic rank) | int (rank) | ((name|None, length|None), ...)
    item: object
    dims: object = None

    @property
    def kind(self):
        if self.dims is None:
            return "dynamic"
        if isinstance(self.dims, int):
            return "ranked"
        if all(d[1] is not None for d in self.dims) and len(self.dims) > 0:
            return "fixed"
        return "ranked"

    @property
    def rank(self):
        if self.dims is None:
            return None
        return self.dims if isinstance(self.dims, int) else len(self.dims)

    @property
    def shape(self):
        return tuple(d[1] for d in self.dims)


@dataclass(frozen=True)
class M:            # map
    key: object
    value: object


@dataclass(frozen=True)
class S:            # stream (protocol steps only)
    item: object


# ----------------------------------------------------------------------------- definitions

@dataclass
class Rec:
    name: str
    fields: list                      # [(name, type)]
    tparams: tuple = ()
    computed: list = field(default_factory=list)   # [(name, expr-source or SwitchExpr)]
    comment: Optional[str] = None
    field_comments: dict = field(default_factory=dict)


@dataclass
class En:
    name: str
    values: list                      # [(symbol, int)]
    base: Optional[str] = None        # primitive name or None (=> int32)
    flags: bool = False
    explicit_values: bool = True      # emit as map symbol: value (else as list, values must be the defaults)
    comment: Optional[str] = None
    base_alias: Optional[str] = None  # name of an alias of `base` to spell as the base type (base must be its target primitive)

    @property
    def base_prim(self):
        return self.base or "int32"


@dataclass
class Al:
    name: str
    type: object
    tparams: tuple = ()
    comment: Optional[str] = None


@dataclass
class Proto:
    name: str
    steps: list                       # [(name, type)]   (type may be S(...))
    comment: Optional[str] = None
    step_comments: dict = field(default_factory=dict)


@dataclass
class Switch:
    """computed-field !switch expression: target source, cases [(pattern_source, expr)]"""
    target: str
    cases: list


@dataclass
class Pkg:
    ns: str
    defs: list
    imports: list = field(default_factory=list)      # [Pkg]
    versions: list = field(default_factory=list)     # [(label, Pkg)]
    dirname: Optional[str] = None                    # directory name (default: ns lower-cased)

    @property
    def dir(self):
        return self.dirname or self.ns.lower()

    def protocols(self):
        return [d for d in self.defs if isinstance(d, Proto)]

    def find(self, name):
        for d in self.defs:
            if d.name == name:
                return d
        return None

    def closure(self):
        """All packages reachable through imports (dependencies first, each once)."""
        seen, out = set(), []

        def rec(p):
            if id(p) in seen:
                return
            seen.add(id(p))
            for q in p.imports:
                rec(q)
            out.append(p)
        rec(self)
        return out


class Env:
    """Name resolution over a package and its (transitive) imports."""

    def __init__(self, pkg: Pkg):
        self.pkg = pkg
        self.by_ns = {}
        for p in pkg.closure():
            self.by_ns[p.ns] = p

    def lookup(self, ref: N, home: Optional[str] = None):
        ns = ref.ns or home or self.pkg.ns
        p = self.by_ns.get(ns)
        d = p.find(ref.name) if p else None
        if d is None:
            raise KeyError("unresolved %s.%s" % (ns, ref.name))
        return d, ns


def subst(t, binding: dict):
    """Substitutes type parameters."""
    if isinstance(t, TP):
        return binding.get(t.name, t)
    if isinstance(t, P):
        return t
    if isinstance(t, N):
        return replace(t, args=tuple(subst(a, binding) for a in t.args))
    if isinstance(t, U):
        return replace(t, cases=tuple((tag, subst(c, binding)) for tag, c in t.cases))
    if isinstance(t, V):
        return replace(t, item=subst(t.item, binding))
    if isinstance(t, A):
        return replace(t, item=subst(t.item, binding))
    if isinstance(t, M):
        return M(subst(t.key, binding), subst(t.value, binding))
    if isinstance(t, S):
        return S(subst(t.item, binding))
    raise TypeError(t)


def fq(t, home: str):
    """Makes every named reference carry its namespace explicitly."""
    if isinstance(t, (P, TP)):
        return t
    if isinstance(t, N):
        return N(t.name, tuple(fq(a, home) for a in t.args), t.ns or home)
    if isinstance(t, U):
        return replace(t, cases=tuple((tag, fq(c, home)) for tag, c in t.cases))
    if isinstance(t, V):
        return replace(t, item=fq(t.item, home))
    if isinstance(t, A):
        return replace(t, item=fq(t.item, home))
    if isinstance(t, M):
        return M(fq(t.key, home), fq(t.value, home))
    if isinstance(t, S):
        return S(fq(t.item, home))
    raise TypeError(t)


def unfq(t, cur: str):
    """Drops the namespace qualifier of references into namespace `cur`."""
    if isinstance(t, (P, TP)):
        return t
    if isinstance(t, N):
        return N(t.name, tuple(unfq(a, cur) for a in t.args), None if t.ns in (None, cur) else t.ns)
    if isinstance(t, U):
        return replace(t, cases=tuple((tag, unfq(c, cur)) for tag, c in t.cases))
    if isinstance(t, V):
        return replace(t, item=unfq(t.item, cur))
    if isinstance(t, A):
        return replace(t, item=unfq(t.item, cur))
    if isinstance(t, M):
        return M(unfq(t.key, cur), unfq(t.value, cur))
    if isinstance(t, S):
        return S(unfq(t.item, cur))
    raise TypeError(t)


def resolve(env: Env, t):
    """t must be fully qualified. Expands aliases at the head; returns a fully qualified
    type that is not an N naming an alias (records / enums stay N)."""
    while isinstance(t, N):
        d, ns = env.lookup(t)
        if isinstance(d, Al):
            t = subst(fq(d.type, ns), dict(zip(d.tparams, t.args)))
        else:
            break
    return t


def record_fields(env: Env, t: N):
    """Fully qualified, substituted (name, type) list of a record reference."""
    d, ns = env.lookup(t)
    assert isinstance(d, Rec), d
    binding = dict(zip(d.tparams, t.args))
    return [(fn, subst(fq(ft, ns), binding)) for fn, ft in d.fields]


def walk_types(t):
    yield t
    if isinstance(t, N):
        for a in t.args:
            yield from walk_types(a)
    elif isinstance(t, U):
        for _, c in t.cases:
            yield from walk_types(c)
    elif isinstance(t, (V, A, S)):
        yield from walk_types(t.item)
    elif isinstance(t, M):
        yield from walk_types(t.key)
        yield from walk_types(t.value)
