"""Building and running drivers over *generated* C++ code.

The driver only calls generated public API (Reader/Writer constructors, CopyTo, Close);
class names / namespaces are discovered by parsing the generated protocols.h."""
from __future__ import annotations

import fcntl
import os
import re
import shutil
import subprocess
import tempfile
import threading

from . import common
from .common import CACHE, ROOT, Inconclusive, sha

SHIM = os.path.join(ROOT, "shim")
JSON_INC = "/root/miniconda/include"
ARRAY_HEADER = "verif/ndarray_shim.h"

FLAVORS = {
    "plain": ["-O1"],
    "ndebug": ["-O1", "-DNDEBUG"],
    "asan": ["-O1", "-g", "-fsanitize=address,undefined", "-fno-sanitize=nonnull-attribute", "-fno-sanitize-recover=all", "-fno-omit-frame-pointer"],
    "trace": ["-O0", "-fno-inline", "-finstrument-functions", "-no-pie",
              "-finstrument-functions-exclude-file-list=/usr/,nlohmann,shim/"],
    "syntax": ["-fsyntax-only"],
}
ASAN_ENV = {"ASAN_OPTIONS": "abort_on_error=1:detect_leaks=0:allocator_may_return_null=1:malloc_context_size=8",
            "UBSAN_OPTIONS": "print_stacktrace=1:halt_on_error=1"}
VALGRIND = ["valgrind", "--quiet", "--error-exitcode=97", "--leak-check=no", "--track-origins=no", "--num-callers=12"]
CXX = os.environ.get("VERIF_CXX", "g++")
# no blanket -w: a generated function that returns a reference to a temporary is a defect of the generated code (g++ diagnoses it), the other warnings are only printed
BASE_FLAGS = ["-std=c++17", "-pipe", "-Wno-unused", "-Werror=return-local-addr"]


def cpp_gen_options(extra: dict | None = None) -> dict:
    o = {"generateCMakeLists": False, "generateHDF5": False, "overrideArrayHeader": ARRAY_HEADER}
    if extra:
        o.update(extra)
    return o


class GenInfo:
    """What the harness learns from generated protocols.h"""

    def __init__(self, gen_dir: str):
        self.gen_dir = gen_dir
        src = open(os.path.join(gen_dir, "protocols.h")).read()
        m = re.search(r"^namespace ([\w:]+) \{", src, re.M)
        if not m:
            raise Inconclusive("cannot find namespace in generated protocols.h")
        self.ns = m.group(1)
        self.versions = []
        m = re.search(r"enum class Version \{(.*?)\};", src, re.S)
        if m:
            self.versions = [v.strip() for v in m.group(1).replace("\n", " ").split(",") if v.strip()]
        self.protocols = []   # [(class prefix, n_stream_args)]
        for pm in re.finditer(r"^class (\w+)ReaderBase \{(.*?)^\};", src, re.M | re.S):
            body = pm.group(2)
            cm = re.search(r"void CopyTo\((\w+)WriterBase& writer(.*?)\);", body, re.S)
            nargs = cm.group(2).count("size_t") if cm else 0
            self.protocols.append((pm.group(1), nargs))
        self.has_ndjson = os.path.exists(os.path.join(gen_dir, "ndjson", "protocols.h"))
        # batch write overloads of the generated binary writers: {protocol: [(method, element type)]}
        self.batch_impls = {}
        bh = os.path.join(gen_dir, "binary", "protocols.h")
        if os.path.exists(bh):
            bsrc = open(bh).read()
            for cm in re.finditer(r"^class (\w+)Writer : public .*?\{(.*?)^\};", bsrc, re.M | re.S):
                self.batch_impls[cm.group(1)] = re.findall(r"void (Write\w+Impl)\(std::vector<(.+)> const& values\) override;", cm.group(2))


DRIVER_HEAD = r'''
// emitted by the verification harness; calls generated public API only
#include <cstdlib>
#include <cstring>
#include <fstream>
#include <iostream>
#include <sstream>
#include <string>
#include <vector>

#include "binary/protocols.h"
%(ndjson_include)s

namespace {
struct Args {
  std::string proto, in, out, version;
  std::vector<size_t> bufs;
  bool skip_close = false;
  bool itemwise = false;
  bool empty_batches = false;
  std::string in_file;   // open the input through the reader's file-name constructor instead of its stream constructor
  std::string out_file;  // construct the writer through its file-name constructor instead of its stream constructor
  std::string first_proto, first_fmt, first_file;  // a complete copy of another stream made in this process before the main one
};

template <class R, class W, class F>
int copy_with(Args const& a, R& r, W& w, F f) {
  f(r, w, a.bufs);
  if (!a.skip_close) {
    r.Close();
    w.Close();
  } else {
    w.Flush();
  }
  return 0;
}

template <class R, class W, class F>
int copy(Args const& a, std::istream& in, std::ostream& out, W& w, F f) {
  if (!a.in_file.empty()) {
    R r(a.in_file);
    return copy_with(a, r, w, f);
  }
  R r(in);
  return copy_with(a, r, w, f);
}
}  // namespace

static int run(Args const& a, std::ostream& out) {
  std::ios::sync_with_stdio(false);
  std::istream& in = std::cin;
  if (a.out == "ndjson") out << std::unitbuf;
'''

DRIVER_TAIL = r'''
  std::cerr << "DRIVER: unknown protocol/format " << a.proto << " " << a.in << " " << a.out << "\n";
  return 64;
}

int main(int argc, char** argv) {
  Args a;
  if (argc < 4) { std::cerr << "usage: driver <proto> <bin|ndjson> <bin|ndjson> [--version L] [--bufs a,b] [--skip-close]\n"; return 64; }
  a.proto = argv[1]; a.in = argv[2]; a.out = argv[3];
  for (int i = 4; i < argc; i++) {
    std::string s = argv[i];
    if (s == "--version" && i + 1 < argc) a.version = argv[++i];
    else if (s == "--skip-close") a.skip_close = true;
    else if (s == "--empty-batches") a.empty_batches = true;
    else if (s == "--in-file" && i + 1 < argc) a.in_file = argv[++i];
    else if (s == "--out-file" && i + 1 < argc) a.out_file = argv[++i];
    else if (s == "--first" && i + 3 < argc) { a.first_proto = argv[++i]; a.first_fmt = argv[++i]; a.first_file = argv[++i]; }
    else if (s == "--bufs" && i + 1 < argc) {
      std::stringstream ss(argv[++i]); std::string tok;
      while (std::getline(ss, tok, ',')) a.bufs.push_back(std::stoull(tok));
    }
  }
  a.bufs.resize(64, 1);
  if (!a.first_proto.empty()) {
    Args f = a;
    f.proto = a.first_proto; f.in = a.first_fmt; f.in_file = a.first_file; f.out_file.clear(); f.first_proto.clear(); f.version.clear(); f.empty_batches = false;
    std::ostringstream sink;
    try {
      int rc = run(f, sink);
      std::cerr << "DRIVER-FIRST: rc=" << rc << " bytes=" << sink.str().size() << "\n";
    } catch (std::exception const& e) {
      std::cerr << "DRIVER-FIRST: error " << e.what() << "\n";
    }
  }
  try {
    return run(a, std::cout);
  } catch (std::exception const& e) {
    std::cout.flush();
    std::cerr << "DRIVER-ERROR: " << e.what() << "\n";
    return 3;
  } catch (...) {
    std::cout.flush();
    std::cerr << "DRIVER-ERROR: unknown exception\n";
    return 4;
  }
}
'''


def driver_source(info: GenInfo) -> str:
    ns = info.ns
    head = DRIVER_HEAD % {"ndjson_include": '#include "ndjson/protocols.h"' if info.has_ndjson else ""}
    # writers that surround every batch write with empty batches (legal calls: `WriteX(std::vector<T>{})`)
    eb = ["namespace {\n"]
    for name, nargs in info.protocols:
        eb.append("struct EB_%s : public %s::binary::%sWriter {\n  using %s::binary::%sWriter::%sWriter;\n" % (name, ns, name, ns, name, name))
        for meth, ety in info.batch_impls.get(name, []):
            eb.append("  void %s(std::vector<%s> const& values) override {\n    %s::binary::%sWriter::%s(std::vector<%s>{});\n    %s::binary::%sWriter::%s(values);\n    %s::binary::%sWriter::%s(std::vector<%s>{});\n  }\n"
                      % (meth, ety, ns, name, meth, ety, ns, name, meth, ns, name, meth, ety))
        eb.append("};\n")
    eb.append("}  // namespace\n")
    head = head.replace("static int run(Args const& a, std::ostream& out) {", "".join(eb) + "static int run(Args const& a, std::ostream& out) {")
    parts = [head]
    for name, nargs in info.protocols:
        call = "r.CopyTo(w" + "".join(", b.at(%d)" % i for i in range(nargs)) + ");"
        lam = "[](auto& r, auto& w, std::vector<size_t> const& b) { (void)b; %s }" % call
        vers = "".join('      if (a.version == "%s") ver = %s::Version::%s;\n' % (v, ns, v) for v in info.versions)
        parts.append('  if (a.proto == "%s") {\n' % name)
        parts.append('    if (a.out == "bin") {\n      %s::Version ver = %s::Version::Current;\n%s' % (ns, ns, vers))
        parts.append('      if (a.empty_batches) {\n        EB_%s w(out, ver);\n        if (a.in == "bin") return copy<%s::binary::%sReader>(a, in, out, w, %s);\n        return 64;\n      }\n' % (name, ns, name, lam))
        for ctor, cond in (("a.out_file, ver", "!a.out_file.empty()"), ("out, ver", "true")):
            parts.append('      if (%s) {\n        %s::binary::%sWriter w(%s);\n' % (cond, ns, name, ctor))
            parts.append('        if (a.in == "bin") return copy<%s::binary::%sReader>(a, in, out, w, %s);\n' % (ns, name, lam))
            if info.has_ndjson:
                parts.append('        if (a.in == "ndjson") return copy<%s::ndjson::%sReader>(a, in, out, w, %s);\n' % (ns, name, lam))
            parts.append('        return 64;\n      }\n')
        parts.append('    }\n')
        if info.has_ndjson:
            parts.append('    if (a.out == "ndjson") {\n')
            for ctor, cond in (("a.out_file", "!a.out_file.empty()"), ("out", "true")):
                parts.append('      if (%s) {\n        %s::ndjson::%sWriter w(%s);\n' % (cond, ns, name, ctor))
                parts.append('        if (a.in == "bin") return copy<%s::binary::%sReader>(a, in, out, w, %s);\n' % (ns, name, lam))
                parts.append('        if (a.in == "ndjson") return copy<%s::ndjson::%sReader>(a, in, out, w, %s);\n' % (ns, name, lam))
                parts.append('        return 64;\n      }\n')
            parts.append('    }\n')
        parts.append('  }\n')
    parts.append(DRIVER_TAIL)
    return "".join(parts)


def _tree_hash(d: str) -> str:
    items = []
    for root, dirs, files in os.walk(d):
        dirs.sort()
        for f in sorted(files):
            p = os.path.join(root, f)
            if f.endswith((".cc", ".h", ".hpp")):
                with open(p, "rb") as fh:
                    items.append((os.path.relpath(p, d), fh.read()))
    h = sha(*[x for it in items for x in (it[0], it[1])])
    return h


_shim_hash = None


def shim_hash() -> str:
    global _shim_hash
    if _shim_hash is None:
        _shim_hash = _tree_hash(SHIM)
    return _shim_hash


_locks: dict = {}
_cc_sem = threading.BoundedSemaphore(common.NCPU)
_locks_guard = threading.Lock()


def compile_cmd(flavor: str, src: str, obj: str | None, gen_dir: str, extra_inc=()) -> list:
    cmd = [CXX] + BASE_FLAGS + FLAVORS[flavor] + ["-I", gen_dir, "-I", SHIM, "-idirafter", JSON_INC]
    for i in extra_inc:
        cmd += ["-I", i]
    if flavor == "syntax":
        return cmd + [src]
    return cmd + ["-c", src, "-o", obj]


def build(gen_dir: str, flavor: str = "plain", driver_src: str | None = None, tag: str = "driver",
          extra_sources: dict | None = None, parallel: bool = True) -> str:
    """Compiles the generated sources of gen_dir together with a harness driver; returns the
    executable path (content-addressed cache)."""
    info = GenInfo(gen_dir)
    if driver_src is None:
        driver_src = driver_source(info)
    key = sha(_tree_hash(gen_dir), shim_hash(), driver_src, " ".join(FLAVORS[flavor]), CXX, tag,
              *(sorted((extra_sources or {}).items()) and [repr(sorted(extra_sources.items()))]))[:32]
    cdir = os.path.join(CACHE, "cxx", key[:2], key)
    exe = os.path.join(cdir, "driver")
    if os.path.exists(exe):
        os.utime(cdir)
        return exe
    with _locks_guard:
        lk = _locks.setdefault(key, threading.Lock())
    with lk:
        if os.path.exists(exe):
            return exe
        tmp = tempfile.mkdtemp(prefix="cxx-", dir=os.path.join(CACHE, "cxx") if os.path.isdir(os.path.join(CACHE, "cxx")) else None)
        try:
            srcs = []
            for rel in ["types.cc", "protocols.cc", "binary/protocols.cc", "ndjson/protocols.cc"]:
                p = os.path.join(gen_dir, rel)
                if os.path.exists(p):
                    srcs.append(p)
            # imported namespaces are generated into sub directories
            for root, dirs, files in os.walk(gen_dir):
                for f in files:
                    p = os.path.join(root, f)
                    if f.endswith(".cc") and p not in srcs and "/hdf5/" not in p and not f.startswith("translator") and "mocks" not in f:
                        srcs.append(p)
            dpath = os.path.join(tmp, "driver.cc")
            with open(dpath, "w") as f:
                f.write(driver_src)
            srcs.append(dpath)
            for name, text in (extra_sources or {}).items():
                p = os.path.join(tmp, name)
                with open(p, "w") as f:
                    f.write(text)
                if name.endswith(".cc"):
                    srcs.append(p)
            objs = []
            jobs = []
            for i, s in enumerate(srcs):
                o = os.path.join(tmp, "o%d.o" % i)
                objs.append(o)
                jobs.append(compile_cmd(flavor, s, o, gen_dir, extra_inc=[tmp]))

            def cc(cmd):
                with _cc_sem:
                    p = subprocess.run(cmd, capture_output=True, text=True)
                return cmd, p.returncode, p.stderr

            results = common.pmap(cc, jobs, workers=len(jobs)) if parallel else [cc(j) for j in jobs]
            for cmd, rc, err in results:
                if rc != 0:
                    raise CompileError(cmd, err)
            link = [CXX] + [f for f in FLAVORS[flavor] if f.startswith(("-fsanitize", "-no-pie", "-g"))] + objs + ["-o", os.path.join(tmp, "driver")]
            p = subprocess.run(link, capture_output=True, text=True)
            if p.returncode != 0:
                raise CompileError(link, p.stderr)
            os.makedirs(os.path.dirname(cdir), exist_ok=True)
            os.makedirs(cdir, exist_ok=True)
            shutil.move(os.path.join(tmp, "driver"), exe + ".tmp")
            os.replace(exe + ".tmp", exe)
            return exe
        finally:
            shutil.rmtree(tmp, ignore_errors=True)


class CompileError(Exception):
    def __init__(self, cmd, err):
        super().__init__("compile failed: %s\n%s" % (" ".join(cmd[-4:]), err[-3000:]))
        self.cmd, self.err = cmd, err


def prune_cache(max_bytes: int = 3 * 1024**3):
    base = os.path.join(CACHE, "cxx")
    ents = []
    total = 0
    for a in os.listdir(base) if os.path.isdir(base) else []:
        pa = os.path.join(base, a)
        if not os.path.isdir(pa):
            continue
        for b in os.listdir(pa):
            pb = os.path.join(pa, b)
            try:
                sz = sum(os.path.getsize(os.path.join(pb, f)) for f in os.listdir(pb))
                ents.append((os.path.getmtime(pb), sz, pb))
                total += sz
            except OSError:
                pass
    ents.sort()
    while total > max_bytes and ents:
        _, sz, pb = ents.pop(0)
        shutil.rmtree(pb, ignore_errors=True)
        total -= sz


def run_driver(exe: str, args: list, stdin: bytes, flavor: str = "plain", cpu_s: int = 20):
    env = dict(os.environ)
    if flavor == "asan":
        env.update(ASAN_ENV)
    if flavor == "valgrind":
        # memcheck as a second opinion on the uninstrumented NDEBUG build: it also sees reads of uninitialised memory, which ASan does not
        return common.run(VALGRIND + [exe] + args, stdin=stdin, env=env, cpu_s=cpu_s)
    return common.run([exe] + args, stdin=stdin, env=env, cpu_s=cpu_s)
