"""Edge-heavy value generation for harness types."""
from __future__ import annotations

import math
import random
import struct

from .model import *  # noqa
from .refcodec import F, f32, f64, Codec

VARINT_EDGES = [0, 1, 2, 127, 128, 129, 255, 256, 16383, 16384, 2**21 - 1, 2**21, 2**28 - 1, 2**28,
                2**31 - 1, 2**31, 2**32 - 1, 2**32, 2**35, 2**42, 2**49, 2**56, 2**63 - 1, 2**63, 2**64 - 1]
F32_BITS = [0x00000000, 0x80000000, 0x3F800000, 0xBF800000, 0x7F800000, 0xFF800000, 0x7FC00000, 0xFFC00000,
            0x7FC00001, 0x7FFFFFFF, 0x00000001, 0x007FFFFF, 0x00800000, 0x7F7FFFFF, 0xFF7FFFFF, 0x3DCCCCCD, 0x42BF70A4]
F64_BITS = [0x0, 0x8000000000000000, 0x3FF0000000000000, 0xBFF0000000000000, 0x7FF0000000000000,
            0xFFF0000000000000, 0x7FF8000000000000, 0xFFF8000000000000, 0x7FF8000000000001, 0x7FFFFFFFFFFFFFFF,
            0x1, 0x000FFFFFFFFFFFFF, 0x0010000000000000, 0x7FEFFFFFFFFFFFFF, 0x3FB999999999999A, 0x4005BF0A8B145769]
STRINGS = ["", "a", "hello", "héllo wörld", "日本語テキスト", "😀🎉", "a\x00b", "line\nbreak\ttab", "\"quoted\" \\back",
           "߿ࠀ￿", "x" * 127, "y" * 128, "\U0001F600" * 40, " leading and trailing ", "null", "{}", "[1,2]",
           # characters that some line splitters, decoders or terminals treat specially but that are ordinary string content
           "a\u0085b", "line\u2028sep\u2029para", "\ufeffbom", "cr\rlf\r\nend", "\x7fdel\x1f\x0b\x0c\x1c", "nbsp\u00a0zw\u200b"]

DATE_MIN = -719162          # 0001-01-01
DATE_MAX = 2932896          # 9999-12-31
DAY_NS = 86400 * 10**9
DT_MIN = -(2**63)
DT_MAX = 2**63 - 1


def is_finite_f(v: F) -> bool:
    return math.isfinite(v.value)


class ValueGen:
    def __init__(self, codec: Codec, rnd: random.Random, finite_only: bool = False, json_safe: bool = False,
                 max_len: int = 6, py_safe: bool = True, quiet_nan_only: bool = False):
        self.c, self.r = codec, rnd
        self.finite_only = finite_only or json_safe
        self.json_safe = json_safe
        self.max_len = max_len
        self.quiet_nan_only = quiet_nan_only   # CPython turns signalling NaNs into quiet ones (float32<->double)
        self.py_safe = py_safe   # keep dates/datetimes within what every target can represent

    # ------------------------------------------------------------ primitives
    def prim(self, name: str):
        r = self.r
        if name == "bool":
            return r.random() < 0.5
        if name in INT_RANGE:
            lo, hi = INT_RANGE[name]
            c = r.random()
            if c < 0.45:
                e = r.choice(VARINT_EDGES)
                v = e if r.random() < 0.5 else -e
                if name in SIGNED and r.random() < 0.3:
                    v = r.choice([-e - 1, e - 1, -(e // 2), e // 2, -(e // 2) - 1])
                if lo <= v <= hi:
                    return v
                return r.choice([lo, hi])
            if c < 0.6:
                return r.choice([lo, hi, 0, lo + 1, hi - 1])
            if c < 0.8:
                return r.randint(max(lo, -200), min(hi, 200))
            return r.randint(lo, hi)
        if name == "float32":
            return self.flt(32)
        if name == "float64":
            return self.flt(64)
        if name == "complexfloat32":
            return (self.flt(32), self.flt(32))
        if name == "complexfloat64":
            return (self.flt(64), self.flt(64))
        if name == "string":
            c = r.random()
            if c < 0.6:
                return r.choice(STRINGS)
            if c < 0.9:
                n = r.randint(0, 40)
                return "".join(r.choice("abcXYZ 09_-é日😀\"\\/") for _ in range(n))
            return "z" * r.choice([16383, 16384, 300])
        if name == "date":
            c = r.random()
            if c < 0.3:
                return r.choice([0, 1, -1, DATE_MIN, DATE_MAX, 18278, 11016])
            return r.randint(DATE_MIN, DATE_MAX)
        if name == "time":
            c = r.random()
            if c < 0.3:
                return r.choice([0, 1, DAY_NS - 1, 39025777888999, 10**9, 999999999])
            return r.randint(0, DAY_NS - 1)
        if name == "datetime":
            lo, hi = (DATE_MIN * DAY_NS, (DATE_MAX + 1) * DAY_NS - 1)
            lo, hi = max(lo, DT_MIN), min(hi, DT_MAX)
            if self.py_safe:
                # numpy datetime64[ns] reserves INT64_MIN for NaT
                lo = max(lo, DT_MIN + 1)
            c = r.random()
            if c < 0.3:
                return r.choice([0, 1, -1, 1685471816708792349, lo, hi, 10**9, -10**9 - 1])
            return r.randint(lo, hi)
        raise ValueError(name)

    def flt(self, w: int) -> F:
        r = self.r
        for _ in range(50):
            c = r.random()
            if c < 0.5:
                v = F(r.choice(F32_BITS if w == 32 else F64_BITS), w)
            elif c < 0.8:
                x = r.choice([r.uniform(-10, 10), r.uniform(-1e6, 1e6), float(r.randint(-1000, 1000)), r.uniform(-1, 1) * 1e-5])
                v = f32(x) if w == 32 else f64(x)
            else:
                v = F(r.getrandbits(w), w)
            if self.finite_only and not math.isfinite(v.value):
                continue
            if self.quiet_nan_only and math.isnan(v.value):
                quiet = (v.bits >> (22 if w == 32 else 51)) & 1
                if not quiet:
                    continue
            return v
        return F(0, w)

    # ------------------------------------------------------------ composite
    def gen(self, t, depth: int = 0):
        c, r = self.c, self.r
        t = c.res(t)
        if isinstance(t, P):
            return self.prim(t.name)
        if isinstance(t, N):
            d, _ = c.env.lookup(t)
            if isinstance(d, En):
                return self.enum(d)
            return [self.gen(ft, depth + 1) for fn, ft in record_fields(c.env, t)]
        if isinstance(t, U):
            n = len(t.cases) + (1 if t.nullable else 0)
            i = r.randrange(n)
            if t.nullable:
                if i == 0:
                    return None
                i -= 1
            return (i, self.gen(t.cases[i][1], depth + 1))
        if isinstance(t, V):
            n = t.length if t.length is not None else self.length(depth)
            return [self.gen(t.item, depth + 1) for _ in range(n)]
        if isinstance(t, A):
            if t.kind == "fixed":
                shape = tuple(t.shape)
            else:
                rank = t.rank if t.rank is not None else r.choice([1, 1, 2, 3, 0])   # a dynamic array of rank 0 holds one element
                shape = tuple(r.choice([0, 1, 2, 3]) if depth > 1 else r.choice([0, 1, 2, 3, 5]) for _ in range(rank))
            return (shape, [self.gen(t.item, depth + 1) for _ in range(math.prod(shape))])
        if isinstance(t, M):
            n = self.length(depth)
            out, seen = [], set()
            for _ in range(n):
                k = self.gen(t.key, depth + 1)
                kk = repr(k)
                if isinstance(k, F) and not math.isfinite(k.value):
                    continue
                if kk in seen:
                    continue
                seen.add(kk)
                out.append((k, self.gen(t.value, depth + 1)))
            return out
        if isinstance(t, S):
            return [self.gen(t.item, depth + 1) for _ in range(self.length(depth))]
        raise TypeError(t)

    def length(self, depth: int) -> int:
        r = self.r
        if depth >= 3:
            return r.choice([0, 1, 2])
        return r.choice([0, 0, 1, 1, 2, 3, self.max_len])

    def enum(self, d: En) -> int:
        r = self.r
        lo, hi = INT_RANGE[d.base_prim]
        c = r.random()
        if d.flags:
            if c < 0.2:
                return 0
            if c < 0.8:
                v = 0
                for _, val in d.values:
                    if r.random() < 0.5:
                        v |= val
                return v if lo <= v <= hi else d.values[0][1]
            v = r.randint(max(lo, 0), hi)     # possibly undefined bits
            return v
        if c < 0.8:
            return r.choice(d.values)[1]
        return r.randint(lo, hi)              # possibly outside the defined symbols

    def steps(self, proto: Proto, stream_len=None) -> list:
        out = []
        for sn, stp in proto.steps:
            stp = self.c.fq(stp)
            if isinstance(stp, S):
                n = stream_len if stream_len is not None else self.r.choice([0, 1, 2, 3, 5, 8])
                out.append([self.gen(stp.item, 1) for _ in range(n)])
            else:
                out.append(self.gen(stp, 0))
        return out


def zero_value(codec: Codec, t):
    """The documented 'zero' of a type (0, "", empty, null / first case)."""
    t = codec.res(t)
    if isinstance(t, P):
        n = t.name
        if n == "bool":
            return False
        if n in INT_RANGE or n in ("date", "time", "datetime"):
            return 0
        if n == "float32":
            return F(0, 32)
        if n == "float64":
            return F(0, 64)
        if n == "complexfloat32":
            return (F(0, 32), F(0, 32))
        if n == "complexfloat64":
            return (F(0, 64), F(0, 64))
        if n == "string":
            return ""
    if isinstance(t, N):
        d, _ = codec.env.lookup(t)
        if isinstance(d, En):
            return 0
        return [zero_value(codec, ft) for fn, ft in record_fields(codec.env, t)]
    if isinstance(t, U):
        if t.nullable:
            return None
        return (0, zero_value(codec, t.cases[0][1]))
    if isinstance(t, V):
        return [zero_value(codec, t.item) for _ in range(t.length or 0)]
    if isinstance(t, A):
        if t.kind == "fixed":
            return (tuple(t.shape), [zero_value(codec, t.item) for _ in range(math.prod(t.shape))])
        if t.kind == "ranked":
            return (tuple([0] * t.rank), [])
        return ((), [zero_value(codec, t.item)])   # rank-0 array holds one element
    if isinstance(t, (M, S)):
        return []
    raise TypeError(t)
