"""Entry point: python -m vlib.main <ID> [--tier quick|thorough] [--replay PATH]"""
from __future__ import annotations

import argparse
import importlib
import json
import os
import re
import sys
import time
import traceback

from . import common
from .common import Inconclusive


class Ctx:
    """Per-run verdict / evidence accumulator (thread safe)."""

    def __init__(self, pid: str, tier: str, level: str):
        import threading
        self.pid, self.tier, self.level = pid, tier, level
        self.lock = threading.Lock()
        self.t0 = time.time()
        self.evaluations = 0
        self.distinct: set = set()
        self.hist: dict = {}
        self.samples: list = []
        self.violations: list = []
        self.known_hits: dict = {}
        self.assumptions: list = []
        self.rule = ""
        self.extra: dict = {}
        self.exhaustive = False
        self.workdir = common.workdir(pid)
        self.known = load_known(pid)
        self.max_violation_reports = int(os.environ.get("VERIF_MAX_REPORTS", "25"))

    # ---- coverage
    def ev(self, n: int = 1):
        with self.lock:
            self.evaluations += n

    def case(self, key) -> None:
        """Registers a distinct non-trivial case (by structural hash key)."""
        with self.lock:
            self.distinct.add(key if isinstance(key, (str, int, tuple)) else common.sha(json.dumps(key, sort_keys=True, default=str)))

    def count(self, key: str, n: int = 1):
        with self.lock:
            self.hist[key] = self.hist.get(key, 0) + n

    def sample(self, obj, cap: int = 8):
        with self.lock:
            if len(self.samples) < cap:
                self.samples.append(obj)

    # ---- verdicts
    def violation(self, signature: str, what: str, case: dict) -> None:
        """signature identifies *which* failure this is (call site / input class);
        it is what a known-findings entry is matched against."""
        with self.lock:
            for k in self.known:
                if k.get("status") == "open" and re.fullmatch(k["signature"], signature):
                    self.known_hits.setdefault(k["id"], {"entry": k, "n": 0, "first": what, "signatures": set()})
                    self.known_hits[k["id"]]["n"] += 1
                    if len(self.known_hits[k["id"]]["signatures"]) < 40:
                        self.known_hits[k["id"]]["signatures"].add(signature)
                    return
            n = len(self.violations)
            self.violations.append((signature, what))
            if n >= self.max_violation_reports:
                return
            rp = os.path.join(self.workdir, "replay", "%03d.json" % n)
            os.makedirs(os.path.dirname(rp), exist_ok=True)
            with open(rp, "w") as f:
                json.dump({"property": self.pid, "signature": signature, "what": what, "seed": common.seed(),
                           "tier": self.tier, "case": case}, f, indent=1, default=_default)
            print("VIOLATION property=%s replay=%s" % (self.pid, rp), flush=True)
            print("  signature=%s :: %s" % (signature, what[:600]), flush=True)

    def finish(self) -> int:
        wall = time.time() - self.t0
        for kid, h in sorted(self.known_hits.items()):
            print("KNOWN-FINDING: property=%s %s [%s; %d occurrence(s) this run]" % (
                self.pid, h["entry"]["what"], kid, h["n"]), flush=True)
        cov = {
            "evaluations": self.evaluations,
            "distinct_nontrivial": len(self.distinct),
            "rule": self.rule,
            "samples": self.samples[:10],
            "histogram": dict(sorted(self.hist.items())),
            "known_findings_hit": {k: v["n"] for k, v in self.known_hits.items()},
            "known_findings_signatures": {k: sorted(v["signatures"]) for k, v in self.known_hits.items()},
            "exhaustive": self.exhaustive,
        }
        cov.update(self.extra)
        evd = {"property_id": self.pid, "tier": self.tier, "seed": common.seed(), "level": self.level,
               "coverage": cov, "assumptions": self.assumptions, "wall_s": round(wall, 2),
               "violations": len(self.violations)}
        os.makedirs(common.EVIDENCE, exist_ok=True)
        with open(os.path.join(common.EVIDENCE, self.pid + ".json"), "w") as f:
            json.dump(evd, f, indent=1, default=_default)
            f.write("\n")
        if self.violations:
            print("RESULT property=%s violated (%d violation(s), %d evaluations)" % (self.pid, len(self.violations), self.evaluations))
            return 1
        print("RESULT property=%s held on %d evaluations (%d distinct non-trivial) in %.1fs" % (
            self.pid, self.evaluations, len(self.distinct), wall))
        return 0


def _default(o):
    if isinstance(o, (bytes, bytearray)):
        return {"hex": bytes(o).hex()} if len(o) <= 4096 else {"hex_prefix": bytes(o[:4096]).hex(), "len": len(o)}
    if isinstance(o, set):
        return sorted(o)
    return repr(o)


def load_known(pid: str) -> list:
    path = os.path.join(common.ROOT, "known_findings.jsonl")
    out = []
    try:
        with open(path) as f:
            for line in f:
                line = line.strip()
                if not line.startswith("{"):
                    continue
                e = json.loads(line)
                if e.get("property") == pid:
                    out.append(e)
    except FileNotFoundError:
        pass
    return out


def main(argv=None) -> int:
    ap = argparse.ArgumentParser()
    ap.add_argument("prop")
    ap.add_argument("--tier", default=os.environ.get("VERIF_TIER", "quick"), choices=["quick", "thorough"])
    ap.add_argument("--replay", default=None)
    a = ap.parse_args(argv)
    pid = a.prop.upper()
    try:
        mod = importlib.import_module("props." + pid)
    except ModuleNotFoundError as e:
        print("INCONCLUSIVE property=%s reason=no such check (%s)" % (pid, e))
        return 2
    ctx = Ctx(pid, a.tier, getattr(mod, "LEVEL", "exploration"))
    try:
        if a.replay:
            mod.replay(ctx, a.replay)
        else:
            mod.run(ctx)
        floor = getattr(mod, "FLOOR", {}).get(a.tier)
        if not a.replay and floor is not None and ctx.evaluations < floor:
            raise Inconclusive("coverage floor not reached: %d < %d evaluations" % (ctx.evaluations, floor))
        if not a.replay and len(ctx.distinct) < 2 and not ctx.violations:
            raise Inconclusive("observed nothing (distinct non-trivial cases < 2)")
    except Inconclusive as e:
        ctx.finish()
        if ctx.violations:
            return 1
        print("INCONCLUSIVE property=%s reason=%s" % (pid, str(e)[:2000]))
        return 2
    except Exception:
        traceback.print_exc()
        ctx.finish()
        if ctx.violations:
            return 1
        print("INCONCLUSIVE property=%s reason=harness exception (see traceback)" % pid)
        return 2
    rc = ctx.finish()
    if rc == 0 and not os.environ.get("VERIF_KEEP_WORK"):
        import shutil
        shutil.rmtree(ctx.workdir, ignore_errors=True)
    return rc


if __name__ == "__main__":
    sys.exit(main())
