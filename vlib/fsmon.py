"""Recursive file-system snapshots and diffs (path, type, mode, size, sha256, mtime_ns, inode)."""
from __future__ import annotations

import hashlib
import os
import stat


def snapshot(root: str, exclude=()) -> dict:
    snap = {}
    ex = [os.path.realpath(e) for e in exclude]
    for dirpath, dirnames, filenames in os.walk(root, followlinks=False):
        rp = os.path.realpath(dirpath)
        if any(rp == e or rp.startswith(e + os.sep) for e in ex):
            dirnames[:] = []
            continue
        dirnames.sort()
        for name in list(dirnames) + sorted(filenames):
            p = os.path.join(dirpath, name)
            if any(os.path.realpath(p) == e for e in ex):
                continue
            try:
                st = os.lstat(p)
            except FileNotFoundError:
                continue
            rel = os.path.relpath(p, root)
            if stat.S_ISDIR(st.st_mode):
                snap[rel] = ("dir", stat.S_IMODE(st.st_mode), 0, "", st.st_mtime_ns if False else 0, st.st_ino)
            elif stat.S_ISLNK(st.st_mode):
                snap[rel] = ("link", 0, 0, os.readlink(p), st.st_mtime_ns, st.st_ino)
            else:
                h = hashlib.sha256()
                with open(p, "rb") as f:
                    for chunk in iter(lambda: f.read(1 << 16), b""):
                        h.update(chunk)
                snap[rel] = ("file", stat.S_IMODE(st.st_mode), st.st_size, h.hexdigest(), st.st_mtime_ns, st.st_ino)
    return snap


def diff(a: dict, b: dict, content_only=False) -> list:
    out = []
    for k in sorted(set(a) | set(b)):
        if k not in a:
            out.append(("created", k))
        elif k not in b:
            out.append(("deleted", k))
        elif a[k] != b[k]:
            if a[k][:4] != b[k][:4]:
                out.append(("modified", k))
            elif not content_only:
                if a[k][4] != b[k][4]:
                    out.append(("touched", k))
                elif a[k][5] != b[k][5]:
                    out.append(("replaced", k))
    return out
