"""Reference codec written from docs/reference/binary.md and docs/reference/ndjson.md only.

Value representation (harness side):
  bool -> bool; integers / enums / flags / date / time / datetime -> int
  float32/float64 -> F(bits, width)  (bit exact, NaN payloads preserved)
  complex -> (F, F); string -> str
  optional / union -> None | (case_index_without_null, value)
  vector -> list; array -> (shape tuple, flat list) ; map -> list of (k, v); record -> list (field order)
  stream step -> list of items
"""
from __future__ import annotations

import datetime as _dt
import json
import math
import struct
from dataclasses import dataclass

from .model import *  # noqa

MAGIC = b"yardl"


class CodecError(Exception):
    pass


@dataclass(frozen=True)
class F:
    bits: int
    w: int   # 32 | 64

    @property
    def value(self) -> float:
        if self.w == 32:
            return struct.unpack("<f", struct.pack("<I", self.bits))[0]
        return struct.unpack("<d", struct.pack("<Q", self.bits))[0]

    def __repr__(self):
        return "F%d(%r)" % (self.w, self.value)


def f32(x: float) -> F:
    return F(struct.unpack("<I", struct.pack("<f", x))[0], 32)


def f64(x: float) -> F:
    return F(struct.unpack("<Q", struct.pack("<d", x))[0], 64)


# ----------------------------------------------------------------------------- varints

def put_uvarint(out: bytearray, n: int):
    if n < 0:
        raise CodecError("negative uvarint %d" % n)
    while True:
        b = n & 0x7F
        n >>= 7
        if n:
            out.append(b | 0x80)
        else:
            out.append(b)
            return


def zigzag(n: int) -> int:
    return (n << 1) if n >= 0 else ((-n) << 1) - 1


def unzigzag(u: int) -> int:
    return (u >> 1) if not (u & 1) else -((u + 1) >> 1)


class Reader:
    def __init__(self, data: bytes, pos: int = 0):
        self.d, self.p = data, pos
        self.nonminimal = 0

    def need(self, n):
        if self.p + n > len(self.d):
            raise CodecError("unexpected end of data at %d (+%d > %d)" % (self.p, n, len(self.d)))

    def byte(self) -> int:
        self.need(1)
        b = self.d[self.p]
        self.p += 1
        return b

    def take(self, n) -> bytes:
        self.need(n)
        b = self.d[self.p:self.p + n]
        self.p += n
        return b

    def uvarint(self, maxbits=64) -> int:
        shift, val, n = 0, 0, 0
        while True:
            b = self.byte()
            n += 1
            val |= (b & 0x7F) << shift
            if not (b & 0x80):
                break
            shift += 7
            if n > 10:
                raise CodecError("varint too long at %d" % self.p)
        if n > 1 and b == 0:
            self.nonminimal += 1
        if val >> maxbits:
            raise CodecError("varint %d exceeds %d bits at %d" % (val, maxbits, self.p))
        return val


# ----------------------------------------------------------------------------- codec

EPOCH = _dt.date(1970, 1, 1)


def date_to_str(days: int) -> str:
    return (EPOCH + _dt.timedelta(days=days)).isoformat()


def str_to_date(s: str) -> int:
    return (_dt.date.fromisoformat(s) - EPOCH).days


def time_to_str(ns: int) -> str:
    s, frac = divmod(ns, 10**9)
    h, rem = divmod(s, 3600)
    m, sec = divmod(rem, 60)
    return "%02d:%02d:%02d.%09d" % (h, m, sec, frac)


def _frac_ns(frac: str) -> int:
    frac = (frac + "000000000")[:9]
    return int(frac)


def str_to_time(s: str) -> int:
    hh, mm, rest = s.split(":")
    if "." in rest:
        ss, frac = rest.split(".")
    else:
        ss, frac = rest, ""
    return ((int(hh) * 60 + int(mm)) * 60 + int(ss)) * 10**9 + _frac_ns(frac)


def datetime_to_str(ns: int) -> str:
    days, rem = divmod(ns, 86400 * 10**9)
    return date_to_str(days) + "T" + time_to_str(rem)


def str_to_datetime(s: str) -> int:
    s = s.rstrip("Z")
    d, t = s.split("T")
    return str_to_date(d) * 86400 * 10**9 + str_to_time(t)


JSON_KINDS_PRIM = {"bool": {"boolean"}, "string": {"string"}, "date": {"string"}, "time": {"string"},
                   "datetime": {"string"}, "complexfloat32": {"array"}, "complexfloat64": {"array"}}


class Codec:
    def __init__(self, pkg: Pkg):
        self.pkg = pkg
        self.env = Env(pkg)

    # ---------------------------------------------------------------- helpers
    def fq(self, t):
        return fq(t, self.pkg.ns)

    def res(self, t):
        return resolve(self.env, t)

    def enum_def(self, t: N) -> En:
        d, _ = self.env.lookup(t)
        return d

    # ---------------------------------------------------------------- binary encode
    def enc(self, t, v, out: bytearray):
        t = self.res(t)
        if isinstance(t, P):
            return self.enc_prim(t.name, v, out)
        if isinstance(t, N):
            d, _ = self.env.lookup(t)
            if isinstance(d, En):
                self.enc_prim(d.base_prim, v, out)
                return
            for (fn, ft), fv in zip(record_fields(self.env, t), v, strict=True):
                self.enc(ft, fv, out)
            return
        if isinstance(t, U):
            if v is None:
                if not t.nullable:
                    raise CodecError("null for non-nullable union")
                put_uvarint(out, 0)
                return
            i, inner = v
            put_uvarint(out, i + (1 if t.nullable else 0))
            self.enc(t.cases[i][1], inner, out)
            return
        if isinstance(t, V):
            if t.length is None:
                put_uvarint(out, len(v))
            elif len(v) != t.length:
                raise CodecError("fixed vector length mismatch")
            for x in v:
                self.enc(t.item, x, out)
            return
        if isinstance(t, A):
            shape, flat = v
            if t.kind == "dynamic":
                put_uvarint(out, len(shape))
                for s in shape:
                    put_uvarint(out, s)
            elif t.kind == "ranked":
                if len(shape) != t.rank:
                    raise CodecError("rank mismatch")
                for s in shape:
                    put_uvarint(out, s)
            else:
                if tuple(shape) != tuple(t.shape):
                    raise CodecError("fixed shape mismatch")
            if len(flat) != math.prod(shape):
                raise CodecError("array data/shape mismatch")
            for x in flat:
                self.enc(t.item, x, out)
            return
        if isinstance(t, M):
            put_uvarint(out, len(v))
            for k, x in v:
                self.enc(t.key, k, out)
                self.enc(t.value, x, out)
            return
        raise CodecError("cannot encode type %r" % (t,))

    def enc_prim(self, name, v, out: bytearray):
        if name == "bool":
            out.append(1 if v else 0)
        elif name in INT_RANGE:
            lo, hi = INT_RANGE[name]
            if not (lo <= v <= hi):
                raise CodecError("%d out of range for %s" % (v, name))
            if name in ("int8", "uint8"):
                out.append(v & 0xFF)      # 8-bit integers: one raw byte (two's complement)
            else:
                put_uvarint(out, zigzag(v) if name in SIGNED else v)
        elif name == "float32":
            out += struct.pack("<I", v.bits)
        elif name == "float64":
            out += struct.pack("<Q", v.bits)
        elif name == "complexfloat32":
            out += struct.pack("<II", v[0].bits, v[1].bits)
        elif name == "complexfloat64":
            out += struct.pack("<QQ", v[0].bits, v[1].bits)
        elif name == "string":
            b = v.encode("utf-8")
            put_uvarint(out, len(b))
            out += b
        elif name in ("date", "time", "datetime"):
            put_uvarint(out, zigzag(v))
        else:
            raise CodecError("unknown primitive " + name)

    # ---------------------------------------------------------------- binary decode
    def dec(self, t, r: Reader):
        t = self.res(t)
        if isinstance(t, P):
            return self.dec_prim(t.name, r)
        if isinstance(t, N):
            d, _ = self.env.lookup(t)
            if isinstance(d, En):
                return self.dec_prim(d.base_prim, r)
            return [self.dec(ft, r) for fn, ft in record_fields(self.env, t)]
        if isinstance(t, U):
            idx = r.uvarint()
            n = len(t.cases) + (1 if t.nullable else 0)
            if idx >= n:
                raise CodecError("union index %d out of range (%d cases) at %d" % (idx, n, r.p))
            if t.nullable:
                if idx == 0:
                    return None
                idx -= 1
            return (idx, self.dec(t.cases[idx][1], r))
        if isinstance(t, V):
            n = t.length if t.length is not None else r.uvarint()
            self._sanity(n, r)
            return [self.dec(t.item, r) for _ in range(n)]
        if isinstance(t, A):
            if t.kind == "dynamic":
                rank = r.uvarint()
                self._sanity(rank, r)
                shape = tuple(r.uvarint() for _ in range(rank))
            elif t.kind == "ranked":
                shape = tuple(r.uvarint() for _ in range(t.rank))
            else:
                shape = tuple(t.shape)
            n = math.prod(shape)
            self._sanity(n, r)
            return (shape, [self.dec(t.item, r) for _ in range(n)])
        if isinstance(t, M):
            n = r.uvarint()
            self._sanity(n, r)
            return [(self.dec(t.key, r), self.dec(t.value, r)) for _ in range(n)]
        raise CodecError("cannot decode type %r" % (t,))

    @staticmethod
    def _sanity(n, r: Reader):
        if n > (len(r.d) - r.p) * 8 + 64 and n > 1 << 20:
            raise CodecError("implausible count %d at %d" % (n, r.p))

    def dec_prim(self, name, r: Reader):
        if name == "bool":
            b = r.byte()
            if b > 1:
                raise CodecError("bool byte %d at %d" % (b, r.p))
            return b == 1
        if name == "uint8":
            return r.byte()
        if name == "int8":
            b = r.byte()
            return b - 256 if b >= 128 else b
        if name in INT_RANGE:
            u = r.uvarint()
            v = unzigzag(u) if name in SIGNED else u
            lo, hi = INT_RANGE[name]
            if not (lo <= v <= hi):
                raise CodecError("%d out of range for %s at %d" % (v, name, r.p))
            return v
        if name == "float32":
            return F(struct.unpack("<I", r.take(4))[0], 32)
        if name == "float64":
            return F(struct.unpack("<Q", r.take(8))[0], 64)
        if name == "complexfloat32":
            a, b = struct.unpack("<II", r.take(8))
            return (F(a, 32), F(b, 32))
        if name == "complexfloat64":
            a, b = struct.unpack("<QQ", r.take(16))
            return (F(a, 64), F(b, 64))
        if name == "string":
            n = r.uvarint()
            return r.take(n).decode("utf-8")
        if name in ("date", "time", "datetime"):
            v = unzigzag(r.uvarint())
            if not (-2**63 <= v < 2**63):
                raise CodecError("time value out of range")
            return v
        raise CodecError("unknown primitive " + name)

    # ---------------------------------------------------------------- whole streams
    def encode_stream(self, proto: Proto, schema: str, values: list, partitions: dict | None = None,
                      upto: int | None = None) -> bytes:
        """values: one entry per step (list of items for stream steps).
        partitions: {step index: [block sizes]} (default: one block with all items, if any)."""
        out = bytearray(MAGIC)
        out += struct.pack("<i", 1)
        sb = schema.encode("utf-8")
        put_uvarint(out, len(sb))
        out += sb
        for i, ((sn, stp), v) in enumerate(zip(proto.steps, values)):
            if upto is not None and i >= upto:
                break
            stp = self.fq(stp)
            if isinstance(stp, S):
                sizes = (partitions or {}).get(i)
                if sizes is None:
                    sizes = [len(v)] if v else []
                assert sum(sizes) == len(v) and all(s > 0 for s in sizes), (sizes, len(v))
                k = 0
                for s in sizes:
                    put_uvarint(out, s)
                    for x in v[k:k + s]:
                        self.enc(stp.item, x, out)
                    k += s
                put_uvarint(out, 0)
            else:
                self.enc(stp, v, out)
        return bytes(out)

    def decode_header(self, data: bytes):
        r = Reader(data)
        if r.take(5) != MAGIC:
            raise CodecError("bad magic")
        ver = struct.unpack("<i", r.take(4))[0]
        if ver != 1:
            raise CodecError("bad format version %d" % ver)
        n = r.uvarint()
        schema = r.take(n).decode("utf-8")
        return r, schema

    def decode_stream(self, proto: Proto, data: bytes):
        """-> dict(schema, values, partitions, end, nonminimal)"""
        r, schema = self.decode_header(data)
        values, parts = [], {}
        for i, (sn, stp) in enumerate(proto.steps):
            stp = self.fq(stp)
            if isinstance(stp, S):
                items, sizes = [], []
                while True:
                    n = r.uvarint()
                    if n == 0:
                        break
                    self._sanity(n, r)
                    sizes.append(n)
                    for _ in range(n):
                        items.append(self.dec(stp.item, r))
                values.append(items)
                parts[i] = sizes
            else:
                values.append(self.dec(stp, r))
        return {"schema": schema, "values": values, "partitions": parts, "end": r.p, "nonminimal": r.nonminimal}

    # ---------------------------------------------------------------- NDJSON mapping
    def json_kinds(self, t) -> set:
        """Set of JSON datatypes a value of this type may serialize to (docs/reference/ndjson.md)."""
        t = self.res(t)
        if isinstance(t, TP):
            return {"?"}
        if isinstance(t, P):
            if t.name in JSON_KINDS_PRIM:
                return set(JSON_KINDS_PRIM[t.name])
            return {"number"}
        if isinstance(t, N):
            d, _ = self.env.lookup(t)
            if isinstance(d, En):
                return {"array", "number"} if d.flags else {"string", "number"}
            return {"object"}
        if isinstance(t, V):
            return {"array"}
        if isinstance(t, A):
            return {"array"} if t.kind == "fixed" else {"object"}
        if isinstance(t, M):
            k = self.res(t.key)
            return {"object"} if (isinstance(k, P) and k.name == "string") else {"array"}
        if isinstance(t, U):
            ks = set()
            for _, c in t.cases:
                ks |= self.json_kinds(c)
            if t.nullable:
                ks.add("null")
            return ks
        raise CodecError("json_kinds: %r" % (t,))

    def union_tagged(self, t: U) -> bool:
        """docs: untagged iff every case serializes to a distinct JSON datatype."""
        if len(t.cases) <= 1:
            return False
        seen = set()
        for _, c in t.cases:
            ks = self.json_kinds(c)
            if seen & ks:
                return True
            seen |= ks
        return False

    def case_tag(self, t: U, i: int) -> str:
        tag, c = t.cases[i]
        if tag is not None:
            return tag
        if isinstance(c, P):
            return c.name
        if isinstance(c, N) and not c.args:
            return c.name
        if isinstance(c, TP):
            return c.name
        raise CodecError("no implicit tag for %r" % (c,))

    def to_json(self, t, v):
        t0 = t
        t = self.res(t)
        if isinstance(t, P):
            n = t.name
            if n == "bool":
                return bool(v)
            if n in INT_RANGE:
                return int(v)
            if n in ("float32", "float64"):
                return v.value
            if n in ("complexfloat32", "complexfloat64"):
                return [v[0].value, v[1].value]
            if n == "string":
                return v
            if n == "date":
                return date_to_str(v)
            if n == "time":
                return time_to_str(v)
            if n == "datetime":
                return datetime_to_str(v)
        if isinstance(t, N):
            d, _ = self.env.lookup(t)
            if isinstance(d, En):
                return self.enum_to_json(d, v)
            obj = {}
            for (fn, ft), fv in zip(record_fields(self.env, t), v, strict=True):
                rt = self.res(ft)
                if isinstance(rt, U) and rt.nullable and fv is None:
                    continue
                obj[fn] = self.to_json(ft, fv)
            return obj
        if isinstance(t, U):
            if v is None:
                # docs are silent on null inside a *tagged* union; the implementations write {"null": null} and only read that form
                return {"null": None} if (len(t.cases) > 1 and self.union_tagged(t) and not getattr(self, "bare_null", False)) else None
            i, inner = v
            j = self.to_json(t.cases[i][1], inner)
            if self.union_tagged(t):
                return {self.case_tag(self._orig_union(t0, t), i): j}
            return j
        if isinstance(t, V):
            return [self.to_json(t.item, x) for x in v]
        if isinstance(t, A):
            shape, flat = v
            data = [self.to_json(t.item, x) for x in flat]
            if t.kind == "fixed":
                return data
            return {"shape": list(shape), "data": data}
        if isinstance(t, M):
            k = self.res(t.key)
            if isinstance(k, P) and k.name == "string":
                return {kk: self.to_json(t.value, x) for kk, x in v}
            return [[self.to_json(t.key, kk), self.to_json(t.value, x)] for kk, x in v]
        raise CodecError("to_json: %r" % (t,))

    def _orig_union(self, t0, t):
        return t

    @staticmethod
    def enum_to_json(d: En, v: int):
        if not d.flags:
            for sym, val in d.values:
                if val == v:
                    return sym
            return v
        if v == 0:
            for sym, val in d.values:
                if val == 0:
                    return [sym]
            return []
        rem, out = v, []
        for sym, val in d.values:
            if val != 0 and (v & val) == val and (rem & val) == val:
                out.append(sym)
                rem &= ~val
        if rem != 0:
            return v
        return out

    def from_json(self, t, j, lenient_tags=True):
        """Reference reading of the documented mapping. Accepts the alternative spellings the
        docs allow (enum / flags as integer)."""
        t = self.res(t)
        if isinstance(t, P):
            n = t.name
            if n == "bool":
                if not isinstance(j, bool):
                    raise CodecError("expected boolean, got %r" % (j,))
                return j
            if n in INT_RANGE:
                if isinstance(j, bool) or not isinstance(j, int):
                    if isinstance(j, float) and j == int(j):
                        j = int(j)
                    else:
                        raise CodecError("expected integer, got %r" % (j,))
                lo, hi = INT_RANGE[n]
                if not (lo <= j <= hi):
                    raise CodecError("%r out of range for %s" % (j, n))
                return j
            if n == "float32":
                return f32(self._num(j))
            if n == "float64":
                return f64(self._num(j))
            if n == "complexfloat32":
                return (f32(self._num(j[0])), f32(self._num(j[1])))
            if n == "complexfloat64":
                return (f64(self._num(j[0])), f64(self._num(j[1])))
            if n == "string":
                if not isinstance(j, str):
                    raise CodecError("expected string, got %r" % (j,))
                return j
            if n == "date":
                return str_to_date(j)
            if n == "time":
                return str_to_time(j)
            if n == "datetime":
                return str_to_datetime(j)
        if isinstance(t, N):
            d, _ = self.env.lookup(t)
            if isinstance(d, En):
                return self.enum_from_json(d, j)
            if not isinstance(j, dict):
                raise CodecError("expected object for record %s, got %r" % (t.name, j))
            out = []
            fields = record_fields(self.env, t)
            names = {fn for fn, _ in fields}
            for k in j:
                if k not in names:
                    raise CodecError("unknown field %r in record %s" % (k, t.name))
            for fn, ft in fields:
                rt = self.res(ft)
                if fn not in j:
                    if isinstance(rt, U) and rt.nullable:
                        out.append(None)
                        continue
                    raise CodecError("missing field %s in record %s" % (fn, t.name))
                out.append(self.from_json(ft, j[fn]))
            return out
        if isinstance(t, U):
            if j == {"null": None} and t.nullable and len(t.cases) > 1:
                return None
            if j is None:
                if t.nullable:
                    return None
                raise CodecError("null for non-nullable union")
            if len(t.cases) == 1:
                return (0, self.from_json(t.cases[0][1], j))
            if self.union_tagged(t):
                if not (isinstance(j, dict) and len(j) == 1):
                    raise CodecError("expected tagged union object, got %r" % (j,))
                (tag, inner), = j.items()
                for i in range(len(t.cases)):
                    if self.case_tag(t, i) == tag:
                        return (i, self.from_json(t.cases[i][1], inner))
                raise CodecError("unknown union tag %r" % tag)
            kind = self._kind_of(j)
            for i, (_, c) in enumerate(t.cases):
                if kind in self.json_kinds(c):
                    return (i, self.from_json(c, j))
            raise CodecError("no union case for JSON %s" % kind)
        if isinstance(t, V):
            if not isinstance(j, list):
                raise CodecError("expected array for vector")
            if t.length is not None and len(j) != t.length:
                raise CodecError("fixed vector length mismatch")
            return [self.from_json(t.item, x) for x in j]
        if isinstance(t, A):
            if t.kind == "fixed":
                if not isinstance(j, list):
                    raise CodecError("expected array for fixed array")
                if len(j) != math.prod(t.shape):
                    raise CodecError("fixed array size mismatch")
                return (tuple(t.shape), [self.from_json(t.item, x) for x in j])
            if not isinstance(j, dict) or set(j) != {"shape", "data"}:
                raise CodecError("expected {shape, data}")
            shape = tuple(j["shape"])
            if t.kind == "ranked" and len(shape) != t.rank:
                raise CodecError("rank mismatch")
            if math.prod(shape) != len(j["data"]):
                raise CodecError("shape/data mismatch")
            return (shape, [self.from_json(t.item, x) for x in j["data"]])
        if isinstance(t, M):
            k = self.res(t.key)
            if isinstance(k, P) and k.name == "string":
                if not isinstance(j, dict):
                    raise CodecError("expected object for string-keyed map")
                return [(kk, self.from_json(t.value, x)) for kk, x in j.items()]
            if not isinstance(j, list):
                raise CodecError("expected array of pairs for map")
            return [(self.from_json(t.key, p[0]), self.from_json(t.value, p[1])) for p in j]
        raise CodecError("from_json: %r" % (t,))

    @staticmethod
    def _num(j):
        if isinstance(j, bool) or not isinstance(j, (int, float)):
            raise CodecError("expected number, got %r" % (j,))
        return float(j)

    @staticmethod
    def _kind_of(j):
        if j is None:
            return "null"
        if isinstance(j, bool):
            return "boolean"
        if isinstance(j, (int, float)):
            return "number"
        if isinstance(j, str):
            return "string"
        if isinstance(j, list):
            return "array"
        return "object"

    @staticmethod
    def enum_from_json(d: En, j):
        if isinstance(j, bool):
            raise CodecError("bool for enum")
        if isinstance(j, int):
            return j
        if d.flags:
            if not isinstance(j, list):
                raise CodecError("expected array or integer for flags")
            v = 0
            m = dict(d.values)
            for s in j:
                if s not in m:
                    raise CodecError("unknown flag symbol %r" % s)
                v |= m[s]
            return v
        if not isinstance(j, str):
            raise CodecError("expected string or integer for enum")
        for sym, val in d.values:
            if sym == j:
                return val
        raise CodecError("unknown enum symbol %r" % j)

    def json_match(self, t, got, ref, path="$"):
        """Type-directed comparison of a produced JSON value with the reference mapping.
        Returns None if equal (numbers numerically, object key order free, non-string-keyed map
        entries as a multiset), else a description of the first difference."""
        t = self.res(t)
        if isinstance(t, M):
            k = self.res(t.key)
            if not (isinstance(k, P) and k.name == "string"):
                if not (isinstance(got, list) and isinstance(ref, list)):
                    return "%s: expected array of pairs, got %s" % (path, self._kind_of(got))
                if len(got) != len(ref):
                    return "%s: %d vs %d map entries" % (path, len(got), len(ref))
                keyf = lambda p: json.dumps(p[0], sort_keys=True) if isinstance(p, list) and len(p) == 2 else "~"
                for i, (a, b) in enumerate(zip(sorted(got, key=keyf), sorted(ref, key=keyf))):
                    if not (isinstance(a, list) and len(a) == 2):
                        return "%s[%d]: not a [key, value] pair" % (path, i)
                    d = self.json_match(t.key, a[0], b[0], path + "[%d].key" % i) or self.json_match(t.value, a[1], b[1], path + "[%d].value" % i)
                    if d:
                        return d
                return None
            if not isinstance(got, dict) or not isinstance(ref, dict):
                return "%s: expected object, got %s" % (path, self._kind_of(got))
            if set(got) != set(ref):
                return "%s: keys %r vs %r" % (path, sorted(got)[:6], sorted(ref)[:6])
            for kk in ref:
                d = self.json_match(t.value, got[kk], ref[kk], path + "." + kk)
                if d:
                    return d
            return None
        if isinstance(t, N):
            d0, _ = self.env.lookup(t)
            if isinstance(d0, En) and d0.flags:
                # several symbol lists can denote one value (overlapping symbols): the written form must be a list of declared symbols or an
                # integer that denotes the value written
                try:
                    gv, rv = self.enum_from_json(d0, got), self.enum_from_json(d0, ref)
                except CodecError as e:
                    return "%s: not a flags value: %s" % (path, e)
                return None if gv == rv else "%s: flags value %r denotes %d, written was %d" % (path, got, gv, rv)
            if isinstance(d0, Rec):
                if not isinstance(got, dict) or not isinstance(ref, dict):
                    return "%s: expected object, got %s" % (path, self._kind_of(got))
                if set(got) != set(ref):
                    return "%s: fields %r vs %r" % (path, sorted(got), sorted(ref))
                for fn, ft in record_fields(self.env, t):
                    if fn in ref:
                        d = self.json_match(ft, got[fn], ref[fn], path + "." + fn)
                        if d:
                            return d
                return None
        if isinstance(t, U) and t.nullable and got in (None, {"null": None}) and ref in (None, {"null": None}):
            return None      # both spellings of a null union value are accepted (don't-care)
        if isinstance(t, U) and ref is not None and got is not None:
            if len(t.cases) > 1 and self.union_tagged(t):
                if not (isinstance(got, dict) and len(got) == 1 and isinstance(ref, dict) and set(got) == set(ref)):
                    return "%s: union case %r vs %r" % (path, got if not isinstance(got, dict) else list(got), list(ref))
                (tag, inner), = ref.items()
                idx = [i for i in range(len(t.cases)) if self.case_tag(t, i) == tag][0]
                return self.json_match(t.cases[idx][1], got[tag], inner, path + "{" + tag + "}")
            # untagged: find the case by the reference kind
            kind = self._kind_of(ref)
            for _, c in t.cases:
                if kind in self.json_kinds(c):
                    return self.json_match(c, got, ref, path)
        if isinstance(t, V) and isinstance(got, list) and isinstance(ref, list):
            if len(got) != len(ref):
                return "%s: length %d vs %d" % (path, len(got), len(ref))
            for i, (a, b) in enumerate(zip(got, ref)):
                d = self.json_match(t.item, a, b, "%s[%d]" % (path, i))
                if d:
                    return d
            return None
        if isinstance(t, A):
            if t.kind == "fixed":
                if isinstance(got, list) and isinstance(ref, list) and len(got) == len(ref):
                    for i, (a, b) in enumerate(zip(got, ref)):
                        d = self.json_match(t.item, a, b, "%s[%d]" % (path, i))
                        if d:
                            return d
                    return None
            elif isinstance(got, dict) and isinstance(ref, dict) and set(got) == {"shape", "data"} and got["shape"] == ref["shape"] \
                    and isinstance(got["data"], list) and len(got["data"]) == len(ref["data"]):
                for i, (a, b) in enumerate(zip(got["data"], ref["data"])):
                    d = self.json_match(t.item, a, b, "%s.data[%d]" % (path, i))
                    if d:
                        return d
                return None
        if isinstance(t, P) and t.name == "datetime" and isinstance(got, str) and isinstance(ref, str):
            try:
                return None if str_to_datetime(got) == str_to_datetime(ref) else "%s: %r vs %r" % (path, got, ref)
            except ValueError:
                return "%s: unparsable datetime %r" % (path, got)
        if isinstance(t, P) and t.name == "time" and isinstance(got, str) and isinstance(ref, str):
            try:
                return None if str_to_time(got) == str_to_time(ref) else "%s: %r vs %r" % (path, got, ref)
            except ValueError:
                return "%s: unparsable time %r" % (path, got)
        if isinstance(got, bool) != isinstance(ref, bool) or got != ref:
            return "%s: %r vs %r" % (path, got if not isinstance(got, (list, dict)) else str(got)[:80], ref if not isinstance(ref, (list, dict)) else str(ref)[:80])
        return None

    # NDJSON documents
    def ndjson_lines(self, proto: Proto, schema: str, values: list) -> list:
        lines = [json.dumps({"yardl": {"version": 1, "schema": json.loads(schema)}}, separators=(",", ":"))]
        for (sn, stp), v in zip(proto.steps, values):
            stp = self.fq(stp)
            if isinstance(stp, S):
                for x in v:
                    lines.append(json.dumps({sn: self.to_json(stp.item, x)}, separators=(",", ":")))
            else:
                lines.append(json.dumps({sn: self.to_json(stp, v)}, separators=(",", ":")))
        return lines

    def parse_ndjson(self, proto: Proto, text: str):
        """-> dict(schema(json), values). Strict about step order."""
        lines = [l for l in text.split("\n") if l.strip()]
        if not lines:
            raise CodecError("empty NDJSON document")
        head = json.loads(lines[0])
        if not isinstance(head, dict) or "yardl" not in head:
            raise CodecError("missing yardl header line")
        if head["yardl"].get("version") != 1:
            raise CodecError("bad NDJSON version")
        docs = [json.loads(l) for l in lines[1:]]
        k = 0
        values = []
        for sn, stp in proto.steps:
            stp = self.fq(stp)
            if isinstance(stp, S):
                items = []
                while k < len(docs) and isinstance(docs[k], dict) and list(docs[k].keys()) == [sn]:
                    items.append(self.from_json(stp.item, docs[k][sn]))
                    k += 1
                values.append(items)
            else:
                if k >= len(docs) or list(docs[k].keys()) != [sn]:
                    raise CodecError("expected step %s at NDJSON line %d" % (sn, k + 2))
                values.append(self.from_json(stp, docs[k][sn]))
                k += 1
        if k != len(docs):
            raise CodecError("trailing NDJSON lines from %d" % (k + 2))
        return {"schema": head["yardl"].get("schema"), "values": values}


# ----------------------------------------------------------------------------- value comparison

def canon(codec: Codec, t, v):
    """Canonical form for comparison: map entries sorted by encoded key bytes."""
    t = codec.res(t)
    if isinstance(t, P):
        return v
    if isinstance(t, N):
        d, _ = codec.env.lookup(t)
        if isinstance(d, En):
            return v
        return [canon(codec, ft, fv) for (fn, ft), fv in zip(record_fields(codec.env, t), v)]
    if isinstance(t, U):
        if v is None:
            return None
        return (v[0], canon(codec, t.cases[v[0]][1], v[1]))
    if isinstance(t, V):
        return [canon(codec, t.item, x) for x in v]
    if isinstance(t, A):
        return (tuple(v[0]), [canon(codec, t.item, x) for x in v[1]])
    if isinstance(t, M):
        ents = []
        for k, x in v:
            kb = bytearray()
            codec.enc(t.key, k, kb)
            ents.append((bytes(kb), k, canon(codec, t.value, x)))
        ents.sort(key=lambda e: e[0])
        return [(k, x) for _, k, x in ents]
    if isinstance(t, S):
        return [canon(codec, t.item, x) for x in v]
    raise CodecError("canon %r" % (t,))


def canon_steps(codec: Codec, proto: Proto, values: list):
    return [canon(codec, codec.fq(stp), v) for (sn, stp), v in zip(proto.steps, values)]


def first_diff(a, b, path="$"):
    """Human-readable location of the first difference between two canonical values."""
    if type(a) != type(b):
        return "%s: %r vs %r" % (path, a, b)
    if isinstance(a, (list, tuple)):
        if len(a) != len(b):
            return "%s: length %d vs %d" % (path, len(a), len(b))
        for i, (x, y) in enumerate(zip(a, b)):
            d = first_diff(x, y, "%s[%d]" % (path, i))
            if d:
                return d
        return None
    if a != b:
        return "%s: %r vs %r" % (path, a, b)
    return None
