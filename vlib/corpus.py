"""Deterministic corpora of packages shared by several properties."""
from __future__ import annotations

import os

from . import common, emit, modelgen, mut
from .model import *  # noqa
from .refcodec import F


def ser_keys(n: int, salt: str = "") -> list:
    return ["s%d%sk%d" % (common.seed(), salt, i) for i in range(n)]


def ser_package(key: str, depth: int = 3) -> Pkg:
    opts = modelgen.GenOpts(max_depth=depth)
    return modelgen.gen_corpus_package(key, opts)


def style_for(key: str) -> emit.Style:
    r = common.rng("style", key)
    return emit.Style(expanded=r.choice([0.0, 0.3, 1.0]), alias_spelling=r.choice([0.0, 0.5]),
                      optional_as_list=r.choice([0.0, 0.3]), quote=r.choice([0.0, 0.2]),
                      flow=r.choice([0.0, 0.5]), enum_as_map=r.choice([0.0, 0.5]), seed=r.randrange(1 << 30))


def prepare(workdir: str, key: str, pkg: Pkg, **kw) -> mut.Mut:
    m = mut.Mut(pkg, os.path.join(workdir, "m_" + key), style=kw.pop("style", None) or style_for(key), **kw)
    m.generate()
    return m


# ----------------------------------------------------------------------------- sweep model

def sweep_types():
    """(name, definitions, type, value) : values chosen to have long encodings so that a
    straddle of a buffer boundary is possible at many byte positions."""
    f32v = F(0x42BF70A4, 32)
    f64v = F(0x4005BF0A8B145769, 64)
    En1 = En("SwEnum", [("a", 0), ("b", 2**62)], "int64")
    Fl1 = En("SwFlags", [("x", 1), ("y", 2**63)], "uint64", True)
    RTriv = Rec("SwTriv", [("a", P("float32")), ("b", P("float32"))])
    RMix = Rec("SwMix", [("a", P("uint64")), ("b", P("string")), ("c", Opt(P("int64"))), ("d", P("float64"))])
    RPadA = Rec("SwPadA", [("flag", P("uint8")), ("value", P("float64"))])                 # interior padding, no tail padding
    RPadB = Rec("SwPadB", [("a", P("float32")), ("b", P("float64")), ("c", P("bool"))])      # interior and tail padding
    RPadC = Rec("SwPadC", [("z", P("complexfloat64")), ("k", P("int8")), ("f", P("float32"))])
    RPadG = Rec("SwPadG", [("first", TP("T1")), ("second", TP("T2"))], ("T1", "T2"))       # padding only after instantiation
    out = []
    for p, v in [("bool", True), ("int8", -128), ("uint8", 255), ("int16", -32768), ("uint16", 65535),
                 ("int32", -2**31), ("uint32", 2**32 - 1), ("int64", -2**63), ("uint64", 2**64 - 1),
                 ("size", 2**64 - 1), ("float32", f32v), ("float64", f64v),
                 ("complexfloat32", (f32v, f32v)), ("complexfloat64", (f64v, f64v)),
                 ("string", "straddle-ü-日本-😀-0123456789"), ("date", 2932896), ("time", 86399999999999),
                 ("datetime", 2**63 - 1)]:
        out.append((p, [], P(p), v))
    out += [
        ("optInt64", [], Opt(P("int64")), (0, -2**63)),
        ("unionIntStr", [], U(((None, P("uint64")), (None, P("string")))), (1, "union-payload-ü")),
        ("unionNull", [], U(((None, P("uint64")), (None, P("string"))), True), None),
        ("vecUint64", [], V(P("uint64")), [2**64 - 1, 0, 2**35]),
        ("vecFloat64", [], V(P("float64")), [f64v, f64v, f64v]),
        ("fvecInt32", [], V(P("int32"), 3), [-2**31, 2**31 - 1, -1]),
        ("fvecFloat32", [], V(P("float32"), 3), [f32v, f32v, f32v]),
        ("fixedArr", [], A(P("int64"), ((None, 2), (None, 2))), ((2, 2), [-2**63, 2**63 - 1, 0, -1])),
        ("rankedArr", [], A(P("uint32"), 2), ((2, 2), [2**32 - 1, 1, 2, 3])),
        ("rankedArrF", [], A(P("float32"), 2), ((2, 2), [f32v, f32v, f32v, f32v])),
        ("dynArr", [], A(P("uint64"), None), ((1, 3), [2**64 - 1, 2**63, 7])),
        ("mapStrInt", [], M(P("string"), P("int64")), [("key-ü", -2**63), ("k2", 2**63 - 1)]),
        ("mapIntStr", [], M(P("uint64"), P("string")), [(2**64 - 1, "värde"), (3, "")]),
        ("enumBig", [En1], N("SwEnum"), 2**62),
        ("flagsBig", [Fl1], N("SwFlags"), 2**63 | 1),
        ("recTriv", [RTriv], N("SwTriv"), [f32v, f32v]),
        ("recMix", [RMix], N("SwMix"), [2**64 - 1, "rec-ü", (0, -2**63), f64v]),
        ("vecRecTriv", [RTriv], V(N("SwTriv")), [[f32v, f32v], [f32v, f32v]]),
        ("vecRecMix", [RMix], V(N("SwMix")), [[1, "a", None, f64v], [2**63, "bb", (0, 5), f64v]]),
        ("vecOptStr", [], V(Opt(P("string"))), [None, (0, "opt-ü"), None]),
        ("recPadA", [RPadA], N("SwPadA"), [200, f64v]),
        ("recPadB", [RPadB], N("SwPadB"), [f32v, f64v, True]),
        ("recPadC", [RPadC], N("SwPadC"), [(f64v, f64v), -7, f32v]),
        ("vecRecPadA", [RPadA], V(N("SwPadA")), [[1, f64v], [255, F(0x7FF8000000000001, 64)], [0, f64v]]),
        ("farrRecPadB", [RPadB], A(N("SwPadB"), ((None, 2),)), ((2,), [[f32v, f64v, False], [f32v, f64v, True]])),
        ("genPad", [RPadG], N("SwPadG", (P("bool"), P("float32"))), [True, f32v]),
        ("vecGenPad", [RPadG], V(N("SwPadG", (P("uint8"), P("float64")))), [[9, f64v], [8, f64v]]),
    ]
    return out


def big_values():
    """(name, type, value): single contiguous values of >= 64 KiB (one WriteBytes / ReadBytes call spans several buffers)"""
    f32v = F(0x42BF70A4, 32)
    f64v = F(0x4005BF0A8B145769, 64)
    return [
        ("bigString", P("string"), "ü" + "s" * 70000),
        ("bigString128k", P("string"), "b" * 131072),
        ("bigVecFloat32", V(P("float32")), [f32v] * 16384),
        ("bigVecFloat32b", V(P("float32")), [f32v] * 20001),
        ("bigVecFloat64", V(P("float64")), [f64v] * 9000),
        ("bigVecUint8", V(P("uint8")), [7, 255] * 40000),
        ("bigArrFloat32", A(P("float32"), 2), ((150, 150), [f32v] * 22500)),
        ("bigDynComplex", A(P("complexfloat64"), None), ((5000,), [(f64v, f64v)] * 5000)),
        ("bigVecInt32", V(P("int32")), [-(2**31), 2**31 - 1, 0, -1] * 9000),
    ]


def big_package():
    protos, cases = [], []
    for name, t, v in big_values():
        cap = name[:1].upper() + name[1:]
        protos.append(Proto("Bg" + cap, [("head", P("uint32")), ("v", t), ("s", S(t)), ("tail", P("string"))]))
        cases.append(("Bg" + cap, t, v))
    return Pkg("Bigvals", protos), cases


def sweep_package() -> tuple:
    """-> (Pkg, [(proto_name, kind, type, value)]) with kind in {"value", "stream"}"""
    defs, seen, cases = [], set(), []
    protos = []
    for name, ds, t, v in sweep_types():
        for d in ds:
            if d.name not in seen:
                seen.add(d.name)
                defs.append(d)
        cap = name[:1].upper() + name[1:]
        protos.append(Proto("SwV" + cap, [("pad", P("string")), ("v", t), ("tail", P("uint32"))]))
        cases.append(("SwV" + cap, "value", t, v))
        if name == "bool":
            continue   # a stream of bool does not compile in C++ (std::vector<bool>): explored by C08
        protos.append(Proto("SwS" + cap, [("pad", P("string")), ("s", S(t)), ("tail", P("uint32"))]))
        cases.append(("SwS" + cap, "stream", t, v))
    return Pkg("Sweep", defs + protos), cases


def enum_base_package() -> Pkg:
    """enums and flags over every integer base type, spelled directly, through a named alias, through a chain of aliases and through an alias of an
    imported package; used as step, stream item, vector item, record field, map value and union case"""
    lib = Pkg("BaseLib", [Al("LibByte", P("uint8")), Al("LibWide", P("uint64")), En("LibLevel", [("lo", 0), ("hi", 200)], "uint8", False, True, None, "LibByte")])
    defs = [Al("Byte", P("uint8")), Al("Word", P("uint16")), Al("Word2", N("Word")), Al("Big", P("uint64")), Al("Small", P("int8")), Al("Long", P("int64")), Al("Plain", P("int32")),
            En("EbDirect8", [("a", 0), ("b", 255)], "uint8"), En("EbAlias8", [("a", 0), ("b", 255), ("c", 77)], "uint8", False, True, None, "Byte"),
            En("EbAlias16", [("load", 300), ("store", 65535), ("nop", 0)], "uint16", False, True, None, "Word"),
            En("EbChain16", [("p", 1), ("q", 40000)], "uint16", False, True, None, "Word2"),
            En("EbAlias64", [("zero", 0), ("top", 2**64 - 1), ("mid", 2**40)], "uint64", False, True, None, "Big"),
            En("EbAliasS8", [("neg", -128), ("pos", 127)], "int8", False, True, None, "Small"),
            En("EbAliasS64", [("neg", -2**63), ("pos", 2**63 - 1)], "int64", False, True, None, "Long"),
            En("EbAlias32", [("x", -5), ("y", 5)], "int32", False, True, None, "Plain"),
            En("EbFlags16", [("r", 1), ("w", 2), ("x", 0x8000)], "uint16", True, True, None, "Word"),
            En("EbFlags64", [("lowbit", 1), ("highbit", 2**63)], "uint64", True, True, None, "Big"),
            En("EbImported", [("i", 9), ("j", 250)], "uint8", False, True, None, "BaseLib.LibByte")]
    names = [d.name for d in defs if isinstance(d, En)]
    defs.append(Rec("EbAll", [(n[2:3].lower() + n[3:], N(n)) for n in names] + [("lib", N("LibLevel", (), "BaseLib"))]))
    protos = [Proto("EbSteps", [(n[2:3].lower() + n[3:], N(n)) for n in names] + [("lib", N("LibLevel", (), "BaseLib"))]),
              Proto("EbContainers", [("all", N("EbAll")), ("alls", S(N("EbAll"))), ("v16", V(N("EbAlias16"))), ("s64", S(N("EbAlias64"))), ("m", M(P("string"), N("EbFlags16"))),
                                     ("u", U(((None, N("EbAlias8")), (None, P("string"))))), ("o", Opt(N("EbChain16"))), ("fv", V(N("EbAliasS8"), 3)), ("arr", A(N("EbAlias8"), None))])]
    return Pkg("EnumBases", defs + protos, [lib])
