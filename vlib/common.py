"""Shared infrastructure: paths, seeds, yardl builds, child-process monitor,
parallel map, violations / evidence plumbing."""
from __future__ import annotations

import concurrent.futures as cf
import fcntl
import hashlib
import json
import os
import random
import resource
import shutil
import signal
import subprocess
import sys
import tempfile
import threading
import time
from dataclasses import dataclass, field

ROOT = os.path.dirname(os.path.dirname(os.path.abspath(__file__)))
REPO = os.environ.get("VERIF_REPO", "/repo")
CACHE = os.path.join(ROOT, ".cache")
WORK = os.environ.get("VERIF_WORK", os.path.join(ROOT, "work"))
EVIDENCE = os.environ.get("VERIF_EVIDENCE", os.path.join(ROOT, "evidence"))
PY = "/opt/veriftools/pyvenv/bin/python"
NCPU = max(2, min(16, os.cpu_count() or 4))

CPU_LIMIT_S = 20          # a yardl run normally costs ~10 ms CPU
RSS_LIMIT_KB = 2 * 1024 * 1024
WALL_WATCHDOG_S = 120     # firing => inconclusive, never a violation


def seed() -> int:
    try:
        return int(os.environ.get("VERIF_SEED", "1"))
    except ValueError:
        return 1


def rng(*salt) -> random.Random:
    h = hashlib.sha256(("%d|" % seed() + "|".join(map(str, salt))).encode()).digest()
    return random.Random(int.from_bytes(h[:8], "big"))


def sha(*parts) -> str:
    h = hashlib.sha256()
    for p in parts:
        if isinstance(p, str):
            p = p.encode()
        h.update(p)
        h.update(b"\0")
    return h.hexdigest()


class Inconclusive(Exception):
    pass


# --------------------------------------------------------------------------- builds

_build_lock = threading.Lock()
_built: dict[str, str] = {}


def _go_env():
    env = dict(os.environ)
    env["GOFLAGS"] = "-mod=mod"
    env["GOPROXY"] = "off"
    env.pop("GOSUMDB", None)
    env["GOTOOLCHAIN"] = "auto"
    return env


def build_yardl(race: bool = False, srcdir: str | None = None, tag: str = "") -> str:
    """Builds the yardl CLI from the current working tree of /repo with the
    `verif` build tag (hooks on). Go's build cache makes this ~1 s when nothing
    changed; a changed tree is always rebuilt."""
    key = ("race" if race else "plain") + tag + ("" if REPO == "/repo" else "-" + sha(REPO)[:8])
    with _build_lock:
        if key in _built:
            return _built[key]
        os.makedirs(os.path.join(CACHE, "bin"), exist_ok=True)
        out = os.path.join(CACHE, "bin", "yardl-" + key)
        src = srcdir or os.path.join(REPO, "tooling")
        lockf = open(os.path.join(CACHE, "bin", ".lock-" + key), "w")
        fcntl.flock(lockf, fcntl.LOCK_EX)
        try:
            tmp = out + ".tmp.%d" % os.getpid()
            args = ["build", "-tags", "verif"] + (["-race"] if race else []) + ["-o", tmp, "./cmd/yardl"]
            attempts = [(["go"], _go_env()),
                        (["go1.26.8"], dict(_go_env(), GOTOOLCHAIN="local"))]
            last = None
            for exe, env in attempts:
                try:
                    p = subprocess.run(exe + args, cwd=src, env=env, capture_output=True, text=True, timeout=900)
                except FileNotFoundError as e:
                    last = str(e)
                    continue
                if p.returncode == 0:
                    os.replace(tmp, out)
                    _built[key] = out
                    return out
                last = p.stderr[-4000:]
            raise Inconclusive("cannot build yardl (%s): %s" % (key, last))
        finally:
            fcntl.flock(lockf, fcntl.LOCK_UN)
            lockf.close()


# --------------------------------------------------------------------------- process monitor

@dataclass
class Proc:
    argv: list
    rc: int | None
    sig: int | None
    out: bytes
    err: bytes
    cpu_s: float
    maxrss_kb: int
    wall_s: float
    timed_out: bool = False     # wall-clock watchdog fired  => inconclusive
    cpu_exceeded: bool = False  # RLIMIT_CPU fired, or blocked (below) => "hang" verdict
    blocked: bool = False       # every thread asleep and no CPU tick consumed by the process or any child for BLOCKED_SAMPLES seconds: the
                                # process waits for something that never comes (deadlock). Load independent: a starved thread is runnable, not asleep

    @property
    def stderr(self) -> str:
        return self.err.decode("utf-8", "replace")

    @property
    def stdout(self) -> str:
        return self.out.decode("utf-8", "replace")

    def panicked(self) -> bool:
        e = self.err
        return (b"panic:" in e or b"fatal error:" in e or b"goroutine 1 [" in e
                or b"[signal SIG" in e or b"runtime error" in e)

    def brief(self) -> dict:
        return {"argv": self.argv, "rc": self.rc, "sig": self.sig, "cpu_s": round(self.cpu_s, 3),
                "maxrss_kb": self.maxrss_kb, "stderr": self.stderr[-2000:], "stdout": self.stdout[-500:]}


BLOCKED_SAMPLES = 20


def _group_state(pid: int):
    """(CPU ticks consumed so far by every thread of every process of the child's session, all of them asleep?) or None if it cannot be read"""
    total, asleep, seen = 0, True, False
    try:
        for d in os.listdir("/proc"):
            if not d.isdigit():
                continue
            try:
                with open("/proc/%s/stat" % d, "rb") as f:
                    parts = f.read().rsplit(b") ", 1)[1].split()
                if int(parts[3]) != pid:          # session id: the child was started with start_new_session
                    continue
                for t in os.listdir("/proc/%s/task" % d):
                    with open("/proc/%s/task/%s/stat" % (d, t), "rb") as f:
                        tp = f.read().rsplit(b") ", 1)[1].split()
                    seen = True
                    total += int(tp[11]) + int(tp[12])
                    if tp[0] not in (b"S", b"I"):
                        asleep = False
            except (OSError, IndexError, ValueError):
                continue
    except OSError:
        return None
    return (total, asleep) if seen else None


def run(argv, cwd=None, env=None, stdin: bytes | None = None, cpu_s: int = CPU_LIMIT_S,
        wall_s: int = WALL_WATCHDOG_S, stdin_path: str | None = None) -> Proc:
    """Runs a child to completion. CPU time and peak RSS are the child's own rusage
    (wait4), hence load independent. "Hang" = RLIMIT_CPU exceeded, never wall time;
    the wall-clock watchdog only yields timed_out (=> inconclusive)."""
    t0 = time.monotonic()
    fin = None
    if stdin is not None:
        fin = tempfile.TemporaryFile()
        fin.write(stdin)
        fin.seek(0)
    elif stdin_path is not None:
        fin = open(stdin_path, "rb")
    outf = tempfile.TemporaryFile()
    errf = tempfile.TemporaryFile()
    try:
        p = subprocess.Popen(list(map(str, argv)), cwd=cwd, env=env,
                             stdin=fin if fin is not None else subprocess.DEVNULL,
                             stdout=outf, stderr=errf, start_new_session=True)
    except OSError as e:
        outf.close(); errf.close()
        if fin: fin.close()
        return Proc(list(map(str, argv)), 127, None, b"", ("exec failed: %r" % (e,)).encode(), 0.0, 0, 0.0)
    try:
        resource.prlimit(p.pid, resource.RLIMIT_CPU, (cpu_s, cpu_s + 2))
    except (ProcessLookupError, PermissionError, OSError):
        pass
    timed_out = False
    blocked = False
    deadline = t0 + wall_s
    delay = 0.0005
    next_sample, still, last_ticks = t0 + 2.0, 0, None
    while True:
        wpid, status, ru = os.wait4(p.pid, os.WNOHANG)
        if wpid == p.pid:
            break
        now = time.monotonic()
        if now >= next_sample:
            next_sample = now + 1.0
            st = _group_state(p.pid)
            if st is not None:
                ticks, asleep = st
                if asleep and ticks == last_ticks:
                    still += 1
                else:
                    still = 0
                last_ticks = ticks
                if still >= BLOCKED_SAMPLES:
                    blocked = True
                    try:
                        os.killpg(p.pid, signal.SIGQUIT)       # a Go process prints its goroutines
                        time.sleep(0.3)
                        os.killpg(p.pid, signal.SIGKILL)
                    except ProcessLookupError:
                        pass
                    _, status, ru = os.wait4(p.pid, 0)
                    break
        if time.monotonic() > deadline:
            timed_out = True
            try:
                os.killpg(p.pid, signal.SIGKILL)
            except ProcessLookupError:
                pass
            _, status, ru = os.wait4(p.pid, 0)
            break
        time.sleep(delay)
        delay = min(delay * 1.5, 0.02)
    p.returncode = 0  # reaped by us; keep Popen.__del__ quiet
    outf.seek(0)
    errf.seek(0)
    out, err = outf.read(), errf.read()
    outf.close()
    errf.close()
    if fin:
        fin.close()
    rc = os.WEXITSTATUS(status) if os.WIFEXITED(status) else None
    sig = os.WTERMSIG(status) if os.WIFSIGNALED(status) else None
    cpu = ru.ru_utime + ru.ru_stime
    cpu_ex = blocked or sig == signal.SIGXCPU or (sig == signal.SIGKILL and not timed_out)
    return Proc(list(map(str, argv)), rc, sig, out, err, cpu, ru.ru_maxrss, time.monotonic() - t0, timed_out, cpu_ex, blocked)


run_ru = run


def yardl_env(home: str, event_log: str | None = None, extra: dict | None = None) -> dict:
    env = {"PATH": os.environ.get("PATH", "/usr/bin:/bin"), "HOME": home, "LANG": "C.UTF-8",
           "NO_COLOR": "1", "TERM": "dumb"}
    if event_log:
        env["VERIF_EVENT_LOG"] = event_log
    if extra:
        env.update(extra)
    return env


# --------------------------------------------------------------------------- parallel map

def pmap(fn, items, workers: int = NCPU):
    items = list(items)
    if not items:
        return []
    with cf.ThreadPoolExecutor(max_workers=workers) as ex:
        return list(ex.map(fn, items))


# --------------------------------------------------------------------------- work dirs

def workdir(prop: str) -> str:
    d = os.path.join(WORK, prop)
    shutil.rmtree(d, ignore_errors=True)
    os.makedirs(d, exist_ok=True)
    return d


def write_file(path: str, data) -> None:
    os.makedirs(os.path.dirname(path), exist_ok=True)
    mode = "wb" if isinstance(data, (bytes, bytearray)) else "w"
    with open(path, mode) as f:
        f.write(data)


def write_tree(base: str, files: dict) -> None:
    for rel, data in files.items():
        write_file(os.path.join(base, rel), data)


def read_events(path: str) -> list:
    evs = []
    try:
        with open(path) as f:
            for line in f:
                line = line.strip()
                if line:
                    try:
                        evs.append(json.loads(line))
                    except ValueError:
                        pass
    except FileNotFoundError:
        pass
    return evs
