"""Generic worker executed in a fresh interpreter per generated Python package.

usage: python pyworker.py <python_output_dir> <package_name>
Reads one JSON command per line on stdin, answers one JSON line on stdout.
Only generated public API is used; classes are discovered by reflection."""
import importlib
import io
import json
import os
import re
import sys
import traceback


def discover(mod):
    protos = {}
    for name in dir(mod):
        m = re.match(r"^(Binary|NDJson)(.+)(Reader|Writer)$", name)
        if m:
            protos.setdefault(m.group(2), {})[(m.group(1), m.group(3))] = getattr(mod, name)
    return protos


class ShortReadRaw(io.RawIOBase):
    """raw stream that returns at most `chunk` bytes per read (short reads)"""

    def __init__(self, data, chunk):
        self._d, self._p, self._c = data, 0, chunk

    def readable(self):
        return True

    def readinto(self, b):
        n = min(len(b), self._c, len(self._d) - self._p)
        b[:n] = self._d[self._p:self._p + n]
        self._p += n
        return n


def open_in(fmt, path, how):
    if fmt == "bin":
        if how == "bytesio":
            with open(path, "rb") as f:
                return io.BytesIO(f.read())
        if how and how.startswith("short"):
            with open(path, "rb") as f:
                return io.BufferedReader(ShortReadRaw(f.read(), int(how[5:] or 7)), buffer_size=16)
        if how == "path":
            return path
        return open(path, "rb")
    if how == "path":
        return path
    return open(path, "r", encoding="utf-8", newline="")


def open_out(fmt, path, how):
    if how == "path":
        return path
    if fmt == "bin":
        return open(path, "wb")
    return open(path, "w", encoding="utf-8", newline="")


def do_copy(protos, cmd):
    p = protos[cmd["proto"]]
    rcls = p[("Binary" if cmd["in"] == "bin" else "NDJson", "Reader")]
    wcls = p[("Binary" if cmd["out"] == "bin" else "NDJson", "Writer")]
    fin = open_in(cmd["in"], cmd["in_path"], cmd.get("in_how"))
    fout = open_out(cmd["out"], cmd["out_path"], cmd.get("out_how"))
    try:
        mode = cmd.get("mode", "copy_to")
        with wcls(fout) as w:
            with rcls(fin) as r:
                if mode == "copy_to":
                    r.copy_to(w)
                else:
                    stepwise(r, w, mode)
    finally:
        for f in (fin, fout):
            if hasattr(f, "close"):
                try:
                    f.close()
                except Exception:
                    pass
    return {"ok": True}


def step_names(reader):
    names = []
    st = 0
    while True:
        n = reader._state_to_method_name(st)
        if n == "<unknown>":
            break
        names.append(n[len("read_"):])
        st += 2
    return names


def stepwise(r, w, mode):
    """Alternative ways of moving the data: materialise streams as lists, feed generators,
    write item by item (several write_ calls per stream step)."""
    import collections.abc
    import types
    for s in step_names(r):
        v = getattr(r, "read_" + s)()
        wr = getattr(w, "write_" + s)
        if mode in ("fortran", "views"):
            _LAYOUT[0] = mode
            # every multi-dimensional array handed to the writer is Fortran-ordered (a layout numpy users produce with .T / order="F")
            v = [relayout(x) for x in v] if isinstance(v, types.GeneratorType) else relayout(v)
            wr(v)
            continue
        if mode in ("altrepr", "altrepr-std"):
            _ALT_STD[0] = mode == "altrepr-std"
            # every date / time / datetime handed to the writer in one of the other representations the generated writers accept
            # (datetime.datetime, datetime.time, numpy.datetime64 / timedelta64 in ns and in coarser units)
            v = [altrepr(x) for x in v] if isinstance(v, types.GeneratorType) else altrepr(v)
            wr(v)
            continue
        if isinstance(v, types.GeneratorType):
            if mode == "list":
                wr(list(v))
            elif mode == "gen":
                wr((x for x in v))
            elif mode == "reuse":
                # a producer that refills one object per item (a numpy buffer, a record instance, a list, a dict) and yields it again
                wr(reusing(list(v)))
            elif mode == "itemwise":
                n = 0
                for x in v:
                    wr([x])
                    n += 1
                if n == 0:
                    wr([])
            elif mode in ("nparray", "nparray-split"):
                # the batch handed to a stream step is a one-dimensional numpy array - what a numpy user has at hand - whose dtype is the widest of its
                # kind (float64, int64 / uint64, complex128), i.e. usually not the dtype of the element on the wire; the values are the same numbers
                items = list(v)
                if mode == "nparray" or len(items) < 2:
                    wr(widened(items))
                else:
                    h = len(items) // 2
                    wr(widened(items[:h]))
                    wr(items[h:])
            elif mode == "pairs":
                buf = []
                n = 0
                for x in v:
                    buf.append(x)
                    if len(buf) == 2:
                        wr(iter(buf))
                        buf = []
                        n += 1
                if buf or n == 0:
                    wr(buf)
            else:
                raise ValueError("unknown mode " + mode)
        else:
            wr(v)


def widened(items):
    import numpy as np
    if not items:
        return items
    if all(isinstance(x, (bool, np.bool_)) for x in items):
        return np.array(items, dtype=np.bool_)
    # (integers stay a list: the integer serializers refuse numpy integers of another width with a ValueError - a reported error, their business)
    if all(isinstance(x, (float, np.floating)) for x in items):
        return np.array([float(x) for x in items], dtype=np.float64)
    if all(isinstance(x, (complex, np.complexfloating)) for x in items):
        return np.array([complex(x) for x in items], dtype=np.complex128)
    return items


def reusing(items):
    import copy
    import numpy as np
    holder = None
    for it in items:
        same = holder is not None and type(holder) is type(it)
        if same and isinstance(it, np.ndarray) and it.shape == holder.shape and it.dtype == holder.dtype and it.dtype != object:
            holder[...] = it
        elif same and isinstance(it, list):
            holder[:] = it
        elif same and isinstance(it, dict):
            holder.clear()
            holder.update(it)
        elif same and hasattr(it, "__dict__") and not isinstance(it, type) and type(it).__module__ not in ("builtins", "datetime", "enum") and not hasattr(it, "_value_") \
                and not type(it).__name__.endswith("UnionCase") and "yardl_types" not in type(it).__module__:
            holder.__dict__.clear()
            holder.__dict__.update(it.__dict__)
        else:
            holder = copy.copy(it) if isinstance(it, (list, dict, np.ndarray)) or hasattr(it, "__dict__") else it
        yield holder


def run_sm(mod, proto, role, seq, k, real=None):
    """Drives the generated abstract base class with stub implementations, or (real = "binary" | "ndjson") the generated reader / writer of that
    format over an in-memory stream. Returns per-action outcomes."""
    base = getattr(mod, proto + ("WriterBase" if role == "w" else "ReaderBase"))
    names = []
    probe_state = 0
    tmp = type("Probe", (base,), {n: (lambda self, *a: None) for n in base.__abstractmethods__})()
    while True:
        n = tmp._state_to_method_name(probe_state)
        if n == "<unknown>":
            break
        names.append(n.split("_", 1)[1])
        probe_state += 2
    impls = {}
    if role == "w":
        for n in base.__abstractmethods__:
            if n.startswith("_write_"):
                def impl(self, value):
                    if isinstance(value, str) and value == "RAISE":
                        raise RuntimeError("stub implementation raises")
                    if hasattr(value, "__iter__") and not isinstance(value, (str, bytes)):
                        for x in value:
                            if isinstance(x, str) and x == "RAISE":
                                raise RuntimeError("stub implementation raises")
                impls[n] = impl
            else:
                impls[n] = (lambda self, *a: None)
    else:
        for n in base.__abstractmethods__:
            if n.startswith("_read_"):
                idx = names.index(n[len("_read_"):])
                cnt = k[idx] if idx < len(k) else None
                if cnt is None:
                    impls[n] = (lambda self: 7)
                else:
                    impls[n] = (lambda self, c=cnt: iter(range(c)))
            else:
                impls[n] = (lambda self, *a: None)
    if real is None:
        obj = type("Stub", (base,), impls)()
    else:
        import io
        prefix = "Binary" if real == "binary" else "NDJson"
        mk = (lambda: io.BytesIO()) if real == "binary" else (lambda: io.StringIO())
        wcls, rcls = getattr(mod, prefix + proto + "Writer"), getattr(mod, prefix + proto + "Reader")
        if role == "w":
            obj = wcls(mk())
        else:
            # a complete stream with k[i] items in stream step i (what the stub implementation delivers), written by the generated writer
            buf = mk()
            w = wcls(buf)
            for i, nm in enumerate(names):
                cnt = k[i] if i < len(k) else None
                getattr(w, "write_" + nm)(7 if cnt is None else list(range(cnt)))
            w.close()
            obj = rcls(io.BytesIO(buf.getvalue()) if real == "binary" else io.StringIO(buf.getvalue()))
    out = []
    for tok in seq:
        try:
            op = tok[0]
            if op == "c":
                obj.close()
                out.append("ok")
                continue
            if op == "X":
                # leaving a `with` block without an exception in flight
                obj.__enter__()
                obj.__exit__(None, None, None)
                out.append("ok")
                continue
            body = tok[1:]
            idx, _, arg = body.partition(":")
            step = names[int(idx)]
            if role == "w":
                fn = getattr(obj, "write_" + step)
                if op == "w":
                    fn(1)
                elif op == "l":
                    fn([1] * int(arg))
                elif op == "g":
                    fn((x for x in range(int(arg))))
                elif op == "x":
                    # an in-order call whose implementation raises (scalar for a value step, a one-item list for a stream step)
                    fn(["RAISE"] if arg == "s" else "RAISE")
                out.append("ok")
            else:
                fn = getattr(obj, "read_" + step)
                v = fn()
                if op == "r":
                    if hasattr(v, "__next__"):
                        n = sum(1 for _ in v)
                        out.append("ok:%d" % n)
                    else:
                        out.append("ok")
                elif op == "p":
                    n = 0
                    for _ in v:
                        n += 1
                        if n >= int(arg):
                            break
                    out.append("ok:%d" % n)
                elif op == "q":
                    # like "p", but the half-consumed iterator is then closed and dropped before the next call
                    n = 0
                    for _ in v:
                        n += 1
                        if n >= int(arg):
                            break
                    if hasattr(v, "close"):
                        v.close()
                    v = None
                    import gc
                    gc.collect()
                    out.append("ok:%d" % n)
                elif op == "n":
                    out.append("ok")
        except BaseException as e:
            out.append("throw:" + type(e).__name__)
    return out


_ALT = [0]
_ALT_STD = [False]     # only the standard-library representations (datetime.datetime / datetime.time), values that need more precision stay as they are


def altrepr(x, depth=0):
    """returns x with every yardl DateTime / Time / datetime.date replaced by another representation of the same instant that the writers accept"""
    import datetime
    import numpy as np
    if depth > 10:
        return x
    tn = type(x).__name__
    if tn == "DateTime" and hasattr(x, "numpy_value"):
        ns = int(x.numpy_value.astype("int64"))
        _ALT[0] += 1
        if _ALT_STD[0]:
            return (datetime.datetime(1970, 1, 1, tzinfo=datetime.timezone.utc if _ALT[0] % 2 else None) + datetime.timedelta(microseconds=ns // 1000)) if ns % 1000 == 0 else x
        if ns % 1000 == 0 and _ALT[0] % 3 != 0:
            us = ns // 1000
            if _ALT[0] % 3 == 1:
                return datetime.datetime(1970, 1, 1, tzinfo=datetime.timezone.utc) + datetime.timedelta(microseconds=us)
            return np.datetime64(us, "us")
        return np.datetime64(ns, "ns")
    if tn == "Time" and hasattr(x, "numpy_value"):
        ns = int(x.numpy_value.astype("int64"))
        _ALT[0] += 1
        if _ALT_STD[0] and ns % 1000:
            return x
        if ns % 1000 == 0 and (_ALT[0] % 2 == 1 or _ALT_STD[0]):
            us = ns // 1000
            return datetime.time(us // 3600000000, us // 60000000 % 60, us // 1000000 % 60, us % 1000000)
        if ns % 1000 == 0 and _ALT[0] % 4 == 0:
            return np.timedelta64(ns // 1000, "us")
        if ns % 1000000000 == 0 and _ALT[0] % 4 == 2:
            return np.timedelta64(ns // 1000000000, "s")
        return np.timedelta64(ns, "ns")
    if isinstance(x, datetime.date) and not isinstance(x, datetime.datetime):
        _ALT[0] += 1
        if _ALT[0] % 2 and not _ALT_STD[0]:
            return np.datetime64(x.toordinal() - datetime.date(1970, 1, 1).toordinal(), "D")
        return x
    if isinstance(x, np.ndarray):
        if x.dtype == object:
            out = np.empty(x.shape, dtype=object)
            for idx in np.ndindex(x.shape):
                out[idx] = altrepr(x[idx], depth + 1)
            return out
        return x
    if isinstance(x, list):
        return [altrepr(y, depth + 1) for y in x]
    if isinstance(x, tuple):
        return tuple(altrepr(y, depth + 1) for y in x)
    if isinstance(x, dict):
        return {altrepr(k, depth + 1): altrepr(y, depth + 1) for k, y in x.items()}
    if hasattr(x, "__dict__") and not isinstance(x, type) and type(x).__module__.split(".")[-1] in ("types",):
        for k, y in list(vars(x).items()):
            try:
                setattr(x, k, altrepr(y, depth + 1))
            except Exception:
                pass
        return x
    if hasattr(x, "value") and hasattr(type(x), "index") and hasattr(type(x), "tag"):
        try:
            return type(x)(altrepr(x.value, depth + 1))
        except Exception:
            return x
    return x


_LAYOUT = ["fortran"]


def _other_layout(a):
    """the same array (values, shape, dtype) in another memory layout: Fortran order, or ("views") a non-contiguous view - every second element of a
    buffer twice as long along the first axis, reversed along the last one"""
    import numpy as np
    if _LAYOUT[0] == "fortran":
        return np.asfortranarray(a) if a.ndim >= 2 else a
    if a.ndim == 0 or a.size == 0:
        return a
    big = np.empty((2 * a.shape[0],) + a.shape[1:], dtype=a.dtype)
    big[::2] = a[..., ::-1]
    big[1::2] = a[..., ::-1]
    return big[::2][..., ::-1]      # (contiguous all the same when every axis but one has length 1)


def relayout(x, depth=0):
    """returns x with every ndarray replaced by the same array in another memory layout (same values, same shape)"""
    import numpy as np
    if depth > 8:
        return x
    if isinstance(x, np.ndarray):
        if x.dtype == object:
            out = np.empty(x.shape, dtype=object)
            for idx in np.ndindex(x.shape):
                out[idx] = relayout(x[idx], depth + 1)
            return _other_layout(out)
        return _other_layout(x)
    if isinstance(x, list):
        return [relayout(y, depth + 1) for y in x]
    if isinstance(x, tuple):
        return tuple(relayout(y, depth + 1) for y in x)
    if isinstance(x, dict):
        return {k: relayout(y, depth + 1) for k, y in x.items()}
    if hasattr(x, "__dict__") and not isinstance(x, type) and type(x).__module__.split(".")[-1] in ("types",):
        for k, y in list(vars(x).items()):
            try:
                setattr(x, k, relayout(y, depth + 1))
            except Exception:
                pass
        return x
    if hasattr(x, "value") and type(x).__name__.endswith("UnionCase") is False and hasattr(type(x), "index") and hasattr(type(x), "tag"):
        try:
            return type(x)(relayout(x.value, depth + 1))
        except Exception:
            return x
    return x


def main():
    outdir, pkg = sys.argv[1], sys.argv[2]
    sys.path.insert(0, outdir)
    try:
        mod = importlib.import_module(pkg)
        protos = discover(mod)
    except BaseException as e:
        print(json.dumps({"ready": False, "error": "%s: %s" % (type(e).__name__, e), "tb": traceback.format_exc()[-3000:]}), flush=True)
        return 1
    print(json.dumps({"ready": True, "protocols": sorted(protos)}), flush=True)
    for line in sys.stdin:
        line = line.strip()
        if not line:
            continue
        cmd = json.loads(line)
        try:
            if cmd["op"] == "copy":
                res = do_copy(protos, cmd)
            elif cmd["op"] == "construct":
                made = []
                for pname, d in protos.items():
                    for (fmt, role), cls in d.items():
                        if role == "Writer":
                            w = cls(io.BytesIO() if fmt == "Binary" else io.StringIO())
                            made.append(cls.__name__)
                for sub in ("binary", "ndjson"):
                    if sub == "ndjson" and not os.path.exists(os.path.join(outdir, pkg, "ndjson.py")):
                        continue          # python.generateNDJson: false
                    sm = importlib.import_module(pkg + "." + sub)
                    for name in dir(sm):
                        obj = getattr(sm, name)
                        if isinstance(obj, type) and obj.__module__ == sm.__name__ and (name.endswith("Serializer") or name.endswith("Converter")):
                            try:
                                obj()
                                made.append(name)
                            except TypeError:
                                pass   # generic serializers need element serializers
                tm = importlib.import_module(pkg + ".types")
                names = [n for n in dir(tm) if not n.startswith("_")]
                res = {"ok": True, "made": made, "type_names": names}
            elif cmd["op"] == "computed":
                import math
                p = protos[cmd["proto"]]
                rcls = p[("Binary", "Reader")]
                out = []
                names = None

                def conv(x):
                    if isinstance(x, complex):
                        return [x.real, x.imag]
                    if isinstance(x, bool):
                        return bool(x)
                    try:
                        import numpy as _np
                        if isinstance(x, _np.generic):
                            x = x.item()
                            if isinstance(x, complex):
                                return [x.real, x.imag]
                    except ImportError:
                        pass
                    if isinstance(x, float) and not math.isfinite(x):
                        return repr(x)
                    return x
                with rcls(cmd["in_path"]) as r:
                    for item in getattr(r, "read_" + step_names(r)[0])():
                        cls = type(item)
                        if names is None:
                            names = [n for n, f in vars(cls).items() if callable(f) and not n.startswith("_")]
                        row = []
                        for n in names:
                            try:
                                row.append(conv(getattr(item, n)()))
                            except BaseException as e:
                                row.append({"error": type(e).__name__})
                        out.append(row)
                with open(cmd["out_path"], "w") as f:
                    json.dump({"names": names, "rows": out}, f)
                res = {"ok": True}
            elif cmd["op"] == "statemachine":
                res = {"ok": True, "results": [run_sm(mod, cmd["proto"], cmd["role"], seq, cmd.get("k", []), cmd.get("real")) for seq in cmd["seqs"]]}
            elif cmd["op"] == "schema":
                p = protos[cmd["proto"]]
                res = {"ok": True, "schema": p[("Binary", "Writer")].schema}
            elif cmd["op"] == "quit":
                break
            else:
                res = {"ok": False, "error": "unknown op"}
        except BaseException as e:
            where = "?"
            for fr in reversed(traceback.extract_tb(e.__traceback__)):
                if outdir in fr.filename:
                    where = "%s:%s" % (os.path.basename(fr.filename), fr.name)
                    break
            res = {"ok": False, "error": "%s: %s" % (type(e).__name__, str(e)[:500]), "etype": type(e).__name__,
                   "where": where, "tb": traceback.format_exc()[-2500:]}
        print(json.dumps(res), flush=True)
    return 0


if __name__ == "__main__":
    sys.exit(main())
