"""Hostile inputs for the front end (C10): raw bytes, YAML/text-level mutations of valid documents,
syntactically plausible but semantically arbitrary models, manifest mutations."""
from __future__ import annotations

import random
import re

from . import emit, modelgen
from .model import *  # noqa

TAGS = ["!record", "!enum", "!flags", "!protocol", "!vector", "!array", "!map", "!union", "!stream", "!generic", "!switch",
        "!!binary", "!!str", "!!int", "!!float", "!!null", "!!map", "!!seq", "!!set", "!!timestamp", "!bogus", "!"]
SCALARS = ["null", "~", "", "[]", "{}", "-1", "0", "1", "99999999999999999999999", "-99999999999999999999999", "0x10", "0xFFFFFFFFFFFFFFFFFF",
           "1e400", ".inf", ".nan", "abc", "true", "yes", "int", "int?", "int*", "int[]", "int->int", "string->", "->", "<", ">", "Foo<", "Foo<>",
           "Foo<int,>", "int[", "int[x:]", "int[-1]", "int*-1", "int*99999999999999999999", "int[99999999999999999999]", "(((int)))", "int????",
           "int*[]*[]?", "a.b.c", "A.B", ".", "..", "T", "null?", "[null]", "[null, null]", "[int, int]", "[[int, float], string]",
           "!vector {}", "!vector {items: }", "!array {items: int, dimensions: -1}", "!array {items: int, dimensions: [x, 3]}",
           "!array {items: int, dimensions: {x: -1}}", "!array {items: int, dimensions: 1e9}", "!array {items: int, dimensions: 4294967296}",
           "!map {keys: int}", "!map {values: int}", "!union {}", "!union {a: null}", "!union {null: int}", "!generic {name: }", "!generic {name: X}",
           "!generic {args: [int]}", "!stream {}", "!stream {items: !stream {items: int}}", "!enum {}", "!enum {values: 3}", "!enum {values: {a: b}}",
           "!enum {values: [1, 2]}", "!enum {base: string, values: [a]}", "!flags {values: {a: -1, b: }}", "!record {}", "!record {fields: 3}",
           "!record {fields: {a: }}", "!record {fields: [a, b]}", "!protocol {}", "!protocol {sequence: []}", "!protocol {sequence: {a: !stream {items: int}}}",
           "*x", "&x int", "<<", "? a", "- a", "|", ">", "'", "\"", "@", "`", "%", "\\"]
EXPRS = ["1", "-1", "1.5", "1e400", "0x", "0xFFFFFFFFFFFFFFFFFFFFF", "\"s\"", "'s'", "a", "b", "zz", "a + b", "a - (b - a)", "a / 0", "a ** b", "a as int", "a as Foo",
         "a as", "size(a)", "size()", "size(a, 0)", "size(a, -1)", "size(a, 'x')", "size(a, 99)", "dimensionIndex(a, 'x')", "dimensionIndex(a)",
         "dimensionCount(a)", "dimensionCount()", "foo(a)", "a[0]", "a[-1]", "a[99999999999999999999]", "a[x:0]", "a[x:0, x:1]", "a[0, 1, 2, 3]", "a[b]",
         "a[]", "a.b", "a.b.c", "a[0].b[1]", "(a", "a)", "a +", "+ a", "a ? b", "!switch a", "((((((((((a))))))))))", "a as float32 as int8 as string",
         "size(size(a))", "a[size(a)]", "k0", "k1", "k0 + 1", "k1 + k2", "m[]", "b[x:1, y:2]", "a[x:0]", "v[3]", "a[1][2][3]", "size(a, 0, 1)", "\"" + "x" * 3000 + "\"", "a" * 3000,
         # diagnostics reported at a subscript argument (they used to name no file), index bounds of fixed shapes
         "fv[5]", "fv[2]", "m[1]", "m['k']", "f[2, 0]", "f[1, 3]", "f[5, 5]", "a[y:0, x:1]", "fv[0] + f[1, 2] + m['k']", "fv[zz]", "m[zz]", "u[0]", "o[0]"]


# integer literals at the boundaries of every fixed-width integer type (and just beyond), in every place of a computed field that takes an integer
_BOUNDARY_INTS = ["0", "1", "2", "3", "127", "128", "255", "256", "32767", "32768", "65535", "65536", "2147483647", "2147483648", "4294967295", "4294967296",
                  "9223372036854775807", "9223372036854775808", "18446744073709551615", "18446744073709551616", "340282366920938463463374607431768211456",
                  "-1", "-2", "-128", "-129", "-2147483648", "-2147483649", "-9223372036854775808", "-9223372036854775809", "0x7FFFFFFFFFFFFFFF", "0x8000000000000000",
                  "0xFFFFFFFFFFFFFFFF", "0x10000000000000000", "1e19", "18446744073709551615.0"]
_INT_PLACES = ["size(a, {N})", "size(f, {N})", "size(b, {N})", "a[{N}]", "a[{N}, 0]", "a[0, {N}]", "f[{N}, 0]", "f[0, {N}]", "b[{N}, 0]", "v[{N}]", "fv[{N}]", "m[{N}]", "{N}",
               "a[0, 0] + {N}", "{N} as int8", "{N} as uint64", "v[0] * {N}", "size(v) + {N}", "a[x:{N}]", "a[y:{N}, x:0]", "zz ** {N}", "fv[{N}] + fv[0]"]
EXPRS += [t.replace("{N}", n) for t in _INT_PLACES for n in _BOUNDARY_INTS]
# the words of the expression language (operators spelled as words, function names, type names, literals) and identifiers that begin with them, in every
# syntactic position: where an operand, an operator, a member name, an argument, a type is expected
_WORDS = ["as", "size", "dimensionIndex", "dimensionCount", "switch", "null", "true", "false", "int", "string", "ascent", "asx", "sizeOf", "a"]
_WORD_PLACES = ["{W}", "-{W}", "({W})", "{W} + 1", "1 + {W}", "a.{W}", "{W}.b", "r.{W}", "a[{W}]", "a[{W}:0]", "a[0, {W}]", "size(a, {W})", "size({W})", "{W} as int", "zz as {W}",
                "zz {W} int", "zz {W} {W} int", "zz as as int", "{W}(a)", "{W} {W}", "-{W} ** 2", "{W}[0]", "zz as int {W}", "(zz {W}) int", "zz + {W} as int"]
EXPRS += [t.replace("{W}", w) for t in _WORD_PLACES for w in _WORDS]


def mutate_text(text: str, r: random.Random) -> str:
    lines = text.split("\n")
    k = r.randrange(12)
    if not lines:
        return text
    i = r.randrange(len(lines))
    if k == 0:     # replace the value part of a line with a hostile scalar
        m = re.match(r"^(\s*[^:#]*:)(.*)$", lines[i])
        if m:
            lines[i] = m.group(1) + " " + r.choice(SCALARS)
    elif k == 1:   # swap / insert a tag
        m = re.match(r"^(\s*[^:#]*:)\s*(![\w!]*)?(.*)$", lines[i])
        if m:
            lines[i] = m.group(1) + " " + r.choice(TAGS) + (m.group(3) or "")
    elif k == 2:
        del lines[i]
    elif k == 3:
        lines.insert(i, lines[i])
    elif k == 4:
        lines[i] = ("  " * r.randint(1, 3)) + lines[i]
    elif k == 5:
        lines[i] = lines[i].lstrip()
    elif k == 6:
        j = r.randrange(len(lines))
        lines[i], lines[j] = lines[j], lines[i]
    elif k == 7:   # replace the key
        m = re.match(r"^(\s*)([^:#]*)(:.*)$", lines[i])
        if m:
            lines[i] = m.group(1) + r.choice(["", "null", "1", "~", "[a]", "{a: b}", "x" * 10000, "Foo<T, T>", "Foo<T<U>>", "foo", "FOO", "9x", "a b", "é", "!record", "? x", "<<"]) + m.group(3)
    elif k == 8:   # anchors / aliases / merge keys
        lines.insert(i, r.choice(["a: &a [*a]", "<<: *nope", "b: &b {c: *b}", "x: &x int\ny: *x", "? [complex, key]\n: v", "--- \n...", "%YAML 1.9", "--- !record"]))
    elif k == 9:   # alias bomb / deep nesting
        if r.random() < 0.5:
            bomb = ["z0: &z0 [int, int]"] + ["z%d: &z%d [*z%d, *z%d, *z%d, *z%d, *z%d, *z%d, *z%d, *z%d]" % ((n, n) + (n - 1,) * 8) for n in range(1, 9)]
            lines = bomb + lines
        else:
            depth = r.choice([50, 500, 5000])
            lines.insert(i, "Deep: " + "[" * depth + "int" + "]" * depth)
    elif k == 10:  # byte-level noise
        b = bytearray("\n".join(lines).encode("utf-8", "surrogateescape"))
        for _ in range(r.randint(1, 4)):
            if b:
                b[r.randrange(len(b))] = r.randrange(256)
        return b.decode("latin-1")
    else:          # truncate
        t = "\n".join(lines)
        return t[: r.randrange(len(t) + 1)]
    return "\n".join(lines)


def arbitrary_defs(r: random.Random, n: int = 6):
    """Syntactically valid YAML models whose semantics are arbitrary (dangling names, cycles,
    wrong arity, random expressions)."""
    names = ["A", "B", "C", "Dd", "E1", "a", "A_", "P"]
    prims = ["int", "string", "float", "bool", "size", "date", "complexfloat", "uint8"]

    def ty(d=0):
        c = r.random()
        if c < 0.3 or d > 3:
            return r.choice(prims + names + ["T", "U", "Zz", "A.B", "null"])
        k = r.choice(["opt", "vec", "arr", "map", "gen", "union", "nest"])
        if k == "opt":
            return ty(d + 1) + "?"
        if k == "vec":
            return ty(d + 1) + "*" + r.choice(["", "3", "0"])
        if k == "arr":
            return ty(d + 1) + r.choice(["[]", "[,]", "[2,3]", "[x,y]", "[x:2,y]", "[x,x]", "[()]", "[0]"])
        if k == "map":
            return ty(d + 1) + "->" + ty(d + 1)
        if k == "gen":
            return r.choice(names) + "<" + ", ".join(ty(d + 1) for _ in range(r.randint(1, 3))) + ">"
        if k == "union":
            return "[" + ", ".join(ty(d + 1) for _ in range(r.randint(0, 4))) + "]"
        return "(" + ty(d + 1) + ")"

    def q(s):
        return '"' + s.replace('"', "") + '"' if not s.startswith("[") else s

    out = []
    for _ in range(n):
        nm = r.choice(names) + r.choice(["", "", "<T>", "<T, U>", "<T, T>"])
        k = r.choice(["record", "alias", "enum", "protocol", "flags"])
        if k == "record":
            out.append('"%s": !record' % nm)
            out.append("  fields:")
            for i in range(r.randint(0, 4)):
                out.append("    %s: %s" % (r.choice(["a", "b", "x", "a", "Bad", "c%d" % i]), q(ty())))
            if r.random() < 0.6:
                out.append("  computedFields:")
                for i in range(r.randint(0, 4)):
                    if r.random() < 0.2:
                        out.append("    k%d:" % i)
                        out.append("      !switch %s:" % r.choice(["a", "b", "zz", "a[0]"]))
                        for pat in r.sample(["int", "string", "null", "_", "Foo f", "int i", "null n", "float[] arr", "x y z", "int x", "float y", "string s"], r.randint(0, 4)):
                            out.append("        %s: %s" % (pat, q(r.choice(EXPRS + ["k0", "k1", "k%d" % i, "x", "i + k0"]))))
                    else:
                        out.append("    %s: %s" % (r.choice(["k%d" % i, "a", "k0"]), q(r.choice(EXPRS))))
        elif k == "alias":
            out.append('"%s": %s' % (nm, q(ty())))
        elif k in ("enum", "flags"):
            out.append('"%s": !%s' % (nm, k))
            if r.random() < 0.5:
                out.append("  base: %s" % r.choice(prims + ["A", "int?", "uint64"]))
            if r.random() < 0.5:
                out.append("  values: [%s]" % ", ".join(r.choice(["a", "b", "c", "a", "B", "1"]) for _ in range(r.randint(0, 4))))
            else:
                out.append("  values:")
                for i in range(r.randint(0, 4)):
                    out.append("    %s: %s" % (r.choice(["a", "b", "c", "v%d" % i]), r.choice(["", "0", "1", "-1", "256", "0x100", "18446744073709551616", "-9223372036854775809", "abc", "1.5"])))
        else:
            out.append('"%s": !protocol' % nm)
            out.append("  sequence:")
            for i in range(r.randint(0, 4)):
                t = ty()
                if r.random() < 0.4:
                    out.append("    %s: !stream" % r.choice(["s%d" % i, "a"]))
                    out.append("      items: %s" % q(t))
                else:
                    out.append("    %s: %s" % (r.choice(["s%d" % i, "a"]), q(t)))
        out.append("")
    return "\n".join(out)


MANIFEST_MUTS = [
    "namespace: %(ns)s\nimports: %(v)s\n", "namespace: %(ns)s\nversions: %(v)s\n", "namespace: %(v)s\n", "namespace: %(ns)s\ncpp: %(v)s\n",
    "namespace: %(ns)s\npython: %(v)s\n", "namespace: %(ns)s\nmatlab: %(v)s\n", "namespace: %(ns)s\njson: %(v)s\n",
    "namespace: %(ns)s\ncpp:\n  sourcesOutputDir: %(v)s\n", "namespace: %(ns)s\ncpp:\n  sourcesOutputDir: ../o\n  generateNDJson: %(v)s\n",
    "namespace: %(ns)s\nversions:\n  %(v)s: .\n", "namespace: %(ns)s\nversions:\n  v0: %(v)s\n", "namespace: %(ns)s\nimports:\n  - %(v)s\n",
    "%(v)s\n", "namespace: %(ns)s\n%(v)s: 1\n", "namespace: %(ns)s\nnamespace: %(ns)s\n", "- namespace: %(ns)s\n",
]
MANIFEST_VALS = ["null", "~", "[]", "{}", "3", "abc", "[1, 2]", "{a: b}", ".", "..", "/", "/nonexistent", "../nope", "./", "a b", "A.B", "a", "",
                 "https://example.invalid/x?ref=abc", "git://x", "ftp://x/y", "file:///tmp", "%%zz", "://", "[[.]]", "{v0: {v1: .}}", "true", "!!binary abc",
                 "x" * 5000, "\"\\0\"", "*a", "&a b"]


def multi_problem_manifest(ns: str, r: random.Random) -> str:
    """a manifest that decodes cleanly but has two or more independent problems at once (every single-problem manifest is covered by MANIFEST_MUTS):
    whatever collects, sorts, de-duplicates or formats the problems sees more than one of them"""
    while True:
        problems = 0
        nsv = r.choice([ns, ns, ns[:1].lower() + ns[1:], "9x", "a b", "A.B", "''", "x_y"])
        problems += nsv != ns
        out = ["namespace: %s" % nsv]
        for sec, key in (("cpp", "sourcesOutputDir"), ("python", "outputDir"), ("matlab", "outputDir"), ("json", "outputDir")):
            k = r.randrange(7)
            if k == 0:
                out.append("%s: {}" % sec)
                problems += 1
            elif k == 1:
                out.append("%s:\n  %s: ''" % (sec, key))
                problems += 1
            elif k == 2:
                out.append("%s:\n  %s: ../out/%s" % (sec, key, sec))
            elif k == 3 and sec == "cpp":
                out.append("cpp:\n  generateHDF5: false")
                problems += 1
        k = r.randrange(6)
        if k == 0:
            out.append("imports:\n  - ../nope\n  - ../nope2")
            problems += 2
        elif k == 1:
            out.append("imports:\n  - ''")
            problems += 1
        k = r.randrange(6)
        if k == 0:
            out.append("versions:\n  v0: ../nope\n  v1: ../nope2")
            problems += 2
        elif k == 1:
            out.append("versions:\n  v0: ''\n  9x: .")
            problems += 2
        if problems >= 2:
            r.shuffle(out)
            return "\n".join(out) + "\n"


def mutate_manifest(ns: str, r: random.Random) -> str:
    if r.random() < 0.4:
        return multi_problem_manifest(ns, r)
    return r.choice(MANIFEST_MUTS) % {"ns": ns, "v": r.choice(MANIFEST_VALS)}


def random_bytes(r: random.Random) -> bytes:
    n = r.choice([0, 1, 2, 7, 64, 500, 5000])
    k = r.randrange(4)
    if k == 0:
        return bytes(r.randrange(256) for _ in range(n))
    if k == 1:
        return bytes(r.choice(b" \n\t:-[]{}!&*#|>'\"%@`,?a1A") for _ in range(n))
    if k == 2:
        return ("\ufeff" + "".join(chr(r.choice([0x41, 0x3A, 0x20, 0x0A, 0x85, 0x2028, 0xFFFE, 0x1F600, 0])) for _ in range(n))).encode("utf-8", "ignore")
    return b"\xff\xfe" + bytes(r.randrange(256) for _ in range(n))


def compose_expr(r: random.Random, depth: int = 0) -> str:
    """seeded compositions over the typed record TE used by C10 (fields a, b, v, m, u, o, r, f, zz and computed k0, k1)"""
    atoms = ["a", "b", "v", "m", "u", "o", "r", "f", "zz", "k0", "k1", "r.b", "r.c", "1", "2.5", "'x'", "0x1F", "-3"]
    if depth > 2 or r.random() < 0.3:
        return r.choice(atoms)
    k = r.randrange(8)
    x, y = compose_expr(r, depth + 1), compose_expr(r, depth + 1)
    if k == 0:
        return "%s %s %s" % (x, r.choice(["+", "-", "*", "/", "**"]), y)
    if k == 1:
        return "(%s)" % x
    if k == 2:
        return "%s[%s]" % (x, r.choice(["", y, "0", "x:0", "x:0, y:1", "0, 1", "y:1, x:0", "-1", "'k'", "x:0, 1", "0, 1, 2", "x:" + y]))
    if k == 3:
        return "size(%s%s)" % (x, r.choice(["", ", 0", ", 'x'", ", 'q'", ", 5", ", " + y, ", 0, 1"]))
    if k == 4:
        return "%s as %s" % (x, r.choice(["int", "float64", "string", "uint8", "Inner", "bool", "int*", "Missing"]))
    if k == 5:
        return "dimensionIndex(%s, %s)" % (x, r.choice(["'x'", "'y'", "'q'", "0", y]))
    if k == 6:
        return "dimensionCount(%s)" % x
    return "%s.%s" % (x, r.choice(["b", "c", "q", "a"]))
