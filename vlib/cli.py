"""Helpers for driving the yardl CLI on synthesized package trees and classifying what it says."""
from __future__ import annotations

import os
import re

from . import common

ANSI = re.compile(r"\x1b\[[0-9;]*m")
ERR_LINE = re.compile(r"^(?:ERR|WRN|INF|FTL|PNC|DBG)?\s*(?:❌|⚠️)?\s*(.*)$")
LOC = re.compile(r"(/[^\s:'\"]+?\.(?:yml|yaml))(?::(\d+))?(?::(\d+))?")


def clean(stderr: str) -> str:
    return ANSI.sub("", stderr)


class Diag:
    def __init__(self, level, text):
        self.level, self.text = level, text
        m = LOC.search(text)
        self.file = m.group(1) if m else None
        self.line = int(m.group(2)) if m and m.group(2) else None


def parse_diags(stderr: str) -> list:
    out = []
    for ln in clean(stderr).split("\n"):
        ln = ln.rstrip()
        if not ln:
            continue
        if ln.startswith("ERR"):
            out.append(Diag("error", ln[3:].strip()))
        elif ln.startswith("WRN"):
            out.append(Diag("warning", ln[3:].strip()))
        elif ln.startswith("❌"):
            out.append(Diag("error", ln))
        elif ln.startswith("⚠️") or ln.startswith("⚠"):
            out.append(Diag("warning", ln))
        elif out and not ln.startswith(("INF", "DBG", "FTL", "PNC")):
            out[-1].text += "\n" + ln
            if out[-1].file is None:
                m = LOC.search(ln)
                if m:
                    out[-1].file = m.group(1)
                    out[-1].line = int(m.group(2)) if m.group(2) else None
    return out


def panic_site(stderr: str) -> str | None:
    """Top yardl frame of a Go panic / fatal error dump (identity of a crash)."""
    s = clean(stderr)
    if not ("panic:" in s or "fatal error:" in s or "goroutine " in s and "[running]" in s or "PNC" in s):
        return None
    if "stack overflow" in s or "stack exceeds" in s:
        kind = "stack-overflow"
    elif "nil pointer dereference" in s:
        kind = "nil-deref"
    elif "makeslice" in s:
        kind = "makeslice"
    elif "index out of range" in s or "slice bounds out of range" in s:
        kind = "index"
    elif "out of memory" in s:
        kind = "oom"
    elif "concurrent map" in s:
        kind = "concurrent-map"
    elif "interface conversion" in s:
        kind = "type-assertion"
    else:
        kind = "explicit"
    frames = re.findall(r"^(github\.com/microsoft/yardl/tooling/[^\s(]+)", s, re.M)
    for f in frames:
        if "verifhook" in f:
            continue
        return f.split("github.com/microsoft/yardl/tooling/")[1] + ":" + kind
    m = re.search(r"(panic|fatal error): (.*)", s)
    return "unknown:" + (m.group(2)[:60] if m else "?")


def run_cli(cmd: str, pkgdir: str, home: str, extra_args=(), event_log=None, cpu_s=common.CPU_LIMIT_S):
    y = common.build_yardl()
    return common.run([y, cmd] + list(extra_args), cwd=pkgdir, env=common.yardl_env(home, event_log), cpu_s=cpu_s)
