"""AST -> YAML text, in any of the spellings yardl documents."""
from __future__ import annotations

import random
from dataclasses import dataclass, field
from typing import Optional

from .model import *  # noqa


class T:
    """tagged YAML node"""

    def __init__(self, tag, node):
        self.tag, self.node = tag, node


class Raw(str):
    """scalar emitted verbatim (already quoted / special)"""


@dataclass
class Style:
    expanded: float = 0.0        # probability of choosing the expanded syntax where both exist
    alias_spelling: float = 0.0  # probability of spelling a primitive by its alias (int vs int32)
    quote: float = 0.0           # probability of quoting a scalar that does not need quotes
    flow: float = 0.0            # probability of flow style for small expanded nodes
    optional_as_list: float = 0.0  # probability of `[null, T]` instead of `T?`
    enum_as_map: float = 0.0     # probability of spelling default-valued enums as a map with values
    hex_values: float = 0.0
    extra_ws: float = 0.0        # blank lines / trailing spaces / non-doc comments
    self_qualify: float = 0.0    # probability of writing a reference to a type of the package's own namespace as `Ns.Type`
    own_ns: Optional[str] = None   # set by package_files while the definitions of one package are emitted
    seed: int = 0
    rnd: random.Random = field(default=None, repr=False)

    def __post_init__(self):
        if self.rnd is None:
            self.rnd = random.Random(self.seed)

    def p(self, prob):
        return prob > 0 and self.rnd.random() < prob


def _ref_name(t, st) -> str:
    if t.ns:
        return t.ns + "." + t.name
    if st.own_ns and st.p(st.self_qualify):
        return st.own_ns + "." + t.name
    return t.name


SHORT = lambda: Style()
EXPANDED = lambda seed=0: Style(expanded=1.0, optional_as_list=1.0, enum_as_map=1.0, seed=seed)

_ALIAS_OF = {}
for _a, _p in PRIM_ALIASES.items():
    _ALIAS_OF.setdefault(_p, []).append(_a)


def prim_spelling(p: P, st: Style) -> str:
    if p.spell:
        return p.spell
    if st.p(st.alias_spelling) and p.name in _ALIAS_OF:
        return st.rnd.choice(_ALIAS_OF[p.name])
    return p.name


def dims_simple(a: A) -> str:
    if a.dims is None:
        return "[]"
    if isinstance(a.dims, int):
        if a.dims == 1:
            return "[()]"
        return "[" + "," * (a.dims - 1) + "]"
    parts = []
    for name, length in a.dims:
        if name is not None and length is not None:
            parts.append("%s:%d" % (name, length))
        elif name is not None:
            parts.append(name)
        elif length is not None:
            parts.append(str(length))
        else:
            parts.append("")
    if len(parts) == 1 and parts[0] == "":
        return "[()]"
    return "[" + ", ".join(parts) + "]"


def tsimple(t, st: Style) -> Optional[str]:
    """Simple (string) syntax of a type, or None if it has none."""
    if isinstance(t, P):
        return prim_spelling(t, st)
    if isinstance(t, TP):
        return t.name
    if isinstance(t, N):
        base = _ref_name(t, st)
        if not t.args:
            return base
        args = [tsimple(a, st) for a in t.args]
        if any(a is None for a in args):
            return None
        return "%s<%s>" % (base, ", ".join(args))
    if isinstance(t, U):
        if t.is_optional and not t.explicit:
            inner = tsimple(t.cases[0][1], st)
            if inner is None:
                return None
            if isinstance(t.cases[0][1], M):
                return "(%s)?" % inner
            return inner + "?"
        return None
    if isinstance(t, V):
        inner = tsimple(t.item, st)
        if inner is None:
            return None
        if isinstance(t.item, M):
            inner = "(%s)" % inner
        return inner + "*" + ("" if t.length is None else str(t.length))
    if isinstance(t, A):
        inner = tsimple(t.item, st)
        if inner is None:
            return None
        if isinstance(t.item, M):
            inner = "(%s)" % inner
        return inner + dims_simple(t)
    if isinstance(t, M):
        k, v = tsimple(t.key, st), tsimple(t.value, st)
        if k is None or v is None:
            return None
        if isinstance(t.key, M) or isinstance(t.key, U):
            k = "(%s)" % k
        return "%s->%s" % (k, v)
    if isinstance(t, S):
        return None
    raise TypeError(t)


def tnode(t, st: Style):
    """YAML node for a type."""
    if isinstance(t, U) and t.is_optional and not t.explicit and st.p(st.optional_as_list):
        return [None, tnode(t.cases[0][1], st)]
    s = tsimple(t, st)
    if s is not None and not (st.p(st.expanded) and not isinstance(t, (P, TP)) and not (isinstance(t, N) and not t.args)):
        return s
    if isinstance(t, (P, TP)) or (isinstance(t, N) and not t.args):
        return s
    if isinstance(t, N):
        return T("!generic", {"name": _ref_name(t, st), "args": [tnode(a, st) for a in t.args]})
    if isinstance(t, U):
        if t.explicit:
            d = {}
            if t.nullable:
                d[Raw("null")] = None
            for tag, c in t.cases:
                d[tag] = tnode(c, st)
            return T("!union", d)
        out = [None] if t.nullable else []
        for tag, c in t.cases:
            out.append(tnode(c, st))
        return out
    if isinstance(t, V):
        d = {"items": tnode(t.item, st)}
        if t.length is not None:
            d["length"] = Raw(str(t.length))
        return T("!vector", d)
    if isinstance(t, A):
        d = {"items": tnode(t.item, st)}
        if t.dims is None:
            pass
        elif isinstance(t.dims, int):
            d["dimensions"] = Raw(str(t.dims))
        else:
            named = all(n is not None for n, _ in t.dims) and len(t.dims) > 0
            sized = all(l is not None for _, l in t.dims) and len(t.dims) > 0
            unnamed = all(n is None for n, _ in t.dims)
            if named and sized:
                d["dimensions"] = {n: Raw(str(l)) for n, l in t.dims}
            elif named:
                if st.rnd.random() < 0.5:
                    d["dimensions"] = [n for n, _ in t.dims]
                else:
                    d["dimensions"] = {n: None for n, _ in t.dims}
            elif unnamed and sized:
                d["dimensions"] = [Raw(str(l)) for _, l in t.dims]
            elif unnamed:
                d["dimensions"] = Raw(str(len(t.dims)))
            else:
                return s  # mixed: only the simple syntax can say it
        return T("!array", d)
    if isinstance(t, M):
        return T("!map", {"keys": tnode(t.key, st), "values": tnode(t.value, st)})
    if isinstance(t, S):
        return T("!stream", {"items": tnode(t.item, st)})
    raise TypeError(t)


# ----------------------------------------------------------------------------- YAML text

_PLAIN_SAFE_START = set("abcdefghijklmnopqrstuvwxyzABCDEFGHIJKLMNOPQRSTUVWXYZ_(0123456789.")
_YAML_SPECIAL_WORDS = {"null", "true", "false", "yes", "no", "on", "off", "y", "n", "~", "Null", "NULL", "True",
                       "TRUE", "False", "FALSE", "Yes", "YES", "No", "NO", "On", "ON", "Off", "OFF"}


def needs_quote(s: str, flow: bool) -> bool:
    if s == "" or s in _YAML_SPECIAL_WORDS:
        return True
    if s[0] not in _PLAIN_SAFE_START or s[0] in "0123456789.-+":
        return True
    if ": " in s or " #" in s or s.endswith(":") or s != s.strip():
        return True
    if flow and not all(c.isalnum() or c in "._" for c in s):
        return True
    if any(c in s for c in "\n\t\"'`|>%@&!"):
        return True
    return False


def scalar(s, st: Style, flow=False, force_quote=False) -> str:
    if isinstance(s, Raw):
        return str(s)
    if s is None:
        return "null" if flow else ""
    if force_quote or needs_quote(s, flow) or st.p(st.quote):
        if "'" not in s and "\\" not in s and st.rnd.random() < 0.5:
            return "'" + s + "'"
        return '"' + s.replace("\\", "\\\\").replace('"', '\\"') + '"'
    return s


def flow_text(node, st: Style) -> str:
    if isinstance(node, T):
        return node.tag + " " + flow_text(node.node, st)
    if isinstance(node, dict):
        return "{" + ", ".join("%s: %s" % (scalar(k, st, True), flow_text(v, st)) for k, v in node.items()) + "}"
    if isinstance(node, list):
        return "[" + ", ".join(flow_text(v, st) for v in node) + "]"
    return scalar(node, st, True)


def is_small(node) -> bool:
    return len(flow_text(node, Style())) < 60


def block_lines(key: str, node, st: Style, indent: int, lines: list):
    """Appends `key: node` at the given indent."""
    pad = "  " * indent
    k = scalar(key, st)
    tag = ""
    while isinstance(node, T):
        tag = tag + " " + node.tag if tag else node.tag
        node = node.node
    tagp = (" " + tag) if tag else ""
    if isinstance(node, (dict, list)) and (len(node) == 0 or (st.p(st.flow) and is_small(node))
                                           or (isinstance(node, list) and not tag and all(not isinstance(v, (dict, list, T)) for v in node) and not st.p(st.expanded))):
        lines.append("%s%s:%s %s" % (pad, k, tagp, flow_text(node, st)))
    elif isinstance(node, dict):
        lines.append("%s%s:%s" % (pad, k, tagp))
        for kk, vv in node.items():
            block_lines(kk, vv, st, indent + 1, lines)
    elif isinstance(node, list):
        lines.append("%s%s:%s" % (pad, k, tagp))
        for vv in node:
            seq_item_lines(vv, st, indent + 1, lines)
    else:
        sc = scalar(node, st)
        lines.append(("%s%s:%s %s" % (pad, k, tagp, sc)).rstrip())


def seq_item_lines(node, st: Style, indent: int, lines: list):
    pad = "  " * indent
    tag = ""
    while isinstance(node, T):
        tag = node.tag
        node = node.node
    if isinstance(node, (dict, list)):
        lines.append("%s- %s%s" % (pad, (tag + " ") if tag else "", flow_text(node, st)))
    else:
        lines.append("%s- %s%s" % (pad, (tag + " ") if tag else "", scalar(node, st)))


def comment_lines(text: Optional[str], indent: int, lines: list):
    if text:
        for ln in text.split("\n"):
            lines.append("  " * indent + ("# " + ln if ln else "#"))


def def_header(d) -> str:
    tps = getattr(d, "tparams", ())
    return d.name + ("<%s>" % ", ".join(tps) if tps else "")


def expr_node(e, st: Style):
    if isinstance(e, Switch):
        return {Raw("!switch " + scalar(e.target, st)): {pat: expr_node(x, st) for pat, x in e.cases}}
    return e


def emit_def(d, st: Style, lines: list):
    if st.p(st.extra_ws):
        lines.append("")
        lines.append("# unattached remark %d" % st.rnd.randrange(1000))
        lines.append("")
    comment_lines(getattr(d, "comment", None), 0, lines)
    head = def_header(d)
    if isinstance(d, Rec):
        lines.append("%s: !record" % scalar(head, st))
        lines.append("  fields:")
        for fn, ft in d.fields:
            comment_lines(d.field_comments.get(fn), 2, lines)
            block_lines(fn, tnode(ft, st), st, 2, lines)
        if d.computed:
            lines.append("  computedFields:")
            for cn, ce in d.computed:
                comment_lines(d.field_comments.get(cn), 2, lines)
                block_lines(cn, expr_node(ce, st), st, 2, lines)
    elif isinstance(d, En):
        lines.append("%s: %s" % (scalar(head, st), "!flags" if d.flags else "!enum"))
        if d.base_alias is not None:
            lines.append("  base: %s" % d.base_alias)
        elif d.base is not None:
            lines.append("  base: %s" % prim_spelling(P(d.base), st))
        defaults = [(1 << i) if d.flags else i for i in range(len(d.values))]
        is_default = [v for _, v in d.values] == defaults
        if is_default and not d.explicit_values and not st.p(st.enum_as_map):
            if st.p(st.flow):
                lines.append("  values: [%s]" % ", ".join(sym for sym, _ in d.values))
            else:
                lines.append("  values:")
                for sym, _ in d.values:
                    lines.append("    - %s" % scalar(sym, st))
        else:
            lines.append("  values:")
            for sym, v in d.values:
                vs = hex(v) if (st.p(st.hex_values) and v >= 0) else str(v)
                lines.append("    %s: %s" % (scalar(sym, st), vs))
    elif isinstance(d, Al):
        block_lines(head, tnode(d.type, st), st, 0, lines)
    elif isinstance(d, Proto):
        lines.append("%s: !protocol" % scalar(head, st))
        lines.append("  sequence:")
        for sn, stp in d.steps:
            comment_lines(d.step_comments.get(sn), 2, lines)
            block_lines(sn, tnode(stp, st), st, 2, lines)
    else:
        raise TypeError(d)
    if st.p(st.extra_ws):
        lines.append("")


def emit_defs(defs, st: Optional[Style] = None) -> str:
    st = st or Style()
    lines: list = []
    for d in defs:
        emit_def(d, st, lines)
        lines.append("")
    return "\n".join(lines)


def emit_manifest(pkg: Pkg, outputs: Optional[dict] = None, import_paths: Optional[list] = None,
                  version_paths: Optional[list] = None) -> str:
    lines = ["namespace: %s" % pkg.ns]
    imps = import_paths if import_paths is not None else ["../" + q.dir for q in pkg.imports]
    if imps:
        lines.append("imports:")
        for i in imps:
            lines.append("  - %s" % i)
    vers = version_paths if version_paths is not None else [(lbl, "../" + q.dir) for lbl, q in pkg.versions]
    if vers:
        lines.append("versions:")
        for lbl, pth in vers:
            lines.append("  %s: %s" % (lbl, pth))
    for section, opts in (outputs or {}).items():
        lines.append("%s:" % section)
        for k, v in opts.items():
            if isinstance(v, bool):
                v = "true" if v else "false"
            lines.append("  %s: %s" % (k, v))
    return "\n".join(lines) + "\n"


def default_outputs(rel="../out", cpp=True, python=True, matlab=False, json=False, cpp_opts=None) -> dict:
    o = {}
    if cpp:
        o["cpp"] = dict({"sourcesOutputDir": rel + "/cpp", "generateCMakeLists": False, "generateHDF5": False}, **(cpp_opts or {}))
    if python:
        o["python"] = {"outputDir": rel + "/python"}
    if matlab:
        o["matlab"] = {"outputDir": rel + "/matlab"}
    if json:
        o["json"] = {"outputDir": rel + "/json"}
    return o


def package_files(pkg: Pkg, st: Optional[Style] = None, outputs: Optional[dict] = None,
                  layout: Optional[list] = None, emit_deps: bool = True, _seen=None) -> dict:
    """Returns {relative path: text} for the package, its imports and its previous versions.
    `layout`: [(filename, [def names])...] (default: one model.yml). Only the root package
    gets `outputs`."""
    st = st or Style()
    files = {}
    _seen = _seen if _seen is not None else set()
    if id(pkg) in _seen:
        return files
    _seen.add(id(pkg))
    files[pkg.dir + "/_package.yml"] = emit_manifest(pkg, outputs)
    outer_ns, st.own_ns = st.own_ns, pkg.ns
    if layout is None:
        files[pkg.dir + "/model.yml"] = emit_defs(pkg.defs, st)
    else:
        for fname, names in layout:
            ds = [d for n in names for d in pkg.defs if d.name == n]
            files[pkg.dir + "/" + fname] = emit_defs(ds, st)
    if emit_deps:
        for q in pkg.imports:
            files.update(package_files(q, st, None, None, True, _seen))
        for _, q in pkg.versions:
            files.update(package_files(q, st, None, None, True, _seen))
    st.own_ns = outer_ns
    return files
