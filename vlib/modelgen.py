"""Seeded generators of *valid* yardl packages (constraints: DESIGN.md appendix A)."""
from __future__ import annotations

import random
from dataclasses import dataclass, field, replace

from .model import *  # noqa

KEY_PRIMS = ["string", "int8", "uint8", "int16", "uint16", "int32", "uint32", "int64", "uint64", "size"]
SCALAR_PRIMS = list(PRIMS)


@dataclass
class Named:
    """an entry of the pool of referencable named types"""
    name: str
    kind: str                 # record | enum | flags | alias
    arity: int = 0
    ns: str | None = None     # set when imported
    d: object = None


def canon_type(env_lookup, t):
    """Structural canonical form used to decide 'distinct after alias resolution'."""
    if isinstance(t, P):
        return ("p", "uint64" if t.name == "size" else t.name)
    if isinstance(t, TP):
        return ("tp", t.name)
    if isinstance(t, N):
        d = env_lookup(t)
        if isinstance(d, Al):
            body = fq(d.type, t.ns) if t.ns else d.type
            return canon_type(env_lookup, subst(body, dict(zip(d.tparams, t.args))))
        return ("n", t.ns, t.name, tuple(canon_type(env_lookup, a) for a in t.args))
    if isinstance(t, U):
        return ("u", t.nullable, tuple(canon_type(env_lookup, c) for _, c in t.cases))
    if isinstance(t, V):
        return ("v", t.length, canon_type(env_lookup, t.item))
    if isinstance(t, A):
        dims = t.dims if (t.dims is None or isinstance(t.dims, int)) else tuple((None, l) for _, l in t.dims)
        if isinstance(dims, tuple) and all(l is None for _, l in dims):
            dims = len(dims)
        return ("a", dims, canon_type(env_lookup, t.item))
    if isinstance(t, M):
        return ("m", canon_type(env_lookup, t.key), canon_type(env_lookup, t.value))
    if isinstance(t, S):
        return ("s", canon_type(env_lookup, t.item))
    raise TypeError(t)


def tagname(t) -> str:
    """Deterministic camelCase tag for a union case type (same type -> same tag)."""
    def up(s):
        return s[:1].upper() + s[1:]

    def w(t):
        if isinstance(t, P):
            return t.name
        if isinstance(t, TP):
            return "p" + t.name
        if isinstance(t, N):
            return (t.ns or "") + t.name + "".join("Of" + up(w(a)) for a in t.args)
        if isinstance(t, U):
            return ("opt" if t.nullable else "") + "".join(up(w(c)) for _, c in t.cases) + "U"
        if isinstance(t, V):
            return "vec" + ("" if t.length is None else str(t.length)) + up(w(t.item))
        if isinstance(t, A):
            if t.dims is None:
                return "dyn" + up(w(t.item))
            if isinstance(t.dims, int):
                return "arr%d" % t.dims + up(w(t.item))
            return "arr" + "x".join((n or "") + ("" if l is None else str(l)) for n, l in t.dims) + up(w(t.item))
        if isinstance(t, M):
            return "map" + up(w(t.key)) + "To" + up(w(t.value))
        raise TypeError(t)
    s = w(t)
    s = "".join(ch for ch in s if ch.isalnum())
    s = s[:1].lower() + s[1:]
    return s[:60]


@dataclass
class GenOpts:
    max_depth: int = 3
    n_defs: tuple = (3, 8)
    n_protocols: tuple = (1, 3)
    n_steps: tuple = (1, 5)
    p_stream: float = 0.4
    generics: bool = True
    key_prims: tuple = tuple(KEY_PRIMS)
    prims: tuple = tuple(SCALAR_PRIMS)
    max_fixed: int = 4        # max fixed vector length / fixed dim
    max_union: int = 4
    computed: bool = False
    weights: dict = field(default_factory=lambda: {"prim": 5, "named": 4, "opt": 2, "union": 2, "vec": 2,
                                                   "fvec": 1, "arr": 1, "farr": 1, "darr": 1, "map": 2})


class Gen:
    def __init__(self, rnd: random.Random, opts: GenOpts | None = None):
        self.r = rnd
        self.o = opts or GenOpts()
        self.counter = 0

    # ------------------------------------------------------------ names
    def uid(self) -> int:
        self.counter += 1
        return self.counter

    def type_name(self, stem) -> str:
        return "%s%d" % (stem, self.uid())

    # ------------------------------------------------------------ types
    def lookup_in(self, pool):
        idx = {(n.ns, n.name): n.d for n in pool}
        return lambda t: idx[(t.ns, t.name)]

    def is_unionish(self, pool, t) -> bool:
        """True if t is a union/optional, or an alias that resolves to one, or a bare type parameter."""
        lk = self.lookup_in(pool)
        while True:
            if isinstance(t, (U, TP)):
                return True
            if isinstance(t, N):
                d = lk(t)
                if isinstance(d, Al):
                    body = fq(d.type, t.ns) if t.ns else d.type
                    t = subst(body, dict(zip(d.tparams, t.args)))
                    continue
            return False

    def gen_type(self, pool, depth: int, tparams=(), ctx: str = "field"):
        o, r = self.o, self.r
        choices = dict(o.weights)
        if depth <= 0:
            choices = {"prim": 5, "named": 4}
        if not pool and not tparams:
            choices.pop("named", None)
        if ctx in ("case", "optinner", "arg"):
            choices.pop("opt", None)
            choices.pop("union", None)
        kinds = list(choices)
        k = r.choices(kinds, [choices[x] for x in kinds])[0]
        sub = lambda c="item": self.gen_type(pool, depth - 1, tparams, c)
        if k == "prim":
            return P(r.choice(o.prims))
        if k == "named":
            cands = list(pool)
            if tparams and ctx not in ("case", "optinner") and r.random() < 0.4:
                return TP(r.choice(tparams))
            if not cands:
                return P(r.choice(o.prims))
            n = r.choice(cands)
            if ctx in ("case", "optinner", "arg") and self.is_unionish(pool, N(n.name, tuple(P("int32") for _ in range(n.arity)), n.ns)):
                return P(r.choice(o.prims))
            if n.arity and depth <= 0:
                args = tuple(P(r.choice(o.prims)) for _ in range(n.arity))
            else:
                args = tuple(self.gen_type(pool, min(depth - 1, 1), tparams, "arg") for _ in range(n.arity))
            t = N(n.name, args, n.ns)
            if ctx in ("case", "optinner", "arg") and self.is_unionish(pool, t):
                return P(r.choice(o.prims))
            return t
        if k == "opt":
            for _ in range(20):
                inner = self.gen_type(pool, depth - 1, tparams, "optinner")
                if not ((isinstance(inner, (V, A)) and isinstance(inner.item, U)) or (isinstance(inner, M) and isinstance(inner.value, U))):
                    return Opt(inner)
            return Opt(P("int32"))
        if k == "union":
            n = r.randint(2, o.max_union)
            lk = self.lookup_in(pool)
            cases, seen, heads = [], set(), []
            for _ in range(n * 3):
                c = self.gen_type(pool, depth - 1, tparams, "case")
                # yardl folds "vector/array/map of union" into one node and then rejects it as a
                # nested union when used as a union case: keep such shapes behind a named type
                if (isinstance(c, (V, A)) and isinstance(c.item, U)) or (isinstance(c, M) and isinstance(c.value, U)):
                    continue
                key = canon_type(lk, c)
                if key in seen:
                    continue
                # a case that mentions a type parameter may collapse onto a sibling once the
                # parameter is bound: require a different outermost constructor
                has_tp = any(isinstance(x, TP) for x in walk_types(c))
                if any(k2[0] == key[0] and (has_tp or tp2) for k2, tp2 in heads):
                    continue
                heads.append((key, has_tp))
                seen.add(key)
                cases.append(c)
                if len(cases) == n:
                    break
            if len(cases) < 2:
                return Opt(cases[0]) if cases else P("int32")
            implicit_ok = all((isinstance(c, P)) or (isinstance(c, N) and not c.args) for c in cases)
            tags = [c.name for c in cases] if implicit_ok else None
            explicit = (not implicit_ok) or len(set(tags)) != len(tags) or r.random() < 0.25
            if explicit:
                cs = tuple((tagname(c), c) for c in cases)
                if len({t for t, _ in cs}) != len(cs):
                    cs = tuple((tagname(c) + str(i), c) for i, c in enumerate(cases))
                return U(cs, r.random() < 0.3, True)
            return U(tuple((None, c) for c in cases), r.random() < 0.3, False)
        if k == "vec":
            return V(sub())
        if k == "fvec":
            return V(sub(), r.randint(1, o.max_fixed))
        if k == "arr":
            rank = r.randint(1, 3)
            if r.random() < 0.5:
                return A(sub(), rank)
            return A(sub(), tuple((nm, None) for nm in self.dim_names(rank)))
        if k == "farr":
            rank = r.randint(1, 3)
            lens = [r.randint(1, o.max_fixed) for _ in range(rank)]
            if r.random() < 0.5:
                return A(sub(), tuple((None, l) for l in lens))
            return A(sub(), tuple(zip(self.dim_names(rank), lens)))
        if k == "darr":
            return A(sub(), None)
        if k == "map":
            key = P(r.choice(o.key_prims))
            return M(key, sub("mapvalue"))
        raise AssertionError(k)

    def dim_names(self, rank):
        base = self.r.choice([["x", "y", "z"], ["row", "col", "slice"], ["a", "b", "c"]])
        return base[:rank]

    # ------------------------------------------------------------ definitions
    def gen_enum(self, flags=False) -> En:
        r = self.r
        n = r.randint(1, 5)
        name = self.type_name("Flg" if flags else "Enm")
        base = r.choice([None, None] + INT_PRIMS)
        lo, hi = INT_RANGE[base or "int32"]
        syms = ["s%s%d" % (chr(97 + i), i) for i in range(n)]
        if r.random() < 0.4:
            vals = [(1 << i) if flags else i for i in range(n)]
            if flags and (1 << (n - 1)) > hi:
                vals = vals[:1]
                syms = syms[:1]
            return En(name, list(zip(syms, vals)), base, flags, explicit_values=r.random() < 0.5)
        vals = set()
        while len(vals) < n:
            if flags:
                bit = r.randint(0, min(62, hi.bit_length() - 1))
                v = 1 << bit
                if r.random() < 0.2:
                    v |= 1 << r.randint(0, min(62, hi.bit_length() - 1))
                if r.random() < 0.1:
                    v = 0
            else:
                v = r.choice([r.randint(max(lo, -100), min(hi, 100)), lo, hi, r.randint(lo, hi)])
            if lo <= v <= hi:
                vals.add(v)
        vals = list(vals)
        r.shuffle(vals)
        return En(name, list(zip(syms, vals)), base, flags)

    def gen_record(self, pool) -> Rec:
        r, o = self.r, self.o
        tparams = ()
        if o.generics and r.random() < 0.25:
            tparams = tuple("T%d" % (i + 1) for i in range(r.randint(1, 2)))
        name = self.type_name("Rec")
        nf = r.randint(1, 5)
        fields = []
        for i in range(nf):
            fields.append(("f%s%d" % (chr(97 + i), self.uid()), self.gen_type(pool, o.max_depth - 1, tparams, "field")))
        # every type parameter must be used
        used = {t.name for _, ft in fields for t in walk_types(ft) if isinstance(t, TP)}
        for tp in tparams:
            if tp not in used:
                wrap = r.choice([lambda t: t, lambda t: V(t), lambda t: Opt(t), lambda t: M(P("string"), t)])
                fields.append(("g%s%d" % (tp.lower(), self.uid()), wrap(TP(tp))))
        return Rec(name, fields, tparams)

    def gen_alias(self, pool) -> Al:
        r, o = self.r, self.o
        tparams = ()
        if o.generics and r.random() < 0.25:
            tparams = ("T",)
        name = self.type_name("Ali")
        for _ in range(20):
            t = self.gen_type(pool, o.max_depth - 1, tparams, "field")
            if tparams:
                used = {x.name for x in walk_types(t) if isinstance(x, TP)}
                if "T" not in used:
                    t = r.choice([V(TP("T")), A(TP("T"), None), M(P("string"), TP("T")), A(TP("T"), 2), Opt(TP("T"))])
            if isinstance(t, TP):
                continue
            return Al(name, t, tparams)
        return Al(name, V(TP("T")) if tparams else P("int32"), tparams)

    def gen_protocol(self, pool) -> Proto:
        r, o = self.r, self.o
        name = self.type_name("Proto")
        steps = []
        for i in range(r.randint(*o.n_steps)):
            t = self.gen_type(pool, o.max_depth, (), "step")
            if r.random() < o.p_stream:
                t = S(t)
            steps.append(("s%s%d" % (chr(97 + i), self.uid()), t))
        return Proto(name, steps)

    def gen_package(self, ns: str, imports=(), dirname=None) -> Pkg:
        r, o = self.r, self.o
        pool: list = []
        for q in imports:
            for d in q.defs:
                if isinstance(d, Proto):
                    continue
                kind = "record" if isinstance(d, Rec) else ("alias" if isinstance(d, Al) else ("flags" if d.flags else "enum"))
                pool.append(Named(d.name, kind, len(getattr(d, "tparams", ())), q.ns, d))
        defs = []
        for _ in range(r.randint(*o.n_defs)):
            k = r.choices(["record", "enum", "flags", "alias"], [5, 2, 1, 3])[0]
            if k == "record":
                d = self.gen_record(pool)
            elif k == "enum":
                d = self.gen_enum(False)
            elif k == "flags":
                d = self.gen_enum(True)
            else:
                d = self.gen_alias(pool)
            defs.append(d)
            pool.append(Named(d.name, k, len(getattr(d, "tparams", ())), None, d))
        for _ in range(r.randint(*o.n_protocols)):
            defs.append(self.gen_protocol(pool))
        return Pkg(ns, defs, list(imports), [], dirname)


def gen_corpus_package(seed_key, opts: GenOpts | None = None, with_import: bool | None = None) -> Pkg:
    """One `ser`-corpus package (optionally importing a second generated package)."""
    from .common import rng
    r = rng("ser", seed_key)
    g = Gen(r, opts)
    imp = []
    if with_import is None:
        with_import = r.random() < 0.3
    if with_import:
        lib = g.gen_package("Lib%s" % "".join(ch for ch in str(seed_key) if ch.isalnum())[:6].capitalize(), (), None)
        if r.random() < 0.5:
            # yardl ignores protocols of imported packages; keeping them exercises that path
            lib.defs = [d for d in lib.defs if not isinstance(d, Proto)]
        imp = [lib]
    return g.gen_package("Mod%s" % "".join(ch for ch in str(seed_key) if ch.isalnum())[:6].capitalize(), imp)
