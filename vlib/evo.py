"""Schema-evolution workloads: the documented edit classes of docs/cpp/evolution.md applied at
arbitrary positions of harness packages, chains of versions, and their on-disk layout."""
from __future__ import annotations

import copy
import random
from dataclasses import replace

from . import common, emit, modelgen
from .model import *  # noqa

NUMS = ["int8", "uint8", "int16", "uint16", "int32", "uint32", "int64", "uint64", "size", "float32", "float64"]

# documented verdict classes
COMPATIBLE, PARTIAL, BREAKING = "compatible", "partial", "breaking"


# ----------------------------------------------------------------------------- type sites

def sites(pkg: Pkg):
    """All (definition index, member index, path) positions of type sub-terms in record fields,
    protocol steps and alias targets. path = tuple of selectors into the type."""
    out = []
    for di, d in enumerate(pkg.defs):
        members = []
        if isinstance(d, Rec):
            members = [(i, t) for i, (_, t) in enumerate(d.fields)]
        elif isinstance(d, Proto):
            members = [(i, t) for i, (_, t) in enumerate(d.steps)]
        elif isinstance(d, Al):
            members = [(0, d.type)]
        for mi, t in members:
            for path, sub in subterms(t):
                out.append((di, mi, path, sub))
    return out


def subterms(t, path=()):
    yield path, t
    if isinstance(t, U):
        for i, (_, c) in enumerate(t.cases):
            yield from subterms(c, path + (("case", i),))
    elif isinstance(t, (V, A, S)):
        yield from subterms(t.item, path + (("item",),))
    elif isinstance(t, M):
        yield from subterms(t.value, path + (("value",),))
    elif isinstance(t, N):
        for i, a in enumerate(t.args):
            yield from subterms(a, path + (("arg", i),))


def replace_at(t, path, new):
    if not path:
        return new
    head, rest = path[0], path[1:]
    if head[0] == "case":
        cases = list(t.cases)
        tag, c = cases[head[1]]
        cases[head[1]] = (tag, replace_at(c, rest, new))
        return replace(t, cases=tuple(cases))
    if head[0] == "item":
        return replace(t, item=replace_at(t.item, rest, new))
    if head[0] == "value":
        return M(t.key, replace_at(t.value, rest, new))
    if head[0] == "arg":
        args = list(t.args)
        args[head[1]] = replace_at(args[head[1]], rest, new)
        return replace(t, args=tuple(args))
    raise ValueError(head)


def set_member_type(pkg: Pkg, di, mi, t):
    d = pkg.defs[di]
    if isinstance(d, Rec):
        d.fields[mi] = (d.fields[mi][0], t)
    elif isinstance(d, Proto):
        d.steps[mi] = (d.steps[mi][0], t)
    else:
        d.type = t


def member_type(pkg: Pkg, di, mi):
    d = pkg.defs[di]
    if isinstance(d, Rec):
        return d.fields[mi][1]
    if isinstance(d, Proto):
        return d.steps[mi][1]
    return d.type


def in_generic_arg(path) -> bool:
    return any(p[0] == "arg" for p in path)


def in_union_case(path, t) -> bool:
    """true if the path passes through a case of a union with >= 2 cases (changing it may create duplicates)"""
    cur = t
    for p in path:
        if p[0] == "case":
            if len(cur.cases) >= 2:
                return True
            cur = cur.cases[p[1]][1]
        elif p[0] == "item":
            cur = cur.item
        elif p[0] == "value":
            cur = cur.value
        elif p[0] == "arg":
            cur = cur.args[p[1]]
    return False


def reachable_defs(pkg: Pkg) -> set:
    """names of definitions reachable from some protocol (only those are compared on the wire)"""
    byname = {d.name: d for d in pkg.defs}
    seen = set()

    def visit_type(t):
        for x in walk_types(t):
            if isinstance(x, N) and x.ns is None and x.name in byname and x.name not in seen:
                seen.add(x.name)
                d = byname[x.name]
                if isinstance(d, Rec):
                    for _, ft in d.fields:
                        visit_type(ft)
                elif isinstance(d, Al):
                    visit_type(d.type)
    for d in pkg.defs:
        if isinstance(d, Proto):
            seen.add(d.name)
            for _, st in d.steps:
                visit_type(st)
    return seen


# ----------------------------------------------------------------------------- edits
# each edit: fn(pkg(copy), rnd) -> dict(cls=..., name=..., where=...) or None when not applicable

def _pick(r, xs):
    xs = list(xs)
    return r.choice(xs) if xs else None


def e_number_change(pkg, r):
    cands = [(di, mi, p, s) for di, mi, p, s in sites(pkg) if isinstance(s, P) and s.name in NUMS and not in_generic_arg(p) and not in_union_case(p, member_type(pkg, di, mi))
             and not isinstance(pkg.defs[di], Al) and pkg.defs[di].name in reachable_defs(pkg) and not _under_key(member_type(pkg, di, mi), p)]
    c = _pick(r, cands)
    if not c:
        return None
    di, mi, p, s = c
    new = r.choice([n for n in NUMS if n != s.name and not (n in ("uint64", "size") and s.name in ("uint64", "size"))])
    set_member_type(pkg, di, mi, replace_at(member_type(pkg, di, mi), p, P(new)))
    return dict(cls=PARTIAL, name="number->number", where=(pkg.defs[di].name, mi, p), old=s.name, new=new)


def _under_key(t, path):
    return False


def e_number_string(pkg, r):
    cands = [(di, mi, p, s) for di, mi, p, s in sites(pkg) if isinstance(s, P) and (s.name in NUMS or s.name == "string") and not in_generic_arg(p) and not in_union_case(p, member_type(pkg, di, mi))
             and not isinstance(pkg.defs[di], Al) and pkg.defs[di].name in reachable_defs(pkg)]
    c = _pick(r, cands)
    if not c:
        return None
    di, mi, p, s = c
    new = r.choice(["int32", "int64", "float64", "uint16"]) if s.name == "string" else "string"
    set_member_type(pkg, di, mi, replace_at(member_type(pkg, di, mi), p, P(new)))
    return dict(cls=PARTIAL, name="number<->string", where=(pkg.defs[di].name, mi, p), old=s.name, new=new)


def _scalar_member_sites(pkg):
    """member-level sites (whole type of a field / step) whose type is a plain scalar: prim, record, enum"""
    out = []
    reach = reachable_defs(pkg)
    for di, d in enumerate(pkg.defs):
        if d.name not in reach:
            continue
        if isinstance(d, Rec):
            ms = list(enumerate(d.fields))
        elif isinstance(d, Proto):
            ms = list(enumerate(d.steps))
        else:
            continue
        for mi, (nm, t) in ms:
            out.append((di, mi, t))
    return out


def _container_underneath(pkg, t, depth=0):
    """"container" if t is (an alias chain ending in) a vector, array or map, "union" if it ends in a union, else False"""
    if isinstance(t, (V, A, M)):
        return "container"
    if isinstance(t, U) and not t.is_optional:
        return "union"
    if isinstance(t, N) and t.ns is None and depth < 20:
        d = pkg.find(t.name)
        if isinstance(d, Al) and not d.tparams:
            return _container_underneath(pkg, d.type, depth + 1)
    return False


def e_make_optional(pkg, r):
    c = _pick(r, [(di, mi, t) for di, mi, t in _scalar_member_sites(pkg) if isinstance(t, (P, N)) and not (isinstance(t, N) and t.args)])
    if not c:
        return None
    di, mi, t = c
    set_member_type(pkg, di, mi, Opt(t))
    return dict(cls=PARTIAL, name="T->T?", where=(pkg.defs[di].name, mi), container=_container_underneath(pkg, t))


def e_make_required(pkg, r):
    c = _pick(r, [(di, mi, t) for di, mi, t in _scalar_member_sites(pkg) if isinstance(t, U) and t.is_optional and isinstance(t.cases[0][1], (P, N))])
    if not c:
        return None
    di, mi, t = c
    set_member_type(pkg, di, mi, t.cases[0][1])
    return dict(cls=PARTIAL, name="T?->T", where=(pkg.defs[di].name, mi), container=_container_underneath(pkg, t.cases[0][1]))


def _extra_case(t, r):
    for cand in [P("string"), P("bool"), P("float64"), P("int32"), P("date")]:
        if not (isinstance(t, P) and (t.name == cand.name or (t.name in NUMS and cand.name in NUMS))):
            return cand
    return P("bool")


def e_optional_to_union(pkg, r):
    c = _pick(r, [(di, mi, t) for di, mi, t in _scalar_member_sites(pkg) if isinstance(t, U) and t.is_optional and isinstance(t.cases[0][1], P)])
    if not c:
        return None
    di, mi, t = c
    inner = t.cases[0][1]
    set_member_type(pkg, di, mi, U(((None, inner), (None, _extra_case(inner, r))), True))
    return dict(cls=PARTIAL, name="T?->[null,T,X]", where=(pkg.defs[di].name, mi))


def e_scalar_to_union(pkg, r):
    c = _pick(r, [(di, mi, t) for di, mi, t in _scalar_member_sites(pkg) if isinstance(t, P)])
    if not c:
        return None
    di, mi, t = c
    set_member_type(pkg, di, mi, U(((None, t), (None, _extra_case(t, r)))))
    return dict(cls=PARTIAL, name="T->[T,X]", where=(pkg.defs[di].name, mi))


def e_union_to_scalar(pkg, r):
    c = _pick(r, [(di, mi, t) for di, mi, t in _scalar_member_sites(pkg) if isinstance(t, U) and not t.nullable and len(t.cases) >= 2
                  and all(isinstance(x, P) for _, x in t.cases)])
    if not c:
        return None
    di, mi, t = c
    set_member_type(pkg, di, mi, t.cases[0][1])
    return dict(cls=PARTIAL, name="[T,X]->T", where=(pkg.defs[di].name, mi))


def e_add_union_case(pkg, r):
    cands = [(di, mi, p, s) for di, mi, p, s in sites(pkg) if isinstance(s, U) and len(s.cases) >= 2 and not s.explicit and not in_generic_arg(p)
             and all(isinstance(x, P) for _, x in s.cases) and not isinstance(pkg.defs[di], Al) and pkg.defs[di].name in reachable_defs(pkg)]
    c = _pick(r, cands)
    if not c:
        return None
    di, mi, p, s = c
    have = {x.name for _, x in s.cases}
    have_num = any(n in NUMS for n in have)
    new = _pick(r, [n for n in ["string", "bool", "date", "time", "complexfloat64"] if n not in have])
    if not new:
        return None
    set_member_type(pkg, di, mi, replace_at(member_type(pkg, di, mi), p, replace(s, cases=s.cases + ((None, P(new)),))))
    return dict(cls=PARTIAL, name="add-union-case", where=(pkg.defs[di].name, mi, p))


def e_remove_union_case(pkg, r):
    cands = [(di, mi, p, s) for di, mi, p, s in sites(pkg) if isinstance(s, U) and len(s.cases) >= 3 and not in_generic_arg(p)
             and not isinstance(pkg.defs[di], Al) and pkg.defs[di].name in reachable_defs(pkg)]
    c = _pick(r, cands)
    if not c:
        return None
    di, mi, p, s = c
    k = r.randrange(len(s.cases))
    set_member_type(pkg, di, mi, replace_at(member_type(pkg, di, mi), p, replace(s, cases=s.cases[:k] + s.cases[k + 1:])))
    return dict(cls=PARTIAL, name="remove-union-case", where=(pkg.defs[di].name, mi, p))


def _records(pkg):
    reach = reachable_defs(pkg)
    return [(di, d) for di, d in enumerate(pkg.defs) if isinstance(d, Rec) and d.name in reach]


def e_add_optional_field(pkg, r):
    c = _pick(r, _records(pkg))
    if not c:
        return None
    di, d = c
    d.fields.insert(r.randint(0, len(d.fields)), ("added%d" % r.randrange(10**6), Opt(P(r.choice(["int32", "string", "float64"])))))
    return dict(cls=COMPATIBLE, name="add-optional-field", where=(d.name,))


def e_remove_optional_field(pkg, r):
    c = _pick(r, [(di, d, i) for di, d in _records(pkg) for i, (_, t) in enumerate(d.fields) if isinstance(t, U) and t.is_optional and len(d.fields) > 1
                  and not (d.tparams and any(isinstance(x, TP) for x in walk_types(t)))])
    if not c:
        return None
    di, d, i = c
    del d.fields[i]
    return dict(cls=COMPATIBLE, name="remove-optional-field", where=(d.name, i))


def e_add_required_field(pkg, r):
    c = _pick(r, _records(pkg))
    if not c:
        return None
    di, d = c
    d.fields.insert(r.randint(0, len(d.fields)), ("addedReq%d" % r.randrange(10**6), r.choice([P("int32"), P("string"), V(P("float32")), P("bool")])))
    return dict(cls=PARTIAL, name="add-required-field", where=(d.name,))


def _nullable_through_aliases(pkg, t, depth=0) -> bool:
    """the type has a null case, directly or because it names an alias (possibly generic) of a type that has one: removing such a field is the
    *compatible* class 'removing an optional field', which needs no warning"""
    if isinstance(t, U):
        return t.nullable
    if isinstance(t, N) and t.ns is None and depth < 20:
        d = pkg.find(t.name)
        if isinstance(d, Al):
            return _nullable_through_aliases(pkg, d.type, depth + 1)
    return False


def e_remove_required_field(pkg, r):
    c = _pick(r, [(di, d, i) for di, d in _records(pkg) for i, (_, t) in enumerate(d.fields) if not _nullable_through_aliases(pkg, t) and len(d.fields) > 1
                  and not (d.tparams and any(isinstance(x, TP) for x in walk_types(t)))])
    if not c:
        return None
    di, d, i = c
    del d.fields[i]
    return dict(cls=PARTIAL, name="remove-required-field", where=(d.name, i))


def e_reorder_fields(pkg, r):
    c = _pick(r, [(di, d) for di, d in _records(pkg) if len(d.fields) >= 2])
    if not c:
        return None
    di, d = c
    old = list(d.fields)
    for _ in range(10):
        r.shuffle(d.fields)
        if d.fields != old:
            break
    else:
        return None
    return dict(cls=COMPATIBLE, name="reorder-fields", where=(d.name,))


def e_add_step(pkg, r):
    c = _pick(r, [(di, d) for di, d in enumerate(pkg.defs) if isinstance(d, Proto)])
    if not c:
        return None
    di, d = c
    t = r.choice([S(P("int32")), V(P("float32")), Opt(P("string")), S(P("string")), Opt(P("float64"))])
    how = "inline"
    if r.random() < 0.4:
        # the same kinds of type behind a name: an alias, an alias of an alias, an instance of a generic alias
        k = r.randrange(10**6)
        how = r.choice(["alias", "alias-of-alias", "generic-alias"])
        if how == "alias":
            pkg.defs.append(Al("AddedAli%d" % k, r.choice([V(P("int16")), Opt(P("string")), M(P("string"), P("int32"))])))
            t = N("AddedAli%d" % k)
        elif how == "alias-of-alias":
            pkg.defs.append(Al("AddedInner%d" % k, r.choice([V(P("float64")), Opt(P("int32"))])))
            pkg.defs.append(Al("AddedOuter%d" % k, N("AddedInner%d" % k)))
            t = N("AddedOuter%d" % k)
        else:
            pkg.defs.append(Al("AddedOptG%d" % k, Opt(TP("T")), ("T",)))
            t = N("AddedOptG%d" % k, (P("int32"),))
    d.steps.insert(r.randint(0, len(d.steps)), ("addedStep%d" % r.randrange(10**6), t))
    return dict(cls=COMPATIBLE, name="add-step(stream|vector|optional)", where=(d.name,), how=how)


def e_rename_with_alias(pkg, r):
    """rename a non-generic record/enum and keep the old name as an alias"""
    c = _pick(r, [(di, d) for di, d in enumerate(pkg.defs) if isinstance(d, (Rec, En)) and not getattr(d, "tparams", ()) and d.name in reachable_defs(pkg)])
    if not c:
        return None
    di, d = c
    old = d.name
    new = "Renamed%s%d" % (old, r.randrange(1000))
    d.name = new
    _rename_refs(pkg, old, new)
    pkg.defs.append(Al(old, N(new)))
    return dict(cls=COMPATIBLE, name="rename-via-alias", where=(old, new))


def _rename_refs(pkg, old, new):
    def ren(t):
        if isinstance(t, N):
            return N(new if (t.name == old and t.ns is None) else t.name, tuple(ren(a) for a in t.args), t.ns)
        if isinstance(t, U):
            return replace(t, cases=tuple((tag, ren(c)) for tag, c in t.cases))
        if isinstance(t, (V, A, S)):
            return replace(t, item=ren(t.item))
        if isinstance(t, M):
            return M(ren(t.key), ren(t.value))
        return t
    for d in pkg.defs:
        if isinstance(d, Rec):
            d.fields = [(n, ren(t)) for n, t in d.fields]
        elif isinstance(d, Proto):
            d.steps = [(n, ren(t)) for n, t in d.steps]
        elif isinstance(d, Al):
            d.type = ren(d.type)


def e_add_unused_alias(pkg, r):
    pkg.defs.append(Al("Unused%d" % r.randrange(10**6), r.choice([P("int32"), V(P("string")), M(P("string"), P("float64"))])))
    return dict(cls=COMPATIBLE, name="add-unused-type", where=())


def e_introduce_alias(pkg, r):
    """replace a type occurrence by a fresh alias of it (adding an alias to a type)"""
    cands = [(di, mi, p, s) for di, mi, p, s in sites(pkg) if isinstance(s, (P, V, M)) and not in_generic_arg(p) and not isinstance(pkg.defs[di], Al)
             and not any(isinstance(x, TP) for x in walk_types(s)) and not (isinstance(member_type(pkg, di, mi), S) and p == ())
             and not isinstance(s, S)]
    c = _pick(r, cands)
    if not c:
        return None
    di, mi, p, s = c
    nm = "Intro%d" % r.randrange(10**6)
    set_member_type(pkg, di, mi, replace_at(member_type(pkg, di, mi), p, N(nm)))
    pkg.defs.append(Al(nm, s))
    return dict(cls=COMPATIBLE, name="introduce-alias", where=(pkg.defs[di].name, mi, p), container=bool(p) and isinstance(s, (V, A, M)))


# --- breaking

def e_remove_step(pkg, r):
    c = _pick(r, [(di, d) for di, d in enumerate(pkg.defs) if isinstance(d, Proto) and len(d.steps) >= 2])
    if not c:
        return None
    di, d = c
    del d.steps[r.randrange(len(d.steps))]
    return dict(cls=BREAKING, name="remove-step", where=(d.name,))


def e_reorder_steps(pkg, r):
    c = _pick(r, [(di, d) for di, d in enumerate(pkg.defs) if isinstance(d, Proto) and len(d.steps) >= 2])
    if not c:
        return None
    di, d = c
    i = r.randrange(len(d.steps) - 1)
    if d.steps[i][1] == d.steps[i + 1][1]:
        return None
    d.steps[i], d.steps[i + 1] = d.steps[i + 1], d.steps[i]
    return dict(cls=BREAKING, name="reorder-steps", where=(d.name, i))


def e_change_enum(pkg, r):
    c = _pick(r, [(di, d) for di, d in enumerate(pkg.defs) if isinstance(d, En) and d.name in reachable_defs(pkg)])
    if not c:
        return None
    di, d = c
    lo, hi = INT_RANGE[d.base_prim]
    k = r.randrange(4)
    d.explicit_values = True
    if k == 3:
        # the same symbols, values and base, but an enum becomes flags or flags become an enum
        d.flags = not d.flags
        what = "enum<->flags"
    elif k == 0 and len(d.values) >= 2:
        d.values = list(d.values[:-1])
        what = "remove-symbol"
    elif k <= 1 and len(d.values) >= 1:
        used = {v for _, v in d.values}
        sym, v = d.values[0]
        nv = next(x for x in range(0, 300) if x not in used and x <= hi)
        d.values = [(sym, nv)] + list(d.values[1:])
        what = "change-value"
    else:
        nb = r.choice([b for b in ["int64", "uint64", "int32", "uint32"] if b != d.base_prim and all(INT_RANGE[b][0] <= v <= INT_RANGE[b][1] for _, v in d.values)] or [None])
        if nb is None:
            return None
        d.base = nb
        what = "change-base"
    return dict(cls=BREAKING, name="change-enum:" + what, where=(d.name,))


def e_scalar_to_vector(pkg, r):
    c = _pick(r, [(di, mi, t) for di, mi, t in _scalar_member_sites(pkg) if isinstance(t, P)])
    if not c:
        return None
    di, mi, t = c
    set_member_type(pkg, di, mi, r.choice([V(t), A(t, None), A(t, 2), V(t, 3)]))
    return dict(cls=BREAKING, name="scalar->vector/array", where=(pkg.defs[di].name, mi))


def e_change_type_arg(pkg, r):
    cands = [(di, mi, p, s) for di, mi, p, s in sites(pkg) if in_generic_arg(p) and p[-1][0] == "arg" and isinstance(s, P)
             and not any(q[0] == "case" for q in p)      # inside a union case it is also "adding / removing a union type" (partially compatible)
             and not isinstance(pkg.defs[di], Al) and pkg.defs[di].name in reachable_defs(pkg)]
    c = _pick(r, cands)
    if not c:
        return None
    di, mi, p, s = c
    new = P("string") if s.name != "string" else P("int32")
    set_member_type(pkg, di, mi, replace_at(member_type(pkg, di, mi), p, new))
    return dict(cls=BREAKING, name="change-type-argument", where=(pkg.defs[di].name, mi, p))


def e_fixed_to_variable(pkg, r):
    """a fixed-length vector / fixed-size array becomes variable-length (documented as incompatible: the encoding changes)"""
    cands = [(di, mi, p, s) for di, mi, p, s in sites(pkg) if ((isinstance(s, V) and s.length is not None) or (isinstance(s, A) and s.kind == "fixed"))
             and not in_generic_arg(p) and not any(q[0] == "case" for q in p)      # inside a union case it is also "adding / removing a union type"
             and not isinstance(pkg.defs[di], Al) and pkg.defs[di].name in reachable_defs(pkg)]
    c = _pick(r, cands)
    if not c:
        return None
    di, mi, p, s = c
    new = V(s.item) if isinstance(s, V) else A(s.item, tuple((n, None) for n, _ in s.dims) if all(n for n, _ in s.dims) else len(s.dims))
    set_member_type(pkg, di, mi, replace_at(member_type(pkg, di, mi), p, new))
    return dict(cls=BREAKING, name="fixed-to-variable-length", where=(pkg.defs[di].name, mi, p))


def e_inline_alias_with_other_arg(pkg, r):
    """a reference to a closed alias of a generic (GenOfInt = Gen<int32>) is replaced by the generic with a different type argument"""
    cands = []
    for di, mi, p, s in sites(pkg):
        if isinstance(s, N) and s.ns is None and not s.args and not in_generic_arg(p) and pkg.defs[di].name in reachable_defs(pkg):
            d = pkg.find(s.name)
            if isinstance(d, Al) and not d.tparams and isinstance(d.type, N) and d.type.args and all(isinstance(a, P) for a in d.type.args):
                cands.append((di, mi, p, d.type))
    c = _pick(r, cands)
    if not c:
        return None
    di, mi, p, gt = c
    new_args = tuple(P("float64") if a.name != "float64" else P("int16") for a in gt.args)
    set_member_type(pkg, di, mi, replace_at(member_type(pkg, di, mi), p, N(gt.name, new_args, gt.ns)))
    return dict(cls=BREAKING, name="inline-alias-with-other-type-argument", where=(pkg.defs[di].name, mi, p))


def e_change_generic_arity(pkg, r):
    c = _pick(r, [(di, d) for di, d in enumerate(pkg.defs) if isinstance(d, Rec) and d.tparams and d.name in reachable_defs(pkg)])
    if not c:
        return None
    di, d = c
    extra = "TX%d" % r.randrange(100)
    d.tparams = tuple(d.tparams) + (extra,)
    d.fields.append(("extraParam%d" % r.randrange(1000), Opt(TP(extra))))

    def fix(t):
        if isinstance(t, N):
            args = tuple(fix(a) for a in t.args)
            if t.name == d.name and t.ns is None:
                args = args + (P("int32"),)
            return N(t.name, args, t.ns)
        if isinstance(t, U):
            return replace(t, cases=tuple((tag, fix(c)) for tag, c in t.cases))
        if isinstance(t, (V, A, S)):
            return replace(t, item=fix(t.item))
        if isinstance(t, M):
            return M(fix(t.key), fix(t.value))
        return t
    for x in pkg.defs:
        if isinstance(x, Rec):
            x.fields = [(n, fix(t)) for n, t in x.fields]
        elif isinstance(x, Proto):
            x.steps = [(n, fix(t)) for n, t in x.steps]
        elif isinstance(x, Al):
            x.type = fix(x.type)
    return dict(cls=BREAKING, name="change-generic-arity", where=(d.name,))


EDITS = {
    COMPATIBLE: [e_add_optional_field, e_remove_optional_field, e_reorder_fields, e_add_step, e_rename_with_alias, e_add_unused_alias, e_introduce_alias],
    PARTIAL: [e_number_change, e_number_string, e_make_optional, e_make_required, e_optional_to_union, e_scalar_to_union, e_union_to_scalar,
              e_add_union_case, e_remove_union_case, e_add_required_field, e_remove_required_field],
    BREAKING: [e_remove_step, e_reorder_steps, e_change_enum, e_scalar_to_vector, e_change_type_arg, e_change_generic_arity, e_fixed_to_variable, e_inline_alias_with_other_arg],
}
ALL_EDITS = [e for v in EDITS.values() for e in v]


def apply_edit(pkg: Pkg, edit, r: random.Random):
    p2 = copy.deepcopy(pkg)
    info = edit(p2, r)
    if info is None:
        return None, None
    return p2, info


# ----------------------------------------------------------------------------- base packages & chains

def evo_base(key: str, rich: bool = True) -> Pkg:
    """A valid base package for evolution work (namespace Evo, no imports)."""
    r = common.rng("evobase", key)
    o = modelgen.GenOpts(max_depth=2, n_defs=(4, 8), n_protocols=(1, 2), n_steps=(2, 5), generics=True,
                         prims=tuple(p for p in PRIMS if p not in ("complexfloat32", "complexfloat64")))
    g = modelgen.Gen(r, o)
    pkg = g.gen_package("Evo", (), "v0")
    # make sure some friendly edit sites exist
    pkg.defs.insert(0, Rec("Plain", [("num", P("int32")), ("txt", P("string")), ("maybe", Opt(P("float64"))), ("choice", U(((None, P("int32")), (None, P("string")), (None, P("bool")))))]))
    pkg.defs.insert(1, En("Kind", [("ka", 0), ("kb", 1), ("kc", 2)], None, False, False))
    pkg.defs.insert(2, Rec("Gen", [("g", TP("T")), ("cnt", P("uint32"))], ("T",)))
    # two instantiations of one generic; OnlyViaArg is reachable only through the type argument of the second one
    pkg.defs.insert(3, Rec("OnlyViaArg", [("r", P("int32")), ("name", P("string")), ("w", Opt(P("float32")))]))
    pkg.defs.insert(4, Rec("TwoGens", [("first", N("Gen", (P("float32"),))), ("second", N("Gen", (N("OnlyViaArg"),)))]))
    # a closed alias of a generic, fixed-length vectors and fixed-size arrays
    pkg.defs.insert(5, Al("GenOfInt", N("Gen", (P("int32"),))))
    pkg.defs.insert(6, Rec("Shapes", [("viaAlias", N("GenOfInt")), ("fixedVec", V(P("int32"), 3)), ("fixedArr", A(P("float32"), (("x", 4), ("y", 5)))), ("fixedArrNoNames", A(P("int16"), ((None, 2),)))]))
    proto = Proto("Main", [("head", N("Plain")), ("count", P("int64")), ("kind", N("Kind")), ("gen", N("Gen", (P("int32"),))), ("two", S(N("TwoGens"))), ("shapes", N("Shapes")), ("galias", N("GenOfInt")),
                           ("opt", Opt(P("int32"))), ("items", S(N("Plain"))), ("nums", V(P("float32"))), ("tail", P("string"))])
    pkg.defs.append(proto)
    return pkg


def gen_chain(key: str, length: int = 3, edits_per_step: int = 2, classes=(COMPATIBLE, PARTIAL)) -> list:
    """[M0 .. Mk]: each version obtained from the previous by `edits_per_step` accepted edits."""
    r = common.rng("chain", key)
    cur = evo_base(key)
    chain = [cur]
    pool = [e for c in classes for e in EDITS[c]]
    for k in range(1, length):
        nxt = cur
        infos = []
        for _ in range(edits_per_step * 4):
            if len(infos) >= edits_per_step:
                break
            p2, info = apply_edit(nxt, r.choice(pool), r)
            if p2 is not None:
                nxt = p2
                infos.append(info)
        nxt = copy.deepcopy(nxt)
        nxt.dirname = "v%d" % k
        nxt.edits = infos
        chain.append(nxt)
        cur = nxt
    return chain


def chain_files(chain: list, outputs: dict | None = None, style=None, labels=None) -> dict:
    """On-disk layout: every version in its own directory; the newest lists all predecessors."""
    files = {}
    last = chain[-1]
    labels = labels or ["v%d" % i for i in range(len(chain) - 1)]
    for i, p in enumerate(chain):
        man = "namespace: %s\n" % p.ns
        if p is last:
            if len(chain) > 1:
                man += "versions:\n" + "".join("  %s: ../%s\n" % (labels[j], chain[j].dir) for j in range(len(chain) - 1))
            for section, opts in (outputs or {}).items():
                man += "%s:\n" % section + "".join("  %s: %s\n" % (k, ("true" if v else "false") if isinstance(v, bool) else v) for k, v in opts.items())
        files[p.dir + "/_package.yml"] = man
        files[p.dir + "/model.yml"] = emit.emit_defs(p.defs, style)
    return files
