"""Self-test of the trusted base against the worked examples in docs/reference/*.md
(run by setup_cmd). Exits non-zero if the reference codec disagrees with the documentation."""
from __future__ import annotations

import json
import re
import sys

from .model import *  # noqa
from .refcodec import Codec, F, f32, f64, zigzag, unzigzag, put_uvarint, Reader
from . import common


def doc(path):
    with open(common.REPO + "/docs/reference/" + path) as f:
        return f.read()


def test_varint_tables():
    for n, want in [(0, "00"), (1, "01"), (127, "7f"), (128, "8001"), (129, "8101")]:
        b = bytearray()
        put_uvarint(b, n)
        assert b.hex() == want, (n, b.hex())
        assert Reader(bytes(b)).uvarint() == n
    for v, z in [(0, 0), (-1, 1), (1, 2), (-2, 3), (2, 4)]:
        assert zigzag(v) == z and unzigzag(z) == v


def test_binary_example():
    text = doc("binary.md")
    hexes = re.findall(r"^HEX:\s+((?:[0-9a-f]{2} ?)+)$", text, re.M)
    assert len(hexes) == 2, len(hexes)
    want = bytes.fromhex(hexes[0].replace(" ", "") + hexes[1].replace(" ", ""))
    Point = Rec("Point", [("x", P("uint64")), ("y", P("int32"))])
    proto = Proto("MyProtocol", [("floatArray", A(P("float32"), ((None, 2), (None, 2)))), ("points", S(N("Point")))])
    c = Codec(Pkg("Sandbox", [proto, Point]))
    r, schema = c.decode_header(want)
    vals = [((2, 2), [f32(1.2), f32(3.4), f32(5.6), f32(7.8)]),
            [[1, 2], [3, 4], [5, 6], [700, 800], [800000, -900000]]]
    got = c.encode_stream(proto, schema, vals, partitions={1: [3, 2]})
    assert got == want, "binary.md worked example: reference encoder disagrees"
    d = c.decode_stream(proto, want)
    assert d["values"] == vals and d["partitions"] == {1: [3, 2]} and d["end"] == len(want)
    # union example table
    u = U(((None, P("uint32")), (None, P("float32"))), True)
    for v, hx in [(None, "00"), ((0, 6), "0106"), ((1, F(0x42BF70A4, 32)), "02a470bf42")]:
        b = bytearray()
        c.enc(u, v, b)
        assert b.hex() == hx, (v, b.hex())
    b = bytearray()
    c.enc(P("string"), "hello", b)
    assert b.hex() == "0568656c6c6f"


def test_ndjson_example():
    text = doc("ndjson.md")
    m = re.search(r"```json\n(.*?)```", text, re.S)
    lines = [l for l in m.group(1).split("\n") if l.strip()]
    MyRecord = Rec("MyRecord", [("x", P("int32")), ("y", P("int32")), ("z", Opt(P("int32")))])
    MyEnum = En("MyEnum", [("a", 0), ("b", 1), ("c", 2)], None, False, False)
    MyFlags = En("MyFlags", [("a", 1), ("b", 2), ("c", 4)], None, True, False)
    steps = [("anIntStream", S(P("int32"))), ("aBoolean", P("bool")), ("aString", P("string")),
             ("aComplex", P("complexfloat64")), ("aDate", P("date")), ("aTime", P("time")), ("aDateTime", P("datetime")),
             ("anEnum", N("MyEnum")), ("someFlags", N("MyFlags")), ("anOptionalIntThatIsNotSet", Opt(P("int32"))),
             ("anOptionalIntThatIsSet", Opt(P("int32"))), ("aRecordWithOptionalNotSet", N("MyRecord")),
             ("aRecordWithOptionalSet", N("MyRecord")), ("aVector", V(P("int32"))), ("aDynamicArray", A(P("int32"), None)),
             ("aFixedArray", A(P("int32"), ((None, 2), (None, 3)))), ("aMapWithAStringKey", M(P("string"), P("int32"))),
             ("aMapWithAnIntKey", M(P("int32"), P("int32"))),
             ("aUnionWithSimpleRepresentation", U(((None, P("int32")), (None, P("bool"))))),
             ("aUnionRequiringTag", U(((None, P("string")), (None, N("MyEnum")))))]
    proto = Proto("HelloNDJson", steps)
    c = Codec(Pkg("Sandbox", [MyRecord, MyEnum, MyFlags, proto]))
    d = c.parse_ndjson(proto, "\n".join(lines))
    from .refcodec import str_to_date, str_to_time, str_to_datetime
    want = [[1, 2, 3], True, "hello", (f64(1.0), f64(2.0)), str_to_date("2020-01-17"), str_to_time("10:50:25.777888999"),
            str_to_datetime("2023-05-30T18:36:56.708792349Z"), 0, 3, None, (0, 42), [1, 2, None], [1, 2, (0, 3)],
            [1, 2, 3], ((2, 3), [1, 2, 3, 4, 5, 6]), ((2, 3), [1, 2, 3, 4, 5, 6]), [("b", 2), ("a", 1)], [(2, 2), (1, 1)],
            (0, 22), (0, "a")]
    assert d["values"] == want, "ndjson.md example: reference reader disagrees: %r" % (d["values"],)
    out = c.ndjson_lines(proto, json.dumps(d["schema"]), want)
    for a, b in zip(out[1:], lines[1:]):
        ja, jb = json.loads(a), json.loads(b)
        if "aDateTime" in jb:
            jb["aDateTime"] = jb["aDateTime"].rstrip("Z")
        assert ja == jb, "ndjson.md example line differs: %s vs %s" % (a, b)
    assert len(out) == len(lines)
    assert str_to_date("1970-01-01") == 0 and str_to_time("00:00:01") == 10**9


def main():
    test_varint_tables()
    test_binary_example()
    test_ndjson_example()
    print("selftest: reference codec agrees with the worked examples of docs/reference/{binary,ndjson}.md")
    return 0


if __name__ == "__main__":
    sys.exit(main())
