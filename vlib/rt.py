"""Round-trip machinery shared by C01/C02/C03/C17: endpoints (generated C++ driver flavours,
generated Python worker), reference encoding of inputs and the output oracle."""
from __future__ import annotations

import json
import os
import re

from . import common, corpus, cxx, mut, values
from .common import Inconclusive
from .model import *  # noqa
from .refcodec import CodecError, canon_steps, first_diff


class Result:
    """Outcome of one copy through generated code (uniform over C++ / Python)."""

    def __init__(self, rc, sig, out: bytes, err: str, timed_out=False, cpu_exceeded=False, errclass="other"):
        self.rc, self.sig, self.out, self.stderr = rc, sig, out, err
        self.timed_out, self.cpu_exceeded, self.errclass = timed_out, cpu_exceeded, errclass


CPP_ERR_CLASSES = ["Invalid read of size", "Invalid write of size", "uninitialised value", "uninitialised byte", "Unexpected end of stream", "not completely read", "Invalid union index", "bad_alloc",
                   "does not match any version", "Invalid magic", "Unsupported", "Expected to call", "json",
                   "schema", "AddressSanitizer", "runtime error:", "Assertion"]


def cpp_errclass(stderr: str) -> str:
    for k in CPP_ERR_CLASSES:
        if k in stderr:
            return k.replace(" ", "-").strip(":")
    return "other"


class CppEndpoint:
    def __init__(self, m: mut.Mut, flavor="plain", bufs=None, empty_batches=False):
        self.m, self.flavor, self.bufs, self.empty_batches = m, flavor, bufs, empty_batches
        self.name = "cpp-" + flavor + ("-emptybatches" if empty_batches else "")

    def copy(self, proto: str, infmt: str, outfmt: str, data: bytes, **kw) -> Result:
        p = self.m.cpp_copy(proto, infmt, outfmt, data, flavor=self.flavor, bufs=kw.get("bufs", self.bufs),
                            version=kw.get("version"), empty_batches=self.empty_batches, in_file=kw.get("in_file"),
                            out_file=kw.get("out_file"), first=kw.get("first"))
        return Result(p.rc, p.sig, p.out, p.stderr, p.timed_out, p.cpu_exceeded, cpp_errclass(p.stderr))


class PyEndpoint:
    def __init__(self, m: mut.Mut, mode="copy_to", in_how=None, out_how=None):
        self.m, self.mode, self.in_how, self.out_how = m, mode, in_how, out_how
        self.name = "py" + ("" if mode == "copy_to" else "-" + mode) + ("" if not in_how else "-" + in_how)

    def copy(self, proto: str, infmt: str, outfmt: str, data: bytes, **kw) -> Result:
        w = self.m.py()
        if not w.hello.get("ready"):
            return Result(3, None, b"", "python import failed: %s\n%s" % (w.hello.get("error"), w.hello.get("tb", "")),
                          errclass="ImportFailed" + py_import_errclass(w.hello.get("error")))
        res, out = w.copy(proto, infmt, outfmt, data, mode=kw.get("mode", self.mode), in_how=self.in_how, out_how=self.out_how)
        if res.get("died"):
            return Result(None, 9, out, res.get("error", ""), errclass="worker-died")
        if res.get("ok"):
            return Result(0, None, out, "")
        return Result(3, None, out, res.get("error", "") + "\n" + res.get("tb", ""),
                      errclass="%s@%s" % (res.get("etype", "?"), res.get("where", "?")))


def py_import_errclass(err: str) -> str:
    """identity of known import failures of generated Python packages"""
    err = str(err)
    if "Too many arguments for numpy.ndarray" in err:
        return ":ndarray-of-fixed-vector-annotation"
    if re.search(r"cannot import name '\w+Or\w+' from '[\w.]+\.types'", err):
        return ":missing-union-class"
    if re.search(r"NameError: name '\w+_NP' is not defined|name '\w+_NP' is not defined", err):
        return ":np-typevar-in-dtype-map"
    return ""


_NUMERIC = {"bool", "int8", "uint8", "int16", "uint16", "int32", "uint32", "int64", "uint64", "size", "float32", "float64",
            "complexfloat32", "complexfloat64"}


def py_triggers(m: mut.Mut, proto: Proto) -> str:
    """Structural predicates (trigger half of known-finding identities) for Python endpoints."""
    c = m.codec
    seen, hit = set(), [False]

    def walk(t):
        t = c.res(t)
        key = repr(t)
        if key in seen:
            return
        seen.add(key)
        if isinstance(t, A):
            it = c.res(t.item)
            if not (isinstance(it, P) and it.name in _NUMERIC):
                hit[0] = True
        if isinstance(t, N):
            d, _ = c.env.lookup(t)
            if isinstance(d, Rec):
                for _, ft in record_fields(c.env, t):
                    walk(ft)
            return
        if isinstance(t, U):
            for _, x in t.cases:
                walk(x)
        elif isinstance(t, (V, A, S)):
            walk(t.item)
        elif isinstance(t, M):
            walk(t.key)
            walk(t.value)

    for _, stp in proto.steps:
        walk(c.fq(stp))
    return "[ndarray-compound]" if hit[0] else ""


def ndjson_tag_collision_trigger(m: mut.Mut, proto: Proto) -> str:
    """Trigger half of a known-finding identity: the package contains two unions with the same case *types* but different tags (they are
    one std::variant type in C++, which has a single NDJSON converter), and this protocol uses one of them."""
    c = m.codec
    groups: dict = {}

    def deep(t, depth=0):
        """the type with every alias resolved at every level (MxLabel->int32 and string->int32 are one C++ type), as text"""
        t = c.res(c.fq(t))
        if depth > 8:
            return repr(t)
        if isinstance(t, M):
            return "M(%s,%s)" % (deep(t.key, depth + 1), deep(t.value, depth + 1))
        if isinstance(t, V):
            return "V(%s,%r)" % (deep(t.item, depth + 1), getattr(t, "length", None))
        if isinstance(t, U):
            return "U(%r,%s)" % (t.nullable, ",".join(deep(x, depth + 1) for _, x in t.cases))
        return repr(t)

    def key(u):
        try:
            return (u.nullable, tuple(deep(ct) for _, ct in u.cases))
        except Exception:
            return (u.nullable, tuple(repr(ct) for _, ct in u.cases))

    def tags(u):
        try:
            return tuple(c.case_tag(u, i) for i in range(len(u.cases)))
        except CodecError:
            return ("?",)

    def collect(t, into):
        for x in walk_types(t):
            if isinstance(x, U) and len(x.cases) > 1:
                into.setdefault(key(x), set()).add(tags(x))

    for d in m.pkg.defs:
        if isinstance(d, Rec):
            for _, ft in d.fields:
                collect(ft, groups)
        elif isinstance(d, Al):
            collect(d.type, groups)
        elif isinstance(d, Proto):
            for _, st in d.steps:
                collect(st, groups)
    mine: dict = {}
    seen = set()

    def reach(t):
        for x in walk_types(t):
            if isinstance(x, U) and len(x.cases) > 1:
                mine.setdefault(key(x), set())
            if isinstance(x, N) and x.ns is None and x.name not in seen:
                seen.add(x.name)
                d = m.pkg.find(x.name)
                if isinstance(d, Rec):
                    for _, ft in d.fields:
                        reach(ft)
                elif isinstance(d, Al):
                    reach(d.type)

    for _, st in proto.steps:
        reach(st)
    return "[same-variant-different-tags]" if any(len(groups.get(k, ())) > 1 for k in mine) else ""


def decode_output(m: mut.Mut, proto: Proto, fmt: str, out: bytes) -> dict:
    """-> dict(values, problems[list of (kind, text)])"""
    c = m.codec
    probs = []
    if fmt == "bin":
        d = c.decode_stream(proto, out)
        if d["schema"] != m.schema(proto.name):
            probs.append(("schema", "header schema differs from the schema literal"))
        if d["end"] != len(out):
            probs.append(("trailing", "%d trailing bytes after the last step" % (len(out) - d["end"])))
        if d["nonminimal"]:
            probs.append(("nonminimal-varint", "%d non-minimal varints" % d["nonminimal"]))
        return {"values": d["values"], "problems": probs, "partitions": d["partitions"]}
    text = out.decode("utf-8")
    d = c.parse_ndjson(proto, text)
    if d["schema"] != json.loads(m.schema(proto.name)):
        probs.append(("schema", "NDJSON header schema is not JSON-equal to the schema literal"))
    return {"values": d["values"], "problems": probs}


def save_input(ctx, name: str, data: bytes) -> str:
    d = os.path.join(ctx.workdir, "inputs")
    os.makedirs(d, exist_ok=True)
    p = os.path.join(d, name)
    with open(p, "wb") as f:
        f.write(data)
    return p


def judge(ctx, m: mut.Mut, proto: Proto, vals, data: bytes, r: Result, ep_name: str, outfmt: str, what: str,
          extra: dict | None = None) -> bool:
    """The output oracle for a copy of a *valid* stream. True if it held."""
    c = m.codec
    sig = msg = None
    if r.timed_out:
        raise Inconclusive("wall-clock watchdog fired: %s" % what)
    if r.cpu_exceeded:
        sig, msg = "hang:%s" % ep_name, "CPU limit exceeded"
    elif r.sig is not None:
        sig, msg = "crash:%s:%s" % (ep_name, r.errclass), "died with signal %s: %s" % (r.sig, r.stderr[-800:])
    elif r.rc != 0:
        trig = py_triggers(m, proto) if ep_name.startswith("py") else ""
        sig, msg = "reject:%s:%s%s" % (ep_name, r.errclass, trig), "valid stream rejected rc=%s: %s" % (r.rc, r.stderr[-600:])
    else:
        try:
            d = decode_output(m, proto, outfmt, r.out)
        except (CodecError, UnicodeDecodeError, ValueError, KeyError, IndexError, TypeError) as e:
            sig, msg = "undecodable:%s:%s" % (ep_name, outfmt), "output does not follow the published %s format: %s: %s" % (outfmt, type(e).__name__, e)
        else:
            if d["problems"]:
                kind, text = d["problems"][0]
                sig, msg = "%s:%s" % (kind, ep_name), text
            else:
                df = first_diff(canon_steps(c, proto, vals), canon_steps(c, proto, d["values"]))
                if df:
                    sig, msg = "value:%s:%s" % (ep_name, "len" if "length" in df else "val"), "values differ at %s" % df
    if sig:
        sig += (extra or {}).get("trigger", "")
        ip = save_input(ctx, "%s_%s_%08x.in" % (proto.name, ep_name, abs(hash(data)) & 0xFFFFFFFF), data)
        case = dict(extra or {}, model_dir=m.root, protocol=proto.name, endpoint=ep_name, outfmt=outfmt, input_path=ip,
                    values=repr(vals)[:2500], stderr=r.stderr[-1500:], output_head=r.out[:300])
        ctx.violation(sig, "%s: %s" % (what, msg), case)
        return False
    return True


def prepare_model(ctx, key: str, pkg: Pkg, flavors=("plain",), **kw):
    """Generates + builds; returns Mut or None (after reporting / counting)."""
    try:
        m = corpus.prepare(ctx.workdir, key, pkg, **kw)
    except mut.GenerateFailed as e:
        ctx.violation("generate-failed", "generator-valid model rejected or crashed: %s" % str(e)[:800],
                      {"key": key, "stderr": e.proc.stderr[-2000:]})
        return None
    try:
        for fl in flavors:
            m.cpp_exe(fl)
    except cxx.CompileError as e:
        # whether accepted packages always compile is C08's business; here the model is skipped
        ctx.count("skipped.cpp_compile_failed")
        ctx.extra.setdefault("skipped_models", []).append({"key": key, "error": str(e)[-400:]})
        m.close()
        return None
    return m


def sweep_jobs(m: mut.Mut, pkg: Pkg, cases, offsets, boundary=65536):
    """(proto, values, partitions, offset, kind) for every sweep protocol x offset: the value (or the
    first block header) starts exactly at byte `boundary+offset` of the stream."""
    from .refcodec import put_uvarint
    c = m.codec
    jobs = []
    for pname, kind, t, v in cases:
        proto = pkg.find(pname)
        base = c.encode_stream(proto, m.schema(pname), ["", None, 0], upto=0)
        for off in offsets:
            target = boundary + off
            padlen = None
            for cand in range(max(0, target - len(base) - 4), target - len(base)):
                hdr = bytearray()
                put_uvarint(hdr, cand)
                if len(base) + len(hdr) + cand == target:
                    padlen = cand
                    break
            if padlen is None:
                continue
            val = [v, v, v] if kind == "stream" else v
            jobs.append((proto, ["p" * padlen, val, 0xDEADBEEF], {1: [2, 1]} if kind == "stream" else None, off, kind))
    return jobs
