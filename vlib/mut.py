"""Model under test: a harness package written to disk, run through the real `yardl generate`,
with its generated C++ compiled into a driver and its generated Python loaded in a worker."""
from __future__ import annotations

import json
import os
import re
import subprocess
import threading

from . import common, cxx, emit
from .common import Inconclusive, PY, ROOT
from .model import Pkg, Proto
from .refcodec import Codec


def snake(ns: str) -> str:
    """only used to *locate* the generated Python package directory (verified on disk)"""
    return ns


class GenerateFailed(Exception):
    def __init__(self, proc):
        super().__init__("yardl generate failed: rc=%s %s" % (proc.rc, proc.stderr[-1500:]))
        self.proc = proc


class Mut:
    def __init__(self, pkg: Pkg, root: str, style: emit.Style | None = None, langs=("cpp", "python"),
                 layout=None, cpp_opts: dict | None = None, matlab=False, json_out=False):
        self.pkg, self.root = pkg, root
        self.style, self.layout = style, layout
        self.langs = langs
        self.codec = Codec(pkg)
        self.cpp_opts = cxx.cpp_gen_options(cpp_opts)
        self.matlab, self.json_out = matlab, json_out
        self.pkgdir = os.path.join(root, pkg.dir)
        self.out = os.path.join(root, "out")
        self.home = os.path.join(root, "home")
        self.gen_proc = None
        self._exe: dict = {}
        self._py = None
        self._schemas: dict = {}
        self._lock = threading.Lock()

    # ------------------------------------------------------------------ generation
    def write(self):
        outs = emit.default_outputs("../out", cpp="cpp" in self.langs, python="python" in self.langs,
                                    matlab=self.matlab, json=self.json_out, cpp_opts=self.cpp_opts)
        files = emit.package_files(self.pkg, self.style, outs, self.layout)
        common.write_tree(self.root, files)
        os.makedirs(self.home, exist_ok=True)
        return files

    def generate(self, event_log: str | None = None):
        self.write()
        y = common.build_yardl()
        p = common.run([y, "generate"], cwd=self.pkgdir, env=common.yardl_env(self.home, event_log))
        self.gen_proc = p
        if p.rc != 0:
            raise GenerateFailed(p)
        return p

    @property
    def cpp_dir(self):
        return os.path.join(self.out, "cpp")

    @property
    def py_dir(self):
        return os.path.join(self.out, "python")

    def py_pkg_name(self) -> str:
        ents = [e for e in os.listdir(self.py_dir) if os.path.isdir(os.path.join(self.py_dir, e)) and not e.startswith("__")]
        if len(ents) != 1:
            raise Inconclusive("expected exactly one generated python package, found %r" % ents)
        return ents[0]

    # ------------------------------------------------------------------ schemas
    def cpp_schema(self, proto: str) -> str:
        src = open(os.path.join(self.cpp_dir, "protocols.cc")).read()
        m = re.search(r'std::string %sWriterBase::schema_ = R"\((.*?)\)";' % re.escape(proto), src, re.S)
        if not m:
            raise Inconclusive("schema literal of %s not found in protocols.cc" % proto)
        return m.group(1)

    def py_schema(self, proto: str) -> str:
        src = open(os.path.join(self.py_dir, self.py_pkg_name(), "protocols.py")).read()
        m = re.search(r'class %sWriterBase\(abc\.ABC\):.*?\n    schema = r"""(.*?)"""' % re.escape(proto), src, re.S)
        if not m:
            raise Inconclusive("schema literal of %s not found in protocols.py" % proto)
        return m.group(1)

    def schema(self, proto: str) -> str:
        if proto not in self._schemas:
            self._schemas[proto] = self.cpp_schema(proto) if "cpp" in self.langs else self.py_schema(proto)
        return self._schemas[proto]

    # ------------------------------------------------------------------ C++
    def cpp_exe(self, flavor: str = "plain") -> str:
        with self._lock:
            if flavor not in self._exe:
                # "valgrind" is the NDEBUG build run under valgrind memcheck (cxx.run_driver adds the wrapper)
                self._exe[flavor] = cxx.build(self.cpp_dir, "ndebug" if flavor == "valgrind" else flavor)
            return self._exe[flavor]

    def cpp_copy(self, proto: str, infmt: str, outfmt: str, data: bytes, flavor: str = "plain",
                 bufs=None, version: str | None = None, skip_close=False, cpu_s: int = 20, empty_batches=False, in_file: str | None = None,
                 out_file: str | None = None, first: tuple | None = None):
        """out_file: the writer is constructed through its file-name constructor; the file's content is returned as the output.
        first: (protocol, format, file): a complete copy of that stream is made in the same process before the main one."""
        args = [proto, infmt, outfmt]
        if in_file:
            args += ["--in-file", in_file]
        if first:
            args += ["--first"] + list(first)
        if out_file:
            args += ["--out-file", out_file]
            p = cxx.run_driver(self.cpp_exe(flavor), args + (["--bufs", ",".join(map(str, bufs))] if bufs else []) + (["--version", version] if version else []), data, flavor, cpu_s=cpu_s)
            try:
                with open(out_file, "rb") as f:
                    p.out = f.read()
            except OSError:
                pass
            return p
        if empty_batches:
            args.append("--empty-batches")
        if bufs:
            args += ["--bufs", ",".join(map(str, bufs))]
        if version:
            args += ["--version", version]
        if skip_close:
            args += ["--skip-close"]
        return cxx.run_driver(self.cpp_exe(flavor), args, data, flavor, cpu_s=(max(cpu_s, 120) if flavor == "valgrind" else cpu_s))

    # ------------------------------------------------------------------ Python
    def py(self) -> "PyWorker":
        with self._lock:
            if self._py is None or not self._py.alive():
                self._py = PyWorker(self.py_dir, self.py_pkg_name(), os.path.join(self.root, "pyio"))
            return self._py

    def close(self):
        if self._py is not None:
            self._py.close()
            self._py = None


class PyWorker:
    def __init__(self, py_dir: str, pkg_name: str, iodir: str):
        self.iodir = iodir
        os.makedirs(iodir, exist_ok=True)
        self.n = 0
        self.lock = threading.Lock()
        env = dict(os.environ, PYTHONDONTWRITEBYTECODE="1", PYTHONHASHSEED="0")
        self.errlog = open(os.path.join(iodir, "worker.stderr"), "wb")
        self.p = subprocess.Popen([PY, "-X", "dev", "-W", "ignore", os.path.join(ROOT, "vlib", "pyworker.py"), py_dir, pkg_name],
                                  stdin=subprocess.PIPE, stdout=subprocess.PIPE, stderr=self.errlog, env=env, text=True)
        line = self.p.stdout.readline()
        try:
            self.hello = json.loads(line)
        except ValueError:
            self.hello = {"ready": False, "error": "no hello from worker: %r" % line}
        self.protocols = self.hello.get("protocols", [])

    def alive(self):
        return self.p.poll() is None

    def cmd(self, c: dict) -> dict:
        with self.lock:
            try:
                self.p.stdin.write(json.dumps(c) + "\n")
                self.p.stdin.flush()
                line = self.p.stdout.readline()
            except (BrokenPipeError, OSError) as e:
                return {"ok": False, "error": "worker died: %r" % (e,), "died": True}
            if not line:
                return {"ok": False, "error": "worker died (rc=%s)" % self.p.poll(), "died": True}
            return json.loads(line)

    def copy(self, proto: str, infmt: str, outfmt: str, data: bytes, mode="copy_to", in_how=None, out_how=None):
        """-> (result dict, output bytes)"""
        with self.lock:
            self.n += 1
            n = self.n
        ip = os.path.join(self.iodir, "in%d" % n)
        op = os.path.join(self.iodir, "out%d" % n)
        with open(ip, "wb") as f:
            f.write(data)
        if os.path.exists(op):
            os.unlink(op)
        res = self.cmd({"op": "copy", "proto": proto, "in": infmt, "out": outfmt, "in_path": ip, "out_path": op,
                        "mode": mode, "in_how": in_how, "out_how": out_how})
        out = b""
        if os.path.exists(op):
            with open(op, "rb") as f:
                out = f.read()
            os.unlink(op)
        os.unlink(ip)
        return res, out

    def close(self):
        try:
            self.p.stdin.close()
            self.p.wait(timeout=10)
        except Exception:
            self.p.kill()
        self.errlog.close()
