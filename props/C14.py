"""C14 - all target languages follow the same serialization plan.

Plan = tree over {prim, optional, union[nullable; cases in order], vector(length?), array(dynamic | rank | fixed dims), map(k, v), enum(base),
record reference (with type-argument plans), stream, type parameter}. The reference plan is derived from the harness AST and
docs/reference/binary.md.
Monitor: (a) Python binary and Python NDJSON: the serializer / converter construction expressions of every protocol step and record field,
taken from the generated package that is *also imported and instantiated* (every zero-argument serializer / converter class is constructed in a
fresh interpreter, so an expression that does not evaluate is caught); (b) MATLAB binary (no interpreter in the sandbox): the
yardl.binary.*Serializer construction expressions emitted in +binary/*.m; (c) the generated C++ plan is *executed* against the reference codec
by C01/C03 on the same corpus and is not re-derived here.
Oracle: after the backend's documented normalisation (MATLAB lists fixed-array dimensions reversed - column-major) every backend's plan for
every protocol step (reader and writer) and every record field equals the reference plan."""
from __future__ import annotations

import os
import re
import shutil

from vlib import cli, common, corpus, emit, evo, mut
from vlib.common import pmap, rng, Inconclusive
from vlib.model import *  # noqa
from vlib.refcodec import Codec

LEVEL = "exploration"
FLOOR = {"quick": 400, "thorough": 20000}

import threading
_HOME = threading.local()      # the namespace whose generated file is being read (record references are relative to it)


def nskey(ns) -> str:
    return (ns or "").lower().replace("_", "")


def ns_mark(module_path: str) -> str:
    """'' for a reference into the file's own namespace, else the normalised namespace named by the module path of the expression"""
    parts = module_path.split(".")
    if len(parts) < 2:
        return ""
    first = nskey(parts[0])
    if first in ("binary", "ndjson", "yardl", ""):
        return ""
    return "" if first == nskey(getattr(_HOME, "ns", None)) else first

# ----------------------------------------------------------------------------- expression parser (Python and MATLAB call syntax)

TOK = re.compile(r"\s*(?:(?P<str>'(?:[^']|'')*'|\"[^\"]*\")|(?P<num>\d+)|(?P<name>@?[A-Za-z_][\w.]*(?:\[[\w, .\[\]]*\])?(?:\.[A-Za-z_]\w*)*)|(?P<p>[()\[\]{},]))")


def tokenize(s):
    pos, out = 0, []
    while pos < len(s):
        m = TOK.match(s, pos)
        if not m:
            if s[pos:].strip() == "":
                break
            raise ValueError("cannot tokenize at %r" % s[pos:pos + 40])
        pos = m.end()
        for k in ("str", "num", "name", "p"):
            if m.group(k) is not None:
                out.append((k, m.group(k)))
    return out


def parse_expr(toks, i=0):
    k, v = toks[i]
    if k == "name":
        if i + 1 < len(toks) and toks[i + 1] == ("p", "("):
            args, j = parse_list(toks, i + 2, ")")
            return ("call", v, args), j
        return ("name", v), i + 1
    if k == "str":
        return ("str", v[1:-1]), i + 1
    if k == "num":
        return ("num", int(v)), i + 1
    if (k, v) in (("p", "["), ("p", "{"), ("p", "(")):
        close = {"[": "]", "{": "}", "(": ")"}[v]
        items, j = parse_list(toks, i + 1, close)
        return ("list", items), j
    raise ValueError("unexpected token %r" % (toks[i],))


def parse_list(toks, i, close):
    items = []
    while toks[i] != ("p", close):
        e, i = parse_expr(toks, i)
        items.append(e)
        if toks[i] == ("p", ","):
            i += 1
    return items, i + 1


def balanced(s, start):
    """returns the text of the expression starting at `start` up to the matching end of its outermost call"""
    depth, i = 0, start
    seen_paren = False
    while i < len(s):
        ch = s[i]
        if ch in "([{":
            depth += 1
            seen_paren = True
        elif ch in ")]}":
            depth -= 1
            if depth == 0 and seen_paren:
                return s[start:i + 1]
            if depth < 0:
                return s[start:i]
        elif depth == 0 and ch in ".;\n" and not re.match(r"[\w.]", s[i + 1:i + 2] or " "):
            return s[start:i]
        elif depth == 0 and ch in ";\n":
            return s[start:i]
        i += 1
    return s[start:]


PY_PRIM = {"bool": "bool", "int8": "int8", "uint8": "uint8", "int16": "int16", "uint16": "uint16", "int32": "int32", "uint32": "uint32", "int64": "int64",
           "uint64": "uint64", "size": "size", "float32": "float32", "float64": "float64", "complexfloat32": "complexfloat32", "complexfloat64": "complexfloat64",
           "string": "string", "date": "date", "time": "time", "datetime": "datetime"}
ML_PRIM = {"Bool": "bool", "Int8": "int8", "Uint8": "uint8", "Int16": "int16", "Uint16": "uint16", "Int32": "int32", "Uint32": "uint32", "Int64": "int64",
           "Uint64": "uint64", "Size": "size", "Float32": "float32", "Float64": "float64", "Complexfloat32": "complexfloat32", "Complexfloat64": "complexfloat64",
           "String": "string", "Date": "date", "Time": "time", "Datetime": "datetime"}


def norm(e, lang, kind="Serializer"):
    """backend expression tree -> plan"""
    low = kind.lower()
    t = e[0]
    if t == "name":
        n = e[1].split(".")[-1]
        if lang == "py":
            m = re.match(r"^(\w+?)_%s$" % low, n)
            if m and m.group(1) in PY_PRIM:
                return ("p", PY_PRIM[m.group(1)])
            if m:
                return ("tp", m.group(1).upper())
        else:
            m = re.match(r"^(\w+?)Serializer$", n)
            if m and m.group(1) in ML_PRIM:
                return ("p", ML_PRIM[m.group(1)])
            if n == "NoneSerializer":
                return ("none",)
            m = re.match(r"^(\w+?)_serializer$", n)
            if m:
                return ("tp", m.group(1).upper())
        return ("?", e[1])
    if t == "call":
        n = e[1].split(".")[-1]
        a = e[2]
        base = n[:-len(kind)] if n.endswith(kind) else n
        if lang == "ml" and base in ML_PRIM and not a:
            return ("p", ML_PRIM[base])
        if base == "Optional":
            return ("opt", norm(a[0], lang, kind))
        if base == "Union":
            items = a[1][1]
            nullable, cases = False, []
            for it in items:
                if it == ("name", "None") or norm(it, lang, kind) == ("none",):
                    nullable = True
                elif it[0] == "list":          # python: (Cls.Tag, X[, json kinds])
                    cases.append(norm(it[1][1], lang, kind))
                else:
                    cases.append(norm(it, lang, kind))
            if kind == "Converter" and lang == "py" and len(a) > 2 and a[2][0] == "name" and a[2][1] in ("True", "False"):
                # NDJSON: is the value written bare ("simplified") or as {tag: value}?
                return ("union", nullable, tuple(cases), ("tagged", a[2][1] == "False"))
            return ("union", nullable, tuple(cases))
        if base == "Vector":
            return ("vec", None, norm(a[0], lang, kind))
        if base == "FixedVector":
            return ("vec", a[1][1], norm(a[0], lang, kind))
        if base == "Map":
            return ("map", norm(a[0], lang, kind), norm(a[1], lang, kind))
        if base == "DynamicNDArray":
            return ("arr", ("dyn",), norm(a[0], lang, kind))
        if base == "NDArray":
            return ("arr", ("rank", a[1][1]), norm(a[0], lang, kind))
        if base == "FixedNDArray":
            dims = tuple(x[1] for x in a[1][1])
            if lang == "ml":
                dims = tuple(reversed(dims))     # MATLAB is column-major: documented normalisation
            return ("arr", ("fixed", dims), norm(a[0], lang, kind))
        if base in ("Enum", "Flags"):
            inner = [x for x in a if x[0] in ("name", "call") and norm(x, lang, kind)[0] == "p"]
            return ("enum", norm(inner[0], lang, kind)[1] if inner else None)
        if base == "Stream":
            return ("stream", norm(a[0], lang, kind))
        return ("rec", base, tuple(norm(x, lang, kind) for x in a), ns_mark(e[1]))
    return ("?", repr(e)[:60])


# ----------------------------------------------------------------------------- reference plans

def ref_plan(c: Codec, t, home_ns):
    t = c.res(t) if not isinstance(t, TP) else t
    if isinstance(t, TP):
        return ("tp", t.name.upper())
    if isinstance(t, P):
        return ("p", t.name)
    if isinstance(t, N):
        d, ns = c.env.lookup(t)
        if isinstance(d, En):
            return ("enum", d.base_prim)
        return ("rec", d.name, tuple(ref_plan(c, a, home_ns) for a in t.args), "" if nskey(ns) == nskey(home_ns) else nskey(ns))
    if isinstance(t, U):
        if t.is_optional:
            return ("opt", ref_plan(c, t.cases[0][1], home_ns))
        try:
            tagged = bool(c.union_tagged(t))
        except Exception:
            tagged = None         # type parameters: not decided by the reference
        return ("union", t.nullable, tuple(ref_plan(c, x, home_ns) for _, x in t.cases), ("tagged", tagged))
    if isinstance(t, V):
        return ("vec", t.length, ref_plan(c, t.item, home_ns))
    if isinstance(t, A):
        k = ("dyn",) if t.kind == "dynamic" else (("rank", t.rank) if t.kind == "ranked" else ("fixed", tuple(t.shape)))
        return ("arr", k, ref_plan(c, t.item, home_ns))
    if isinstance(t, M):
        return ("map", ref_plan(c, t.key, home_ns), ref_plan(c, t.value, home_ns))
    if isinstance(t, S):
        return ("stream", ref_plan(c, t.item, home_ns))
    raise TypeError(t)


def tagging_view(plan, keep: bool, other=None):
    """the ("tagged", b) element of union plans only concerns NDJSON; it is dropped for the binary plans and wherever the reference has no opinion"""
    if not isinstance(plan, tuple):
        return plan
    if plan and plan[0] == "union" and len(plan) == 4:
        inner = tuple(tagging_view(x, keep) for x in plan[:3])
        if keep and plan[3][1] is not None:
            return inner + (plan[3],)
        return inner + ((("tagged", None),) if keep else ())
    return tuple(tagging_view(x, keep) for x in plan)


def unify_unknown_tagging(got, want):
    """where the reference says ("tagged", None) the backend's value is not compared"""
    if isinstance(got, tuple) and isinstance(want, tuple) and len(got) == len(want):
        if want[:1] == ("tagged",) and want[1] is None and got[:1] == ("tagged",):
            return want
        return tuple(unify_unknown_tagging(g, w) for g, w in zip(got, want))
    return got


def ndjson_view(plan):
    """NDJSON converters: the integer base of enums is not part of the JSON mapping"""
    if plan[0] == "enum":
        return ("enum", None)
    return tuple(ndjson_view(x) if isinstance(x, tuple) and x and isinstance(x[0], str) else
                 (tuple(ndjson_view(y) for y in x) if isinstance(x, tuple) and x and isinstance(x[0], tuple) else x) for x in plan)


# ----------------------------------------------------------------------------- extraction from generated text

def py_step_exprs(src, kind):
    """{(method, step): expr text} for _write_x / _read_x of every protocol class"""
    out = {}
    for cm in re.finditer(r"^class (Binary|NDJson)(\w+?)(Writer|Reader)\(.*?\):\n(.*?)(?=^class |\Z)", src, re.M | re.S):
        proto, role, body = cm.group(2), cm.group(3), cm.group(4)
        for mm in re.finditer(r"    def _(write|read)_(\w+)\(self.*?\n(.*?)(?=\n    def |\Z)", body, re.S):
            b = mm.group(3)
            if kind == "Serializer":
                m2 = re.search(r"(?:return )?((?:[\w.]+\.)?\w+(?:Serializer|_serializer)\b)", b)
                if m2:
                    ex = balanced(b, m2.start(1))
                    ex = re.sub(r"\.(write|read)\(self\._stream.*$", "", ex, flags=re.S)
                    out[(proto, role, mm.group(2))] = ex
            else:
                m2 = re.search(r"converter = ((?:[\w.]+\.)?\w+(?:Converter|_converter)\b)", b)
                if m2:
                    out[(proto, role, mm.group(2))] = balanced(b, m2.start(1))
    return out


def py_record_exprs(src, kind):
    """{record class: [field expr text...]}"""
    out = {}
    if kind == "Serializer":
        for cm in re.finditer(r"^class (\w+)Serializer\(.*?RecordSerializer.*?\):\n(.*?)(?=^class |\Z)", src, re.M | re.S):
            m = re.search(r"super\(\).__init__\(\[(.*)\]\)\n", cm.group(2))
            if not m:
                continue
            inner = m.group(1)
            exprs = []
            for fm in re.finditer(r'\("(\w+)", ', inner):
                exprs.append(balanced(inner, fm.end()))
            out[cm.group(1)] = exprs
    else:
        for cm in re.finditer(r"^class (\w+)Converter\(.*?JsonConverter.*?\):\n(.*?)(?=^class |\Z)", src, re.M | re.S):
            exprs = []
            for fm in re.finditer(r"self\._(\w+)_converter = ", cm.group(2)):
                exprs.append(balanced(cm.group(2), fm.end()))
            if exprs:
                out[cm.group(1)] = exprs
    return out


def ml_exprs(mdir):
    steps, recs = {}, {}
    for dp, _, fs in os.walk(mdir):
        if not dp.endswith("+binary") or "+yardl" in dp:
            continue
        for f in fs:
            src = open(os.path.join(dp, f)).read()
            m = re.match(r"(\w+?)(Writer|Reader)\.m$", f)
            if m:
                for sm in re.finditer(r"self\.(\w+)_serializer = ", src):
                    steps[(m.group(1), m.group(2), sm.group(1))] = balanced(src, sm.end())
            m = re.match(r"(\w+)Serializer\.m$", f)
            if m and "RecordSerializer" in src:
                recs[m.group(1)] = [balanced(src, fm.end()) for fm in re.finditer(r"field_serializers\{\d+\} = ", src)]
    return steps, recs


def plan_of(text, lang, kind="Serializer"):
    if lang == "py":
        text = re.sub(r"\[(T\w*)(, ?T\w*)*\]", "", text)     # generic subscripts on union classes are not part of the plan
    toks = tokenize(text)
    e, _ = parse_expr(toks, 0)
    return norm(e, lang, kind)


def run(ctx):
    common.build_yardl()
    quick = ctx.tier == "quick"
    home = os.path.join(ctx.workdir, "home")
    os.makedirs(home, exist_ok=True)
    ctx.rule = ("ser-corpus packages (generics, imports) and evolution bases; for every protocol step (writer and reader) and every record field the plan of Python binary, "
                "Python NDJSON and MATLAB binary is compared with the reference plan. distinct = (package, backend, protocol step | record field).")
    ctx.assumptions = ["Python plans are read from the generated package text and that package is imported with every serializer/converter instantiated (runtime check that the expressions evaluate)",
                       "MATLAB cannot be executed: its plan is the emitted construction expression (a wrong static helper inside +yardl/+binary would not show)",
                       "the C++ plan is executed against the reference codec by C01/C03 on the same corpus", "member names are not compared (name mangling differs per target), only order and encodings"]
    keys = [("ser", k) for k in corpus.ser_keys(12 if quick else 800, "p")] + [("evo", "c14_%d_%d" % (common.seed(), i)) for i in range(3 if quick else 150)]

    keys.append(("zoo", "unionzoo"))
    keys.append(("samename", "samename"))
    keys.append(("enumbase", "enumbase"))

    def same_name():
        """a local and an imported record (and enum) that share their unqualified name and differ in layout, both used from the same namespace;
        a record field of type [null, A, B] (not a plain optional)"""
        geo = Pkg("Geometry", [Rec("Point", [("x", P("float64")), ("y", P("float64"))]), En("Mode", [("fast", 0), ("slow", 1)], "uint8"),
                               Rec("Pair", [("first", TP("T")), ("second", N("Point"))], ("T",))])
        return Pkg("Scan", [Rec("Point", [("i", P("int32")), ("j", P("int32"))]), En("Mode", [("on", 0), ("off", 7)], "int64"),
                            Rec("Sample", [("index", N("Point")), ("loc", N("Point", (), "Geometry")), ("more", V(N("Point", (), "Geometry"))), ("mine", V(N("Point"))),
                                           ("m", N("Mode")), ("gm", N("Mode", (), "Geometry")), ("pair", N("Pair", (N("Point"),), "Geometry")),
                                           ("quality", U(((None, P("int32")), (None, P("string"))), True)), ("note", Opt(P("string")))]),
                            Proto("Acq", [("first", N("Point")), ("second", N("Point", (), "Geometry")), ("samples", S(N("Sample"))), ("locs", S(N("Point", (), "Geometry"))), ("idx", S(N("Point")))])], [geo])

    def union_zoo():
        """unions of three and four cases in every order of JSON kinds: whether a union is written bare or tagged depends on *all* pairs of cases"""
        import itertools
        kinds = [("int32", P("int32")), ("str", P("string")), ("f64", P("float64")), ("flag", P("bool")), ("d", P("date")), ("u8", P("uint8")), ("rec", N("ZRec")), ("en", N("ZEnum"))]
        fields = []
        for n in (3, 4):
            for combo in itertools.permutations(kinds[:6] if n == 3 else kinds, n):
                if len(fields) >= 150 and n == 3:
                    break
                if n == 4 and len(fields) >= 230:
                    break
                fields.append(("u%d" % len(fields), U(tuple((None, t) for nm, t in combo), len(fields) % 4 == 0)))       # implicit tags (type names)
        recs = [Rec("ZRec", [("a", P("int32"))]), En("ZEnum", [("p", 0), ("q", 1)], None, False, False),
                # type parameters used in another order than they are declared
                Rec("ZEntry", [("value", TP("V")), ("key", TP("K")), ("more", V(TP("V")))], ("K", "V")),
                Rec("ZTriple", [("c", TP("C")), ("a", TP("A")), ("b", M(P("string"), TP("B")))], ("A", "B", "C")),
                # field names that are not their own Python identifiers
                Rec("ZCamel", [("sampleIndex", P("int32")), ("from", P("float32")), ("peakValue", Opt(P("float64"))), ("class", P("string")), ("httpCODE2x", P("uint16"))])]
        protos = []
        for i in range(0, len(fields), 40):
            recs.append(Rec("ZU%d" % (i // 40), fields[i:i + 40]))
            protos.append(Proto("ZP%d" % (i // 40), [("r", N("ZU%d" % (i // 40))), ("s", S(fields[i][1]))]))
        protos.append(Proto("ZGen", [("e", N("ZEntry", (P("int32"), P("uint32")))), ("t", S(N("ZTriple", (P("int8"), P("string"), P("float64"))))), ("ee", V(N("ZEntry", (P("string"), N("ZRec"))))),
                                     ("camel", N("ZCamel")), ("camels", A(N("ZCamel"), None)), ("camelGrid", A(N("ZCamel"), 2))]))
        return Pkg("UnionZoo", recs + protos)

    def one(item):
        kind, key = item
        pkg = same_name() if kind == "samename" else union_zoo() if kind == "zoo" else corpus.enum_base_package() if kind == "enumbase" else (corpus.ser_package(key, depth=3) if kind == "ser" else evo.evo_base(key))
        root = os.path.join(ctx.workdir, "cases", key)
        shutil.rmtree(root, ignore_errors=True)
        outs = emit.default_outputs("../out", matlab=True, cpp=False)
        common.write_tree(root, emit.package_files(pkg, corpus.style_for(key), outs))
        p = cli.run_cli("generate", os.path.join(root, pkg.dir), home)
        ctx.ev()
        if p.rc != 0:
            ctx.violation("generate-failed", "%s rejected: %s" % (key, cli.clean(p.stderr)[:300]), {"case_dir": root})
            return
        c = Codec(pkg)
        pyd = os.path.join(root, "out/python")
        pk = [e for e in os.listdir(pyd) if os.path.isdir(os.path.join(pyd, e))][0]
        # runtime: import + instantiate
        w = mut.PyWorker(pyd, pk, os.path.join(root, "pyio"))
        ctx.ev()
        if not w.hello.get("ready"):
            ok_import = False
            from vlib.rt import py_import_errclass
            ctx.violation("python-import-failed:%s" % (py_import_errclass(w.hello.get("error"))[1:] or "other"),
                          "%s: %s" % (key, w.hello.get("error")), {"case_dir": root})
        else:
            res = w.cmd({"op": "construct"})
            if not res.get("ok"):
                ctx.violation("python-construct-failed", "%s: %s" % (key, res.get("error")), {"case_dir": root})
            ctx.count("py.instantiated", len(res.get("made", [])))
        w.close()
        # reference plans
        ref_steps, ref_recs = {}, {}
        for proto in pkg.protocols():
            for sn, st in proto.steps:
                ref_steps[(proto.name, sn)] = ref_plan(c, c.fq(st), pkg.ns)
        for q in pkg.closure():
            for d in q.defs:
                if isinstance(d, Rec):
                    ref_recs[(q.ns, d.name)] = [ref_plan(c, fq(ft, q.ns), q.ns) for fn, ft in d.fields]
        ok = True

        def compare(backend, where, got, want):
            nonlocal ok
            ctx.ev()
            ctx.case((key, backend, where))
            ctx.count("compared." + backend)
            if got != want:
                ok = False
                ctx.violation("plan-differs:%s:%s" % (backend, diff_kind(got, want)), "%s %s %s: backend plan %s differs from the reference plan %s" % (key, backend, where, str(got)[:300], str(want)[:300]),
                              {"case_dir": root, "got": repr(got), "want": repr(want)})

        def steps_by_order(found, proto, role):
            """generated step identifiers are mangled: map them to model steps by declaration order"""
            names = [k[2] for k in found if k[0] == proto and k[1] == role]
            return names

        for backend, kindname in (("py-binary", "Serializer"), ("py-ndjson", "Converter")):
            fn = "binary.py" if kindname == "Serializer" else "ndjson.py"
            src = open(os.path.join(pyd, pk, fn)).read()
            steps = py_step_exprs(src, kindname)
            _HOME.ns = pkg.ns
            for proto in pkg.protocols():
                for role in ("Writer", "Reader"):
                    names = steps_by_order(steps, proto.name, role)
                    if len(names) != len(proto.steps):
                        ctx.violation("steps-missing:%s" % backend, "%s %s %s%s: %d step expressions found, %d steps declared" % (key, backend, proto.name, role, len(names), len(proto.steps)), {"case_dir": root})
                        ok = False
                        continue
                    for (sn, st), gname in zip(proto.steps, names):
                        try:
                            got = plan_of(steps[(proto.name, role, gname)], "py", kindname)
                        except Exception as e:
                            got = ("unparsable", str(e)[:80])
                        want = ref_steps[(proto.name, sn)]
                        if kindname == "Converter":
                            want = tagging_view(ndjson_view(want), True)
                            got = unify_unknown_tagging(tagging_view(ndjson_view(got), True), want)
                            if want[0] == "stream":
                                want = want[1]      # NDJSON writes stream items one per line
                        else:
                            want = tagging_view(want, False)
                        compare(backend, "%s%s.%s" % (proto.name, role, sn), got, want)
            for q in pkg.closure():
                sub = src if q is pkg else open(os.path.join(pyd, pk, [e for e in os.listdir(os.path.join(pyd, pk)) if os.path.isdir(os.path.join(pyd, pk, e)) and not e.startswith("_")][0], fn)).read() if q.ns != pkg.ns and len(pkg.closure()) == 2 else None
                if sub is None:
                    continue
                if kindname == "Converter":
                    # every path of a record converter (objects and numpy records, writing and reading) uses the yardl field names as JSON keys
                    for d in q.defs:
                        if not isinstance(d, Rec):
                            continue
                        cm = re.search(r"^class %sConverter\(.*?\):\n(.*?)(?=^class |\Z)" % re.escape(d.name), sub, re.M | re.S)
                        if not cm:
                            continue
                        for meth in ("to_json", "numpy_to_json", "from_json", "from_json_to_numpy"):
                            mm = re.search(r"    def %s\(self.*?\n(.*?)(?=\n    def |\Z)" % meth, cm.group(1), re.S)
                            if not mm:
                                continue
                            keys = []
                            for k in re.findall(r'json_object(?:\[|\.get\()"([^"]+)"', mm.group(1)):
                                if k not in keys:
                                    keys.append(k)
                            # which keys may be left out (written only when the value is not null / read with a default): exactly the fields whose
                            # type has a null case - plain optionals and nullable unions alike; a bare type parameter decides at run time
                            omitted = {}
                            lines = mm.group(1).split("\n")
                            for li, ln in enumerate(lines):
                                wm = re.search(r'json_object\["([^"]+)"\] = ', ln)
                                if wm:
                                    prev = next((x for x in reversed(lines[:li]) if x.strip()), "")
                                    omitted[wm.group(1)] = "dynamic" if "supports_none" in prev else ("omit" if (prev.strip().startswith("if ") and "is not None" in prev and len(prev) - len(prev.lstrip()) < len(ln) - len(ln.lstrip())) else "always")
                                for k2 in re.findall(r'json_object\.get\("([^"]+)"\)', ln):
                                    omitted[k2] = "dynamic" if "supports_none" in ln else "omit"
                                for k2 in re.findall(r'json_object\["([^"]+)"\](?! =)', ln):
                                    omitted.setdefault(k2, "dynamic" if "supports_none" in ln else "always")
                            want_om = {}
                            for fn2, ft2 in d.fields:
                                rt2 = fq(ft2, q.ns)
                                rt2 = c.res(rt2) if not isinstance(rt2, TP) else rt2
                                want_om[fn2] = "dynamic" if isinstance(rt2, TP) else ("omit" if isinstance(rt2, U) and rt2.nullable else "always")
                            ctx.count("ndjson-omission.compared")
                            bad_om = {k2: (omitted.get(k2), w2) for k2, w2 in want_om.items() if omitted.get(k2) != w2 and "dynamic" not in (omitted.get(k2), w2)}
                            if bad_om:
                                ctx.violation("plan-differs:py-ndjson:null-omission:%s" % meth, "%s record %s: %s treats the null value of %s differently from the documented mapping (found, documented): a field whose type has a null case is left out when null and may be absent when read" % (
                                    key, d.name, meth, bad_om), {"case_dir": root})
                                ok = False
                            ctx.count("ndjson-keys.compared")
                            if keys != [fn for fn, _ in d.fields]:
                                ctx.violation("plan-differs:py-ndjson:keys:%s" % meth, "%s record %s: %s uses the JSON keys %s, the fields are %s" % (key, d.name, meth, keys, [fn for fn, _ in d.fields]), {"case_dir": root})
                                ok = False
                _HOME.ns = q.ns
                recs = py_record_exprs(sub, kindname)
                # the constructor of a generic record's serializer / converter takes the element serializers in the order of the type
                # parameters (that is the order in which every use site passes them)
                for d in q.defs:
                    if isinstance(d, Rec) and d.tparams:
                        cm = re.search(r"^class %s%s\(.*?\):\n\s+def __init__\(self, (.*?)\) -> None:" % (re.escape(d.name), kindname), sub, re.M | re.S)
                        if cm:
                            params = [x.split(":")[0].strip() for x in re.split(r",\s*(?=\w+\s*:)", cm.group(1))]
                            want_params = ["%s_%s" % (re.sub(r"(?<!^)(?=[A-Z])", "_", tp).lower(), kindname.lower()) for tp in d.tparams]
                            ctx.count("generic-ctor-order.%s" % backend)
                            if [x for x in params if x.endswith("_" + kindname.lower())] != want_params:
                                ctx.violation("plan-differs:%s:generic-ctor-order" % backend, "%s %s record %s: constructor takes %s, the type parameters are declared as %s" % (key, backend, d.name, params, list(d.tparams)),
                                              {"case_dir": root})
                                ok = False
                for d in q.defs:
                    if isinstance(d, Rec) and d.name in recs:
                        gots = []
                        for x in recs[d.name]:
                            try:
                                gots.append(plan_of(x, "py", kindname))
                            except Exception as e:
                                gots.append(("unparsable", str(e)[:80]))
                        want = ref_recs[(q.ns, d.name)]
                        tpn = {("T%d" % (i + 1)): tp.upper() for i, tp in enumerate(d.tparams)}
                        gots = [rename_tp(g, d.tparams) for g in gots]
                        if kindname == "Converter":
                            want = [tagging_view(ndjson_view(x), True) for x in want]
                            gots = [unify_unknown_tagging(tagging_view(ndjson_view(x), True), w) for x, w in zip(gots, want)] + gots[len(want):]
                        else:
                            want = [tagging_view(x, False) for x in want]
                        compare(backend, "record %s" % d.name, gots, want)
        msteps, mrecs = ml_exprs(os.path.join(root, "out/matlab"))
        _HOME.ns = pkg.ns
        all_names = [d.name for q in pkg.closure() for d in q.defs]
        for proto in pkg.protocols():
            for role in ("Writer", "Reader"):
                names = steps_by_order(msteps, proto.name, role)
                if len(names) != len(proto.steps):
                    ctx.violation("steps-missing:matlab", "%s matlab %s%s: %d step expressions found, %d declared" % (key, proto.name, role, len(names), len(proto.steps)), {"case_dir": root})
                    ok = False
                    continue
                for (sn, st), gname in zip(proto.steps, names):
                    try:
                        got = plan_of(msteps[(proto.name, role, gname)], "ml")
                    except Exception as e:
                        got = ("unparsable", str(e)[:80])
                    compare("matlab-binary", "%s%s.%s" % (proto.name, role, sn), got, tagging_view(ref_steps[(proto.name, sn)], False))
        for q in pkg.closure():
            for d in q.defs:
                if isinstance(d, Rec) and d.name in mrecs and all_names.count(d.name) == 1:
                    _HOME.ns = q.ns
                    gots = []
                    for x in mrecs[d.name]:
                        try:
                            gots.append(plan_of(x, "ml"))
                        except Exception as e:
                            gots.append(("unparsable", str(e)[:80]))
                    gots = [rename_tp(g, d.tparams) for g in gots]
                    compare("matlab-binary", "record %s" % d.name, gots, [tagging_view(x, False) for x in ref_recs[(q.ns, d.name)]])
        if ok:
            shutil.rmtree(root, ignore_errors=True)
        return {"package": key, "steps": len(ref_steps), "records": len(ref_recs)}

    def rename_tp(plan, tparams):
        """generated serializers name type-parameter serializers after the parameter in snake/lower case: map back by declaration order"""
        names = {tp.upper(): tp.upper() for tp in tparams}
        if isinstance(plan, tuple):
            if plan and plan[0] == "tp":
                return ("tp", names.get(plan[1], plan[1]))
            return tuple(rename_tp(x, tparams) if isinstance(x, tuple) else x for x in plan)
        return plan

    def diff_kind(got, want):
        if not isinstance(got, tuple) or not isinstance(want, tuple) or not got or not want:
            return "shape"
        if isinstance(got, tuple) and got and got[0] == "unparsable":
            return "unparsable"
        return "shape" if got[0] != want[0] else str(want[0])

    res = [x for x in pmap(one, keys, workers=8) if x]
    for s in res[:5]:
        ctx.sample(s)
    executed_layout(ctx, quick)
    ctx.sample({"example_python_expression": "_binary.MapSerializer(_binary.int8_serializer, _binary.FixedVectorSerializer(_binary.uint16_serializer, 2))",
                "its_plan": repr(plan_of("_binary.MapSerializer(_binary.int8_serializer, _binary.FixedVectorSerializer(_binary.uint16_serializer, 2))", "py"))})


def executed_layout(ctx, quick):
    """the plans as *executed*: for covering values every target that can run here (generated C++, generated Python in copy_to / list / Fortran-order
    modes) reads the reference encoding and writes it back; what it writes must decode, under the reference plan, to the same values - a target that
    lays out a field, an array shape, an enum base or a union tag differently from the plan produces bytes that decode differently."""
    from vlib import rt, values
    from vlib.common import rng
    items = [("samename", None), ("enumbase", None), ("unionpairs", "nullable-first"), ("unionpairs", "plain-first")] + [("ser", k) for k in corpus.ser_keys(3 if quick else 40, "p")]

    def union_pairs(order):
        """unions with the same non-null cases with and without null (one generated Python class serves both), in both visiting orders; the same cases in
        another order; the same pair inside a generic record"""
        i32, f32t, st = P("int32"), P("float32"), P("string")
        plain = U(((None, i32), (None, f32t)))
        nullable = U(((None, i32), (None, f32t)), True)
        swapped = U(((None, f32t), (None, i32)))
        three, three_n = U(((None, st), (None, i32), (None, N("UpRec")))), U(((None, st), (None, i32), (None, N("UpRec"))), True)
        fields = [("n", nullable), ("p", plain), ("s", swapped), ("t3n", three_n), ("t3", three)]
        steps = [("un", nullable), ("up", plain), ("sn", S(nullable)), ("sp", S(plain)), ("h", N("UpHolder")), ("t3", three), ("t3n", S(three_n)), ("g", N("UpGen", (i32,)))]
        if order == "plain-first":
            fields = [fields[1], fields[0], fields[2], fields[4], fields[3]]
            steps = [steps[1], steps[0], steps[3], steps[2], steps[4], steps[6], steps[5], steps[7]]
        gen = Rec("UpGen", [("a", U(((None, TP("T")), (None, st)), order != "plain-first")), ("b", U(((None, TP("T")), (None, st)), order == "plain-first"))], ("T",))
        return Pkg("UnionPairs", [Rec("UpRec", [("x", i32)]), Rec("UpHolder", fields), gen, Proto("UpFlow", steps)])

    def build(kind, key):
        if kind == "samename":
            return None
        if kind == "unionpairs":
            return union_pairs(key)
        return corpus.enum_base_package() if kind == "enumbase" else corpus.ser_package(key, depth=3)

    def one(item):
        kind, key = item
        pkg = build(kind, key)
        if pkg is None:
            return
        m = rt.prepare_model(ctx, "c14x_" + (key or kind), pkg, ["plain"])
        if m is None:
            return
        c = m.codec
        eps = [rt.CppEndpoint(m, "plain"), rt.PyEndpoint(m), rt.PyEndpoint(m, mode="list"), rt.PyEndpoint(m, mode="fortran"), rt.PyEndpoint(m, mode="views")]
        for proto in pkg.protocols():
            for k in range((2 if quick else 4) if kind != "unionpairs" else 6):
                vals = values.ValueGen(c, rng("C14x", key or kind, proto.name, k), quiet_nan_only=True).steps(proto, stream_len=3)
                data = c.encode_stream(proto, m.schema(proto.name), vals)
                ctx.case(("executed", key or kind, proto.name, k))
                nstreams = sum(1 for _, t in proto.steps if isinstance(c.fq(t), S))
                for ep in eps + ([rt.CppEndpoint(m, "plain", bufs=[3] * nstreams, empty_batches=True)] if nstreams else []):
                    r = ep.copy(proto.name, "bin", "bin", data)
                    ctx.ev()
                    ctx.count("executed." + ep.name)
                    rt.judge(ctx, m, proto, vals, data, r, ep.name, "bin", "executed layout %s/%s set %d" % (key or kind, proto.name, k), {"executed": True})
        m.close()

    pmap(one, items, workers=6)
    # arrays of rank 2 and 3 of every bulk-copied element type handed to the Python writer in C order, Fortran order and as transposed views
    f32t, f64t = P("float32"), P("float64")
    rec = Rec("LyPix", [("a", f32t), ("b", f32t)])
    pkg = Pkg("Layout", [rec, Proto("LyP", [("img", A(f32t, 2)), ("vol", A(f64t, 3)), ("bytes", A(P("uint8"), 2)), ("cplx", A(P("complexfloat32"), 2)), ("fixed", A(P("int8"), ((None, 3), (None, 4)))),
                                           ("dyn", A(f64t, None)), ("pix", A(N("LyPix"), 2)), ("ints", A(P("int32"), 2)), ("frames", S(A(f32t, 2)))])])
    # one generic record instantiated with an element type that is bulk-copied (float32) and with one that is not (int32: varints), both as array
    # elements, the bulk-copied one first; and both inside one record that is itself an array element
    pair = Rec("LyPair", [("first", TP("T")), ("second", TP("T"))], ("T",))
    both = Rec("LyBoth", [("p", N("LyPair", (f32t,))), ("q", N("LyPair", (P("int32"),)))])
    gpkg = Pkg("LayoutGen", [pair, both, Proto("LyG", [("gains", A(N("LyPair", (f32t,)), 1)), ("counts", A(N("LyPair", (P("int32"),)), 1)), ("boths", A(N("LyBoth"), 1)),
                                                      ("gains2", A(N("LyPair", (f64t,)), 2)), ("counts2", A(N("LyPair", (P("int64"),)), 2)), ("frames", S(A(N("LyPair", (P("int16"),)), 1)))])])
    mg = rt.prepare_model(ctx, "c14x_layoutgen", gpkg, ["plain"])
    if mg is None:
        raise Inconclusive("generic layout model did not build")
    from vlib.refcodec import f32 as _f32, f64 as _f64
    gproto = gpkg.find("LyG")
    for k in range(2):
        gvals = [((3,), [[_f32(1.5 * j + k), _f32(-2.0 * j)] for j in range(3)]), ((3,), [[1 + k, 300 * (k + 1)], [-70000, 5], [2 ** 31 - 1, -(2 ** 31)]]),
                 ((2,), [[[_f32(0.25), _f32(8.0)], [1000 * (k + 1), -3]], [[_f32(-1.0), _f32(2.5)], [7, 2 ** 20]]]),
                 ((2, 2), [[_f64(float(j)), _f64(j / 8)] for j in range(4)]), ((2, 2), [[j * 10 ** 12, -j] for j in range(4)]),
                 [((2,), [[-300 * i, 77], [32767, -32768]]) for i in range(2)]]
        gdata = mg.codec.encode_stream(gproto, mg.schema("LyG"), gvals)
        ctx.case(("executed-layout-generic-arrays", k))
        for ep in (rt.CppEndpoint(mg, "plain"), rt.PyEndpoint(mg), rt.PyEndpoint(mg, mode="list"), rt.PyEndpoint(mg, mode="fortran")):
            r = ep.copy("LyG", "bin", "bin", gdata)
            ctx.ev()
            ctx.count("executed-generic-arrays." + ep.name)
            rt.judge(ctx, mg, gproto, gvals, gdata, r, ep.name, "bin", "arrays of one generic record with bulk-copied and varint-encoded arguments through %s (set %d)" % (ep.name, k), {"executed": True})
    mg.close()
    # arrays whose elements are dates / times / datetimes (varints in the format, 64-bit numpy scalars in Python), alone, in fixed shapes, in records that
    # otherwise hold bulk-copied fields only, and in fixed vectors: a target that copies their memory instead of encoding them disagrees with the plan
    dt, tm, da = P("datetime"), P("time"), P("date")
    tick = Rec("LtTick", [("at", dt), ("level", f64t)])
    tpkg = Pkg("LayoutTime", [tick, Rec("LtSpan", [("begin", tm), ("end", tm), ("day", da)]),
                              Proto("LtP", [("stampList", V(dt)), ("stampArray", A(dt, 1)), ("grid", A(tm, ((None, 2), (None, 3)))), ("anyRank", A(dt, None)), ("days", A(da, 2)),
                                            ("ticks", A(N("LtTick"), 1)), ("spans", A(N("LtSpan"), 2)), ("pairs", A(V(dt, 2), 1)), ("blocks", S(A(tm, 2))), ("tickItems", S(A(N("LtTick"), 1)))])])
    mt = rt.prepare_model(ctx, "c14x_layouttime", tpkg, ["plain"])
    if mt is None:
        raise Inconclusive("time layout model did not build")
    tproto = tpkg.find("LtP")
    for k in range(3 if quick else 8):
        tvals = values.ValueGen(mt.codec, rng("C14t", k), quiet_nan_only=True, py_safe=True).steps(tproto, stream_len=3)
        tdata = mt.codec.encode_stream(tproto, mt.schema("LtP"), tvals)
        ctx.case(("executed-layout-time-arrays", k))
        for ep in (rt.CppEndpoint(mt, "plain"), rt.PyEndpoint(mt), rt.PyEndpoint(mt, mode="list"), rt.PyEndpoint(mt, mode="fortran")):
            r = ep.copy("LtP", "bin", "bin", tdata)
            ctx.ev()
            ctx.count("executed-time-arrays." + ep.name)
            rt.judge(ctx, mt, tproto, tvals, tdata, r, ep.name, "bin", "arrays of dates / times / datetimes and of records holding them through %s (set %d)" % (ep.name, k), {"executed": True})
    mt.close()
    # arrays whose *elements* have a fixed size of their own (a fixed vector, an alias of one, a small fixed array): with a declared rank, a fixed shape and
    # without a declared rank - the rank and the dimensions on the wire are those of the array, the element's own extents are not part of them
    v3 = V(f32t, 3)
    epkg = Pkg("LayoutElem", [Al("LeVec3", v3), Proto("LeP", [("dynVec", A(v3, None)), ("dynAlias", A(N("LeVec3"), None)), ("rank2Alias", A(N("LeVec3"), 2)), ("fixedAlias", A(N("LeVec3"), ((None, 2),))),
                                                               ("dynBytes", A(V(P("uint8"), 4), None)), ("rank1Vec", A(v3, 1)), ("items", S(A(N("LeVec3"), None)))])])
    me = rt.prepare_model(ctx, "c14x_layoutelem", epkg, ["plain"])
    if me is None:
        raise Inconclusive("element layout model did not build")
    eproto = epkg.find("LeP")
    for k in range(3 if quick else 8):
        evals = values.ValueGen(me.codec, rng("C14e", k), quiet_nan_only=True).steps(eproto, stream_len=3)
        edata = me.codec.encode_stream(eproto, me.schema("LeP"), evals)
        ctx.case(("executed-layout-fixed-size-elements", k))
        for ep in (rt.CppEndpoint(me, "plain"), rt.PyEndpoint(me), rt.PyEndpoint(me, mode="list"), rt.PyEndpoint(me, mode="fortran")):
            r = ep.copy("LeP", "bin", "bin", edata)
            ctx.ev()
            ctx.count("executed-fixed-size-elements." + ep.name)
            rt.judge(ctx, me, eproto, evals, edata, r, ep.name, "bin", "arrays of fixed-size elements (dynamic rank, declared rank, fixed shape) through %s (set %d)" % (ep.name, k), {"executed": True})
    me.close()
    m = rt.prepare_model(ctx, "c14x_layout", pkg, ["plain"])
    if m is None:
        raise Inconclusive("layout model did not build")
    from vlib.refcodec import f32, f64
    c = m.codec
    proto = pkg.find("LyP")
    vals = [((3, 5), [f32(float(j)) for j in range(15)]), ((2, 3, 4), [f64(float(j) / 4) for j in range(24)]), ((4, 3), [(7 * j) % 251 for j in range(12)]),
            ((2, 3), [(f32(float(j)), f32(-float(j))) for j in range(6)]), ((3, 4), [j - 6 for j in range(12)]), ((2, 2, 2), [f64(float(j)) for j in range(8)]),
            ((2, 3), [[f32(float(j)), f32(float(j) + 0.5)] for j in range(6)]), ((3, 2), [j * 1000 for j in range(6)]),
            [((2, 3), [f32(float(i * 10 + j)) for j in range(6)]) for i in range(3)]]
    data = c.encode_stream(proto, m.schema("LyP"), vals)
    ctx.case(("executed-layout-arrays",))
    for ep in (rt.CppEndpoint(m, "plain"), rt.PyEndpoint(m), rt.PyEndpoint(m, mode="fortran"), rt.PyEndpoint(m, mode="list")):
        r = ep.copy("LyP", "bin", "bin", data)
        ctx.ev()
        ctx.count("executed-arrays." + ep.name)
        ok = rt.judge(ctx, m, proto, vals, data, r, ep.name, "bin", "arrays of rank 2 / 3 through %s" % ep.name, {"executed": True})
        if ok and ep.name != "cpp-plain":
            r2 = rt.CppEndpoint(m, "plain").copy("LyP", "bin", "bin", r.out)
            ctx.ev()
            rt.judge(ctx, m, proto, vals, r.out, r2, "cpp-plain", "bin", "arrays written by %s read by C++" % ep.name, {"executed": True})
    m.close()


def replay(ctx, path):
    import json
    print(json.dumps(json.load(open(path)), indent=1, default=str)[:3000])
    run(ctx)
