"""C11 - generation is all-or-nothing with respect to validation.

Workload (fault enumeration): every kind of failing input - a rule violation in the main package, a second
model file, an imported package or a previous version (C09 catalogue), a breaking evolution, an invalid
manifest, a bad -c override - x output configurations (cpp/python/matlab/json; output dirs inside, beside and
above the package, shared parents) x initial states (no output dirs; populated by a successful generate of the
pre-fault package; populated + foreign files).
Monitor: recursive snapshot (type, mode, size, sha256, mtime_ns, inode) of the whole case tree before / after
`yardl generate`; exit status; file.write / file.remove events of the verif-tagged build.
Oracle: exit != 0 and the snapshot diff is empty and no write/remove event was logged."""
from __future__ import annotations

import os
import shutil
import signal
import subprocess
import time

from vlib import cli, common, fsmon
from vlib.common import pmap, rng, Inconclusive
from props import C09

LEVEL = "fault_enumeration"
FLOOR = {"quick": 300, "thorough": 3000}

OUT_CONFIGS = {
    "beside": "cpp:\n  sourcesOutputDir: ../out/cpp\npython:\n  outputDir: ../out/py\nmatlab:\n  outputDir: ../out/matlab\njson:\n  outputDir: ../out/json\n",
    "inside": "cpp:\n  sourcesOutputDir: gen/cpp\npython:\n  outputDir: gen/py\nmatlab:\n  outputDir: gen/matlab\njson:\n  outputDir: gen/json\n",
    "above-shared": "cpp:\n  sourcesOutputDir: ../../shared\npython:\n  outputDir: ../../shared\nmatlab:\n  outputDir: ../../shared/m\njson:\n  outputDir: ../../shared\n",
    "json-only": "json:\n  outputDir: ../j\n",
    "matlab-only": "matlab:\n  outputDir: ../mat\n",
    "python-first-disabled-cpp": "cpp:\n  sourcesOutputDir: ../o2/cpp\n  disabled: true\npython:\n  outputDir: ../o2/py\n",
}
BREAKING_MAIN = C09.VALID_MAIN.replace("    k: Keep\n", "")           # removes a protocol step relative to v0
ENUM_CHANGE_V0 = C09.VALID_MAIN + "Col: !enum\n  values: [red, green]\nP2: !protocol\n  sequence:\n    c: Col\n"
ENUM_CHANGE_MAIN = C09.VALID_MAIN + "Col: !enum\n  values: [green, red]\nP2: !protocol\n  sequence:\n    c: Col\n"


def faults(quick: bool):
    """(fault id, mutator(files dict) -> extra cli args)"""
    out = []
    sel_t = C09.TYPE_RULES if not quick else C09.TYPE_RULES[::3]
    sel_d = C09.DEF_RULES if not quick else C09.DEF_RULES[::4]
    for rid, _, ty, _ in sel_t:
        for where in ("main", "main2", "import", "version", "main-doc2", "import-doc2", "main-link", "import-link"):
            out.append(("rule:%s@%s" % (rid, where), ("rule", where, C09.HELPERS + C09.embed("field", ty, "Inj"))))
    for rid, _, defs in sel_d:
        for where in ("main", "import", "version"):
            out.append(("rule:%s@%s" % (rid, where), ("rule", where, defs)))
    for rid, _, defs in C09.DEF_RULES:
        if (rid, defs) not in [(a, c) for a, b, c in sel_d] and "Lib." not in defs:
            out.append(("rule:%s@import" % rid, ("rule", "import", defs)))
    out.append(("evolution:removed-step", ("files", {"main/model.yml": BREAKING_MAIN})))
    out.append(("evolution:enum-changed", ("files", {"main/model.yml": ENUM_CHANGE_MAIN, "v0/model.yml": ENUM_CHANGE_V0})))
    out.append(("evolution:incompatible-version-listed-first", ("files", {"main/model.yml": BREAKING_MAIN, "v1/_package.yml": "namespace: Main\nimports:\n  - ../lib\n", "v1/model.yml": BREAKING_MAIN},
                "versions:\n  v0: ../v0\n  v1: ../v1\n")))
    out.append(("evolution:incompatible-version-listed-last", ("files", {"main/model.yml": BREAKING_MAIN, "v1/_package.yml": "namespace: Main\nimports:\n  - ../lib\n", "v1/model.yml": BREAKING_MAIN},
                "versions:\n  v1: ../v1\n  v0: ../v0\n")))
    # a previous version archived as a snapshot of the whole source tree: its import is written with the same relative text as the current one
    arch = {"arch/v1/main/_package.yml": "namespace: Main\nimports:\n  - ../lib\n", "arch/v1/main/model.yml": C09.VALID_MAIN, "arch/v1/lib/_package.yml": "namespace: Lib\n"}
    out.append(("archive:unknown-type-in-archived-import", ("files", dict(arch, **{"arch/v1/lib/lib.yml": C09.VALID_LIB + "Broken: !record\n  fields:\n    x: NoSuchType\n"}), "versions:\n  v0: ../v0\n  v1: ../arch/v1/main\n")))
    out.append(("archive:garbage-in-archived-import", ("files", dict(arch, **{"arch/v1/lib/lib.yml": C09.VALID_LIB, "arch/v1/lib/zz.yml": "]]]: [\n"}), "versions:\n  v1: ../arch/v1/main\n  v0: ../v0\n")))
    out.append(("archive:bad-manifest-in-archived-import", ("files", dict(arch, **{"arch/v1/lib/lib.yml": C09.VALID_LIB, "arch/v1/lib/_package.yml": "namespace: Lib\nbogus: 1\n"}), "versions:\n  v0: ../v0\n  v1: ../arch/v1/main\n")))
    vecs = C09.VALID_MAIN + "Vs: !record\n  fields:\n    samples: %s\nPv: !protocol\n  sequence:\n    v: Vs\n    w: %s\n"
    for nm, (o, n) in {"vector-fixed-to-dynamic": ("float*4", "float*"), "vector-dynamic-to-fixed": ("float*", "float*4"), "vector-length-changed": ("float*4", "float*5"),
                       "array-fixed-to-dynamic-rank": ("float[2,3]", "float[,]"), "array-rank-to-fixed": ("float[,]", "float[2,3]")}.items():
        out.append(("evolution:%s-field" % nm, ("files", {"main/model.yml": vecs % (repr(n), "int"), "v0/model.yml": vecs % (repr(o), "int")})))
        out.append(("evolution:%s-step" % nm, ("files", {"main/model.yml": vecs % ("int", repr(n)), "v0/model.yml": vecs % ("int", repr(o))})))
    # a record of the package and a record of an imported package share their simple name; both are reached from changed protocol steps and the
    # package's own record holds an enum that lost a value (a breaking change below a definition that is walked second)
    same = C09.VALID_MAIN + "Mode: !enum\n  values: [idle, armed, running%s]\nHeader: !record\n  fields:\n    subject: string\n    mode: Mode\nSession: !protocol\n  sequence:\n    device: Lib.Header%s\n    header: Header\n"
    for nm, lib_first in (("evolution:same-simple-name-in-import", True), ("evolution:same-simple-name-in-import-own-first", False)):
        new, old = same % ("", "?"), same % (", calibrating", "")
        if not lib_first:
            new, old = [x.replace("    device: Lib.Header?\n    header: Header\n", "    header: Header\n    device: Lib.Header?\n").replace("    device: Lib.Header\n    header: Header\n", "    header: Header\n    device: Lib.Header\n") for x in (new, old)]
        out.append((nm, ("files", {"main/model.yml": new, "v0/model.yml": old, "lib/lib.yml": C09.VALID_LIB + "Header: !record\n  fields:\n    serialNumber: string\n    gain: float\n"})))
    out.append(("evolution:missing-version-dir", ("manifest", "versions:\n  v0: ../v0\n  v1: ../nowhere\n")))
    out.append(("evolution:duplicate-label", ("manifest", "versions:\n  v0: ../v0\n  v0: ../v0\n")))
    out.append(("manifest:unknown-key", ("manifest_append", "bogus: 1\n")))
    out.append(("manifest:bad-namespace", ("manifest_ns", "lowercase")))
    out.append(("manifest:import-cycle", ("files", {"lib/_package.yml": "namespace: Lib\nimports:\n  - ../main\n"})))
    # faults that exist in the import graph only (every model file is fine); without previous versions, so that nothing but the import loader can object
    nov = "namespace: Main\nimports:\n  - ../lib\n"
    out.append(("graph:cycle-through-root", ("tree", {"lib/_package.yml": "namespace: Lib\nimports:\n  - ../main\n"}, nov)))
    out.append(("graph:cycle-among-imports", ("tree", {"lib/_package.yml": "namespace: Lib\nimports:\n  - ../lib2\n", "lib2/_package.yml": "namespace: Lib2\nimports:\n  - ../lib\n", "lib2/x.yml": "X: int\n"}, nov)))
    out.append(("graph:cycle-of-three-below-root", ("tree", {"lib/_package.yml": "namespace: Lib\nimports:\n  - ../lib2\n", "lib2/_package.yml": "namespace: Lib2\nimports:\n  - ../lib3\n", "lib2/x.yml": "X: int\n",
                                                            "lib3/_package.yml": "namespace: Lib3\nimports:\n  - ../lib\n", "lib3/x.yml": "Y: int\n"}, nov)))
    out.append(("graph:self-import", ("tree", {}, "namespace: Main\nimports:\n  - ../lib\n  - ../main\n")))
    out.append(("graph:import-imports-itself", ("tree", {"lib/_package.yml": "namespace: Lib\nimports:\n  - ../lib\n"}, nov)))
    out.append(("graph:cycle-closed-through-another-spelling", ("tree", {"lib/_package.yml": "namespace: Lib\nimports:\n  - ../lib2\n", "lib2/_package.yml": "namespace: Lib2\nimports:\n  - ../lib2/../lib\n", "lib2/x.yml": "X: int\n"}, nov)))
    out.append(("graph:namespace-conflict-below-import", ("tree", {"lib/_package.yml": "namespace: Lib\nimports:\n  - ../lib2\n", "lib2/_package.yml": "namespace: Main\n", "lib2/x.yml": "X: int\n"}, nov)))
    out.append(("graph:import-of-import-missing", ("tree", {"lib/_package.yml": "namespace: Lib\nimports:\n  - ../nowhere\n"}, nov)))
    out.append(("graph:import-of-import-bad-manifest", ("tree", {"lib/_package.yml": "namespace: Lib\nimports:\n  - ../lib2\n", "lib2/_package.yml": "namespace: Lib2\nbogus: 1\n", "lib2/x.yml": "X: int\n"}, nov)))
    chain = {"lib/_package.yml": "namespace: Lib\nimports:\n  - ../c1\n"}
    for k in range(1, 12):
        chain["c%d/_package.yml" % k] = "namespace: C%d\n" % k + ("imports:\n  - ../c%d\n" % (k + 1) if k < 11 else "")
        chain["c%d/x.yml" % k] = "X%d: int\n" % k
    out.append(("graph:import-chain-too-deep", ("tree", chain, nov)))
    out.append(("manifest:import-missing", ("files_manifest_imports", "imports:\n  - ../lib\n  - ../missing\n")))
    out.append(("manifest:namespace-conflict", ("files", {"lib2/_package.yml": "namespace: Lib\n", "lib2/x.yml": "X: int\n"}, "imports:\n  - ../lib\n  - ../lib2\n")))
    out.append(("yaml:garbage-model", ("files", {"main/zz.yml": "]]]: [\n"})))
    out.append(("yaml:garbage-import", ("files", {"lib/zz.yml": "\tbad: : :\n"})))
    # entries of a package directory that are listed as model files but cannot be read (a dangling symbolic link such as an editor's lock file or a link
    # into a checkout that is not there, a link that points to itself): the package's contents cannot be determined, the run must fail and write nothing
    for where, d in (("main", "main"), ("main-subdir", "main/sub"), ("import", "lib"), ("version", "v0")):
        out.append(("unreadable:dangling-link@%s" % where, ("fsobj", d, "zz_dangling.yml", "../nowhere/units.yml")))
        out.append(("unreadable:dangling-absolute-link@%s" % where, ("fsobj", d, ".#model.yaml", "/nonexistent/vendor/extra.yaml")))
        out.append(("unreadable:link-to-itself@%s" % where, ("fsobj", d, "zz_loop.yml", "zz_loop.yml")))
    out.append(("override:bad-key", ("args", ["-c", "nokey=1"])))
    out.append(("override:bad-value", ("args", ["-c", "cpp.generateNDJson=maybe"])))
    for sec_key in ("python.outputDir", "json.outputDir", "matlab.outputDir", "cpp.sourcesOutputDir"):
        # an empty output directory given on the command line: the later back ends fail after the earlier ones have written
        out.append(("override:empty-%s" % sec_key, ("args", ["-c", sec_key + "="])))
    # borderline packages: names that are legal in the model but hostile to one of the target languages (reserved words, names the generators emit,
    # pairs that only differ in capitalisation). Whether yardl accepts them is not this property's business - but IF the run fails, at whatever stage
    # (a back end that objects after an earlier back end has written), nothing may have been touched. A run that exits 0 is counted, not judged.
    from props import C08
    pairs = C08.COLLIDING_PAIRS + [("imageId", "imageID"), ("rawData", "rawDATA")]
    for a, b in pairs if not quick else pairs[::2] + pairs[-2:-1]:
        shapes = {"fields": "Bl: !record\n  fields:\n    %s: int\n    %s: int\n" % (a, b),
                  "field+computed": "Bl: !record\n  fields:\n    %s: int\n  computedFields:\n    %s: %s + 1\n" % (a, b, a),
                  "steps": "Bl: !protocol\n  sequence:\n    %s: int\n    %s: int\n" % (a, b),
                  "symbols": "Bl: !enum\n  values: [%s, %s]\n" % (a, b),
                  "tags": "Bl: !union\n  %s: int\n  %s: string\n" % (a, b),
                  "types": "%s: !record\n  fields:\n    x: int\n%s: !record\n  fields:\n    x: int\n" % (a[:1].upper() + a[1:], b[:1].upper() + b[1:])}
        for sn, text in shapes.items():
            out.append(("borderline:%s:%s/%s" % (sn, a, b), ("files", {"main/model.yml": C09.VALID_MAIN + text})))
    names = C08.MEMBER_NAMES if not quick else C08.MEMBER_NAMES[::9]
    for nm in names:
        out.append(("borderline:member:%s" % nm, ("files", {"main/model.yml": C09.VALID_MAIN + "Bl: !record\n  fields:\n    %s: int\n  computedFields:\n    %sValue: %s\nBlP: !protocol\n  sequence:\n    %s: Bl\n" % (nm, nm, nm, nm)})))
    for nm in (C08.TYPE_NAMES if not quick else C08.TYPE_NAMES[::7]):
        out.append(("borderline:type:%s" % nm, ("files", {"main/model.yml": C09.VALID_MAIN + "%s: !record\n  fields:\n    x: int\nBlP: !protocol\n  sequence:\n    s: %s\n" % (nm, nm)})))
    # one job per fault id: two jobs with the same id would share a case directory (and remove it under each other)
    seen, unique = set(), []
    for fid, fault in out:
        if fid not in seen:
            seen.add(fid)
            unique.append((fid, fault))
    return unique


def make_case(base, outcfg, fault):
    man = "namespace: Main\nimports:\n  - ../lib\nversions:\n  v0: ../v0\n" + OUT_CONFIGS[outcfg]
    files = {
        "w/lib/_package.yml": "namespace: Lib\n", "w/lib/lib.yml": C09.VALID_LIB,
        "w/v0/_package.yml": "namespace: Main\nimports:\n  - ../lib\n", "w/v0/model.yml": C09.VALID_MAIN,
        "w/main/_package.yml": man, "w/main/model.yml": C09.VALID_MAIN,
    }
    common.write_tree(base, files)
    return os.path.join(base, "w", "main")


def apply_fault(base, outcfg, fault):
    kind = fault[0]
    W = os.path.join(base, "w")
    args = []
    man_path = os.path.join(W, "main", "_package.yml")
    if kind == "rule":
        _, where, defs = fault
        tgt = {"main": "main/model.yml", "main2": "main/sub/zz_extra.yaml", "import": "lib/lib.yml", "version": "v0/model.yml",
               "main-doc2": "main/model.yml", "import-doc2": "lib/lib.yml",
               "main-link": "shared/zz_linked.yml", "import-link": "shared/zz_linked.yml"}[where]
        p = os.path.join(W, tgt)
        os.makedirs(os.path.dirname(p), exist_ok=True)
        if where.endswith("-link"):
            # the faulty model file lives outside the package; the package directory holds a symbolic link to it
            os.symlink(os.path.join("..", "shared", "zz_linked.yml"), os.path.join(W, {"main-link": "main", "import-link": "lib"}[where], "zz_linked.yml"))
        a, _, b = defs.partition("\n---\n")
        with open(p, "a") as f:
            # "-doc2": the fault sits in a second YAML document of an existing model file
            f.write(("\n---\n" if where.endswith("-doc2") else "\n") + a + "\n")
        if b:
            with open(os.path.join(os.path.dirname(p), "zz_second.yml"), "w") as f:
                f.write(b)
    elif kind == "files":
        for rel, text in fault[1].items():
            common.write_file(os.path.join(W, rel), text)
        if len(fault) > 2:
            key = "versions:\n  v0: ../v0\n" if fault[2].startswith("versions:") else "imports:\n  - ../lib\n"
            s = open(man_path).read().replace(key, fault[2])
            open(man_path, "w").write(s)
    elif kind == "tree":
        for rel, text in fault[1].items():
            common.write_file(os.path.join(W, rel), text)
        open(man_path, "w").write(fault[2] + OUT_CONFIGS[outcfg])
    elif kind == "manifest":
        s = open(man_path).read().replace("versions:\n  v0: ../v0\n", fault[1])
        open(man_path, "w").write(s)
    elif kind == "manifest_append":
        open(man_path, "a").write(fault[1])
    elif kind == "manifest_ns":
        s = open(man_path).read().replace("namespace: Main", "namespace: " + fault[1])
        open(man_path, "w").write(s)
    elif kind == "files_manifest_imports":
        s = open(man_path).read().replace("imports:\n  - ../lib\n", fault[1])
        open(man_path, "w").write(s)
    elif kind == "fsobj":
        _, d, name, target = fault
        os.makedirs(os.path.join(W, d), exist_ok=True)
        os.symlink(target, os.path.join(W, d, name))
    elif kind == "args":
        args = fault[1]
    return args


def watch_turn(fid, cfg, st) -> bool:
    """which failing cases are also run under --watch: a fixed share chosen from the case identity"""
    return int(common.sha(fid, cfg, st)[:6], 16) % 6 == 0


def watch_transitions(ctx, home, fl, quick):
    """a running `generate --watch` on a valid, generated package; then the fault is saved and, in the same burst, the (still valid) main model is saved again
    with a definition appended - what `git checkout` or "save all" does. The package on disk does not validate (a one-shot generate fails), so whatever the
    watcher does, it must leave every output file as it was."""
    from props import C20
    picks = [(fid, f) for fid, f in fl if f[0] != "args" and (fid.startswith(("graph:", "manifest:", "evolution:", "archive:", "yaml:")) or fid.endswith(("@import", "@version")))]
    if quick:
        picks = [x for i, x in enumerate(picks) if x[0].startswith(("graph:", "manifest:", "evolution:incompatible", "evolution:missing")) or i % 9 == 0]

    def one(item):
        fid, fault = item
        base = os.path.join(ctx.workdir, "cases", "wt_%s" % "".join(ch if ch.isalnum() else "_" for ch in fid))
        shutil.rmtree(base, ignore_errors=True)
        pkgdir = make_case(base, "beside", fault)
        os.makedirs(os.path.join(base, "home"), exist_ok=True)
        w = C20.Watcher(base, os.path.join(base, "home"), common.build_yardl(), pkgdir=os.path.relpath(pkgdir, base))
        try:
            if not w.wait_quiescent_patient(1, limit_s=30):
                raise Inconclusive("watch transition %s: the first pass did not finish (alive=%s)" % (fid, w.alive()))
            outdir = os.path.join(base, "w", "out")
            before = fsmon.snapshot(outdir)
            if not before:
                raise Inconclusive("watch transition %s: the first pass wrote nothing" % fid)
            starts = w.counts()[0]
            apply_fault(base, "beside", fault)
            with open(os.path.join(pkgdir, "model.yml"), "a") as f:
                f.write("\nSavedTogether: !record\n  fields:\n    a: int\n")      # valid on its own, and visible in every output if it were generated
            ok = w.wait_quiescent_patient(starts + 1, limit_s=25)
            after = fsmon.snapshot(outdir)
            alive = w.alive()
        finally:
            w.stop()
        # the package as it is on disk now must be one that a one-shot generate refuses (otherwise the fault is not one in this layout)
        p = cli.run_cli("generate", pkgdir, home)
        after2 = fsmon.snapshot(outdir)
        ctx.ev()
        ctx.count("watch-transitions")
        if p.rc == 0:
            ctx.count("watch-transitions.not-a-fault")
            shutil.rmtree(base, ignore_errors=True)
            return
        ctx.case((fid, "watch-transition"))
        d = fsmon.diff(before, after, content_only=True)
        d2 = fsmon.diff(after, after2, content_only=True)
        what = "fault %s saved together with a (valid) model save while `generate --watch` is running" % fid
        if not ok and alive and w.counts()[0] <= starts:
            raise Inconclusive("%s: no regeneration started" % what)
        if d:
            ctx.violation("fs-changed:watch-transition:%s" % fid.split(":")[0], "%s: the package on disk does not validate (one-shot generate: rc=%s) but the watcher changed the output: %s" % (what, p.rc, d[:5]),
                          {"case_dir": base, "diff": d[:40], "watch_tail": cli.clean(open(os.path.join(base, "watch.out"), errors="replace").read())[-800:]})
        elif d2:
            ctx.violation("fs-changed:%s" % fid.split(":")[0], "%s: the failing one-shot generate afterwards changed the output: %s" % (what, d2[:5]), {"case_dir": base})
        else:
            shutil.rmtree(base, ignore_errors=True)
    pmap(one, picks, workers=5)


def run(ctx):
    common.build_yardl()
    quick = ctx.tier == "quick"
    home = os.path.join(ctx.workdir, "home")
    os.makedirs(home, exist_ok=True)
    fl = faults(quick)
    cfgs = list(OUT_CONFIGS)
    states = ["empty", "populated", "populated+foreign"]
    ctx.rule = ("%d faults (rule violations in main / second file / import / previous version, breaking evolutions, manifest faults, YAML garbage, bad "
                "overrides) x %d output configurations x 3 initial states; distinct = (fault, configuration, state); every case is a failing run by construction "
                "(a case where generate exits 0 is reported as not-a-fault and not counted). %d of the faults are borderline packages (names hostile to a target language): those are judged "
                "only when the run fails, and counted as borderline-accepted otherwise." % (len(fl), len(cfgs), len([1 for f, _ in fl if f.startswith("borderline:")])))
    ctx.assumptions = ["HOME is a scratch directory outside the snapshot (yardl creates ~/.yardl/cache at start-up)",
                       "the pre-fault tree generates successfully (checked per configuration)"]
    jobs = []
    n_base_faults = len([1 for fid, _ in fl]) - len([1 for rid, _, defs in C09.DEF_RULES]) + len(C09.DEF_RULES[::4])
    for fi, (fid, fault) in enumerate(fl):
        for ci, cfg in enumerate(cfgs):
            for si, st in enumerate(states):
                if quick and (fi + ci + si) % 3 != 0:
                    continue
                if quick and fid.endswith("@import") and fi >= n_base_faults and (ci, si) != (0, 1):
                    continue
                jobs.append((fid, fault, cfg, st))

    def one(job):
        fid, fault, cfg, st = job
        base = os.path.join(ctx.workdir, "cases", "%s_%s_%s" % (fid.replace(":", "_").replace("@", "_").replace("/", "~"), cfg, st.replace("+", "_")))
        shutil.rmtree(base, ignore_errors=True)
        pkgdir = make_case(base, cfg, fault)
        if st != "empty":
            p0 = cli.run_cli("generate", pkgdir, home)
            if p0.rc != 0:
                raise Inconclusive("pre-fault tree does not generate (%s): %s" % (cfg, cli.clean(p0.stderr)[:300]))
            if st == "populated+foreign":
                snap0 = fsmon.snapshot(base)
                k = 0
                for rel, meta in list(snap0.items()):
                    if meta[0] == "dir" and ("out" in rel or "gen" in rel or "shared" in rel or rel.endswith(("/j", "/mat", "/o2"))):
                        common.write_file(os.path.join(base, rel, "FOREIGN_%d.txt" % k), "not yours\n")
                        common.write_file(os.path.join(base, rel, "stale_%d.m" % k), "% stale\n")
                        k += 1
        args = apply_fault(base, cfg, fault)
        before = fsmon.snapshot(base)
        evlog = os.path.join(ctx.workdir, "ev_%d.log" % (abs(hash(base)) % 10**9))
        if os.path.exists(evlog):
            os.unlink(evlog)
        p = cli.run_cli("generate", pkgdir, home, args, event_log=evlog)
        after = fsmon.snapshot(base)
        ctx.ev()
        evs = [e for e in common.read_events(evlog) if e.get("ev") in ("file.write", "file.remove")]
        if os.path.exists(evlog):
            os.unlink(evlog)
        d = fsmon.diff(before, after)
        ctx.count("state." + st)
        ctx.count("cfg." + cfg)
        site = cli.panic_site(p.stderr)
        what = "fault %s, outputs %s, initial state %s" % (fid, cfg, st)
        ok = True
        if p.timed_out:
            raise Inconclusive("watchdog")
        if p.rc == 0 and fid.startswith("borderline:"):
            ctx.count("borderline-accepted")
        elif p.rc == 0:
            ctx.count("not-a-fault")
            ctx.violation("fault-accepted:%s" % fid.split("@")[0], "%s: generate exits 0 on a package that must fail" % what, {"case_dir": base, "proc": p.brief()})
            ok = False
        else:
            ctx.case((fid, cfg, st))
            ctx.count("fault." + fid.split(":")[0])
            if site:
                ctx.violation("panic@%s" % site, "%s: crash" % what, {"case_dir": base, "proc": p.brief()})
                ok = False
            if d:
                ctx.violation("fs-changed:%s:%s" % (fid.split("@")[-1] if "@" in fid else fid.split(":")[0], d[0][0]),
                              "%s: generate failed (rc=%s) but changed the file system: %s" % (what, p.rc, d[:6]),
                              {"case_dir": base, "diff": d[:50], "proc": p.brief()})
                ok = False
            elif evs:
                ctx.violation("write-event:%s" % fid.split(":")[0], "%s: failed run logged %d write/remove events (first: %s)" % (what, len(evs), evs[0]),
                              {"case_dir": base, "events": evs[:10]})
                ok = False
        if ok and p.rc != 0 and not args and watch_turn(fid, cfg, st):
            # the same failing package under `generate --watch`: the first generation fails in the same way and must not touch the output either
            evlog2 = evlog + ".watch"
            outp = evlog + ".watch.out"
            env = common.yardl_env(home, evlog2)
            with open(outp, "wb") as fo:
                wp = subprocess.Popen([common.build_yardl(), "generate", "--watch"], cwd=pkgdir, env=env, stdout=fo, stderr=subprocess.STDOUT, stdin=subprocess.DEVNULL, start_new_session=True)
                t0 = time.monotonic()
                ended = False
                while time.monotonic() - t0 < 30:
                    if any(e.get("ev") == "regen.end" for e in common.read_events(evlog2)):
                        ended = True
                        break
                    if wp.poll() is not None:
                        break
                    time.sleep(0.02)
                time.sleep(0.1)
                if wp.poll() is None:
                    try:
                        os.killpg(wp.pid, signal.SIGTERM)
                    except ProcessLookupError:
                        pass
                    try:
                        wp.wait(timeout=5)
                    except subprocess.TimeoutExpired:
                        os.killpg(wp.pid, signal.SIGKILL)
                        wp.wait()
            after2 = fsmon.snapshot(base)
            evs2 = [e for e in common.read_events(evlog2) if e.get("ev") in ("file.write", "file.remove")]
            for f in (evlog2, outp):
                if os.path.exists(f):
                    os.unlink(f)
            ctx.ev()
            ctx.count("watch-mode-runs")
            ctx.case((fid, cfg, st, "watch"))
            d2 = fsmon.diff(before, after2)
            if not ended and wp.returncode is None:
                raise Inconclusive("%s: the watcher's first generation did not end within 30 s wall" % what)
            if d2:
                ctx.violation("fs-changed:watch:%s:%s" % (fid.split("@")[-1] if "@" in fid else fid.split(":")[0], d2[0][0]),
                              "%s: `generate --watch` on the failing package changed the file system: %s" % (what, d2[:6]), {"case_dir": base, "diff": d2[:50]})
                ok = False
            elif evs2:
                ctx.violation("write-event:watch:%s" % fid.split(":")[0], "%s: `generate --watch` on the failing package logged %d write/remove events (first: %s)" % (what, len(evs2), evs2[0]),
                              {"case_dir": base, "events": evs2[:10]})
                ok = False
        if ok:
            shutil.rmtree(base, ignore_errors=True)
        return (fid, cfg, st, p.rc)

    res = pmap(one, jobs)
    watch_transitions(ctx, home, fl, quick)
    for r in res[:6]:
        ctx.sample({"fault": r[0], "outputs": r[1], "initial_state": r[2], "exit": r[3]})


def replay(ctx, path):
    import json
    r = json.load(open(path))
    print(json.dumps(r, indent=1)[:3000])
    run(ctx)
