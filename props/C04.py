"""C04 - every stream carries a schema that pins down its encoding.

Monitor: the schema observed in four places per protocol - the literal in generated C++ (protocols.cc), Python (protocols.py) and
MATLAB (*WriterBase.m), and the header actually written by running the generated C++ and Python writers (binary and NDJSON).
Oracle: (1) all observations of one protocol agree; (2) neutral edits (comments on every node kind, computed fields, unrelated
definitions and protocols, definition order, file layout, re-spelling) applied at seeded positions leave the schema of every protocol
byte-identical; (3) an edit is *affecting* for protocol P iff the reference codec encodes some pool value differently (binary or
NDJSON) under the edited model or can encode it under only one of the two - classified by the codec, not a priori - and then the
schema text must change; (4) the schema of P is unaffected by deleting any definition not reachable from P."""
from __future__ import annotations

import copy
import json
import os
import re
import shutil

from vlib import cli, common, corpus, cxx, emit, evo, modelgen, mut, rt, values
from vlib.common import pmap, rng, Inconclusive
from vlib.model import *  # noqa
from vlib.refcodec import Codec, CodecError

LEVEL = "exploration"
FLOOR = {"quick": 500, "thorough": 6000}


def schemas_of(root: str, pkg: Pkg, files: dict, home: str):
    """runs yardl generate on the given files; returns {proto: {"cpp":..., "py":..., "matlab":...}} or raises"""
    shutil.rmtree(root, ignore_errors=True)
    common.write_tree(root, files)
    p = cli.run_cli("generate", os.path.join(root, pkg.dir), home)
    if p.rc != 0:
        return None, p
    return read_schemas(root), p


def read_schemas(root: str):
    """the schema literals embedded in the generated C++, Python and MATLAB code under root/out"""
    out = {}
    cc = open(os.path.join(root, "out/cpp/protocols.cc")).read()
    pydir = os.path.join(root, "out/python")
    pypkg = [e for e in os.listdir(pydir) if os.path.isdir(os.path.join(pydir, e))][0]
    py = open(os.path.join(pydir, pypkg, "protocols.py")).read()
    mdir = os.path.join(root, "out/matlab")
    mfiles = {}
    for dp, _, fs in os.walk(mdir):
        for f in fs:
            if f.endswith("WriterBase.m"):
                mfiles[f[:-len("WriterBase.m")]] = open(os.path.join(dp, f)).read()
    for m in re.finditer(r'std::string (\w+)WriterBase::schema_ = R"\((.*?)\)";', cc, re.S):
        out.setdefault(m.group(1), {})["cpp"] = m.group(2)
    for m in re.finditer(r'class (\w+)WriterBase\(abc\.ABC\):.*?\n    schema = r"""(.*?)"""', py, re.S):
        out.setdefault(m.group(1), {})["py"] = m.group(2)
    for name, text in mfiles.items():
        m = re.search(r"function res = schema\(\)\s*\n\s*res = string\('(.*)'\);", text)
        if m:
            out.setdefault(name, {})["matlab"] = m.group(1).replace("''", "'")
    return out


def files_for(pkg: Pkg, style=None, layout=None):
    outs = emit.default_outputs("../out", matlab=True, cpp_opts={"generateHDF5": False, "generateCMakeLists": False})
    return emit.package_files(pkg, style, outs, layout)


# ----------------------------------------------------------------------------- neutral edits

def neutral_edits(pkg: Pkg, r):
    """(name, new pkg, style, layout)"""
    out = []
    p = copy.deepcopy(pkg)
    for d in p.defs:
        d.comment = "doc comment on %s\nline two ' \" \\ %% {}" % d.name
        if isinstance(d, Rec):
            d.field_comments = {fn: "field %s" % fn for fn, _ in d.fields}
        if isinstance(d, Proto):
            d.step_comments = {sn: "step %s" % sn for sn, _ in d.steps}
    out.append(("comments-everywhere", p, emit.Style(extra_ws=0.5, seed=r.randrange(1 << 30)), None))
    p = copy.deepcopy(pkg)
    recs = [d for d in p.defs if isinstance(d, Rec)]
    for d in recs:
        nums = [fn for fn, ft in d.fields if isinstance(ft, P) and ft.name in ("int8", "int16", "int32")]
        vecs = [fn for fn, ft in d.fields if isinstance(ft, V)]
        d.computed = [("cfOne", "1")] + [("cfSum%d" % i, "%s + 1" % fn) for i, fn in enumerate(nums[:2])] + [("cfSize%d" % i, "size(%s)" % fn) for i, fn in enumerate(vecs[:1])]
    if recs:
        out.append(("computed-fields-added", p, None, None))
    p = copy.deepcopy(pkg)
    p.defs = list(p.defs) + [Rec("Unrelated%d" % r.randrange(1000), [("q", P("int32")), ("w", V(P("string")))]), En("UnrelatedEnum", [("u", 0)], None),
                            Proto("UnrelatedProto", [("only", P("bool"))])]
    out.append(("unrelated-definitions-added", p, None, None))
    p = copy.deepcopy(pkg)
    r.shuffle(p.defs)
    out.append(("definitions-permuted", p, None, None))
    names = [d.name for d in pkg.defs]
    r.shuffle(names)
    cut = max(1, len(names) // 3)
    out.append(("files-resplit", copy.deepcopy(pkg), None, [("z_last.yml", names[:cut]), ("sub/dir/a.yaml", names[cut:2 * cut]), ("m.yml", names[2 * cut:])]))
    out.append(("respelled-expanded", copy.deepcopy(pkg), emit.Style(expanded=1.0, alias_spelling=0.8, optional_as_list=1.0, quote=0.5, flow=0.5, enum_as_map=1.0, hex_values=0.5, seed=r.randrange(1 << 30)), None))
    out.append(("respelled-short", copy.deepcopy(pkg), emit.Style(seed=1), None))
    # delete definitions unreachable from any protocol
    reach = evo.reachable_defs(pkg)
    unreachable = [d.name for d in pkg.defs if d.name not in reach]
    if unreachable:
        p = copy.deepcopy(pkg)
        p.defs = [d for d in p.defs if d.name in reach]
        out.append(("unreachable-definitions-deleted", p, None, None))
    if pkg.imports and len(pkg.imports) > 1:
        p = copy.deepcopy(pkg)
        p.imports = list(reversed(p.imports))
        out.append(("imports-permuted", p, None, None))
    return out


# ----------------------------------------------------------------------------- candidate affecting edits

def e_rename_field(pkg, r):
    c = evo._pick(r, [(di, d) for di, d in evo._records(pkg)])
    if not c:
        return None
    di, d = c
    i = r.randrange(len(d.fields))
    d.fields[i] = (d.fields[i][0] + "Renamed", d.fields[i][1])
    return dict(cls="?", name="rename-field", where=(d.name, i))


def e_rename_step(pkg, r):
    c = evo._pick(r, [(di, d) for di, d in enumerate(pkg.defs) if isinstance(d, Proto)])
    if not c:
        return None
    di, d = c
    i = r.randrange(len(d.steps))
    d.steps[i] = (d.steps[i][0] + "Renamed", d.steps[i][1])
    return dict(cls="?", name="rename-step", where=(d.name, i))


def e_rename_enum_symbol(pkg, r):
    c = evo._pick(r, [(di, d) for di, d in enumerate(pkg.defs) if isinstance(d, En) and d.name in evo.reachable_defs(pkg)])
    if not c:
        return None
    di, d = c
    d.explicit_values = True
    d.values = [(d.values[0][0] + "Ren", d.values[0][1])] + list(d.values[1:])
    return dict(cls="?", name="rename-enum-symbol", where=(d.name,))


def e_enum_to_flags(pkg, r):
    """binary encoding is the same, the NDJSON encoding differs ("x" vs ["x"])"""
    c = evo._pick(r, [(di, d) for di, d in enumerate(pkg.defs) if isinstance(d, En) and not d.flags and d.name in evo.reachable_defs(pkg)
                      and all(v >= 0 for _, v in d.values)])
    if not c:
        return None
    di, d = c
    d.flags = True
    d.explicit_values = True
    return dict(cls="?", name="enum-to-flags", where=(d.name,))


def e_vector_length(pkg, r):
    cands = [(di, mi, p, s) for di, mi, p, s in evo.sites(pkg) if isinstance(s, V) and not isinstance(pkg.defs[di], Al) and pkg.defs[di].name in evo.reachable_defs(pkg)]
    c = evo._pick(r, cands)
    if not c:
        return None
    di, mi, p, s = c
    new = V(s.item, None if s.length is not None else 2)
    evo.set_member_type(pkg, di, mi, evo.replace_at(evo.member_type(pkg, di, mi), p, new))
    return dict(cls="?", name="vector-fixed<->variable", where=(pkg.defs[di].name, mi, p))


def e_array_kind(pkg, r):
    cands = [(di, mi, p, s) for di, mi, p, s in evo.sites(pkg) if isinstance(s, A) and not isinstance(pkg.defs[di], Al) and pkg.defs[di].name in evo.reachable_defs(pkg)]
    c = evo._pick(r, cands)
    if not c:
        return None
    di, mi, p, s = c
    if s.kind == "dynamic":
        new = A(s.item, 2)
    elif s.kind == "ranked":
        new = A(s.item, None)
    else:
        new = A(s.item, tuple((n, l + 1) for n, l in s.dims))
    evo.set_member_type(pkg, di, mi, evo.replace_at(evo.member_type(pkg, di, mi), p, new))
    return dict(cls="?", name="array-kind/shape", where=(pkg.defs[di].name, mi, p))


def e_dim_names(pkg, r):
    """renaming array dimension labels does not change any encoding"""
    cands = [(di, mi, p, s) for di, mi, p, s in evo.sites(pkg) if isinstance(s, A) and isinstance(s.dims, tuple) and s.dims and s.dims[0][0] is not None
             and not isinstance(pkg.defs[di], Al) and pkg.defs[di].name in evo.reachable_defs(pkg)]
    c = evo._pick(r, cands)
    if not c:
        return None
    di, mi, p, s = c
    new = A(s.item, tuple((n + "Q", l) for n, l in s.dims))
    evo.set_member_type(pkg, di, mi, evo.replace_at(evo.member_type(pkg, di, mi), p, new))
    return dict(cls="?", name="rename-dimension-labels", where=(pkg.defs[di].name, mi, p))


def e_map_key(pkg, r):
    cands = [(di, mi, p, s) for di, mi, p, s in evo.sites(pkg) if isinstance(s, M) and isinstance(s.key, P) and not isinstance(pkg.defs[di], Al) and pkg.defs[di].name in evo.reachable_defs(pkg)]
    c = evo._pick(r, cands)
    if not c:
        return None
    di, mi, p, s = c
    nk = "string" if s.key.name != "string" else "int32"
    evo.set_member_type(pkg, di, mi, evo.replace_at(evo.member_type(pkg, di, mi), p, M(P(nk), s.value)))
    return dict(cls="?", name="map-key-type", where=(pkg.defs[di].name, mi, p))


def e_rename_unreachable(pkg, r):
    reach = evo.reachable_defs(pkg)
    c = evo._pick(r, [d for d in pkg.defs if d.name not in reach and not isinstance(d, Proto)])
    if not c:
        return None
    old = c.name
    c.name = old + "Ren"
    evo._rename_refs(pkg, old, c.name)
    return dict(cls="?", name="rename-unreachable-type", where=(old,))


CANDIDATES = evo.ALL_EDITS + [e_rename_field, e_rename_step, e_rename_enum_symbol, e_vector_length, e_array_kind, e_dim_names, e_map_key, e_rename_unreachable, e_enum_to_flags]


def encodings(pkg: Pkg, proto_name: str, pool):
    """reference encodings (binary with a dummy schema, NDJSON value lines) of the pool values under pkg; None where not encodable"""
    c = Codec(pkg)
    proto = pkg.find(proto_name)
    res = []
    for vals in pool:
        try:
            b = c.encode_stream(proto, "{}", vals)
            j = c.ndjson_lines(proto, "{}", vals)[1:]
            res.append((b, j))
        except Exception:
            res.append(None)
    return res


def same_name_scenario(ctx, home):
    """two distinct types with the same simple name in different namespaces, both reachable from one protocol:
    a wire-affecting edit to either of them must change the schema"""
    def mk(lib_t="int32", loc_t="int32"):
        lib = Pkg("Lib", [Rec("Sample", [("value", P(lib_t))]), En("Kind", [("a", 0), ("b", 1)], None, False, False)])
        return Pkg("App", [Rec("Sample", [("id", P(loc_t)), ("inner", N("Sample", (), "Lib")), ("kind", N("Kind", (), "Lib"))]),
                           En("Kind", [("x", 0), ("y", 5)], None, False, True),
                           Proto("SameName", [("s", S(N("Sample"))), ("k", N("Kind"))])], [lib])
    base = mk()
    root = os.path.join(ctx.workdir, "cases", "samename")
    s0, p0 = schemas_of(os.path.join(root, "base"), base, files_for(base), home)
    ctx.ev()
    if s0 is None:
        ctx.violation("generate-failed", "same-name scenario rejected: %s" % cli.clean(p0.stderr)[:300], {"case_dir": root})
        return
    for name, variant in (("imported-type-edited", mk(lib_t="float64")), ("local-type-edited", mk(loc_t="string"))):
        s1, p1 = schemas_of(os.path.join(root, name), variant, files_for(variant), home)
        ctx.ev()
        ctx.case(("samename", name))
        ctx.count("samename")
        vals = [[[1, [2], 0]], 5]
        try:
            enc = [Codec(m).encode_stream(m.find("SameName"), "{}", vals) for m in (base, variant)]
        except Exception:
            enc = [b"a", b"b"]
        if s1 is not None and enc[0] != enc[1] and s1["SameName"]["cpp"] == s0["SameName"]["cpp"]:
            ctx.violation("encoding-changed-schema-same:same-simple-name", "%s: the encoding of SameName changes but its schema text does not (types Lib.Sample / App.Sample share a simple name)" % name, {"case_dir": root})
    shutil.rmtree(root, ignore_errors=True)


def enum_base_alias_scenario(ctx, home):
    """an enum / flags type whose base is a named alias that nothing else uses: changing the alias' target changes how every value of the enum is
    written, so it must change the schema"""
    def mk(t, flags):
        return Pkg("Inv", [Al("Code", P(t)), En("Level", [("low", 1), ("high", 2), ("top", 64)], t, flags, True, None, "Code"),
                           Rec("Item", [("level", N("Level")), ("n", P("int32"))]),
                           Proto("Levels", [("one", N("Level")), ("items", S(N("Item")))])])
    root = os.path.join(ctx.workdir, "cases", "enumbasealias")
    for flags in (False, True):
        base = mk("uint8", flags)
        s0, p0 = schemas_of(os.path.join(root, "base"), base, files_for(base), home)
        ctx.ev()
        if s0 is None:
            ctx.violation("generate-failed", "enum with an aliased base type rejected: %s" % cli.clean(p0.stderr)[:300], {"case_dir": root})
            return
        for t in ("uint64", "int16", "int8"):
            variant = mk(t, flags)
            s1, p1 = schemas_of(os.path.join(root, "v_" + t), variant, files_for(variant), home)
            ctx.ev()
            ctx.case(("enum-base-alias", flags, t))
            ctx.count("enum-base-alias")
            vals = [64, [[2, -3], [64, 7]]]
            enc = [Codec(m).encode_stream(m.find("Levels"), "{}", vals) for m in (base, variant)]
            if s1 is not None and enc[0] != enc[1] and s1["Levels"]["cpp"] == s0["Levels"]["cpp"]:
                ctx.violation("encoding-changed-schema-same:enum-base-alias", "%s whose base type is the alias Code: retargeting Code from uint8 to %s changes the encoding of its values but not the schema text" % ("flags" if flags else "enum", t),
                              {"case_dir": root})
                return
    shutil.rmtree(root, ignore_errors=True)


def zero_extent_scenario(ctx, home):
    """containers with a fixed extent of zero - a fixed vector of length 0, a fixed array with a dimension of length 0 - against the same model with the
    extent left open: nothing is written for the former, a count / the dimensions for the latter, so the schemas must differ; and a zero extent is
    not the same as an extent of one"""
    u8, f32t = P("uint8"), P("float32")

    def mk(vec, arr):
        return Pkg("Zx", [Rec("Frame", [("pad", vec), ("grid", arr), ("gain", f32t)]), Proto("Frames", [("first", N("Frame")), ("more", S(N("Frame"))), ("tail", vec)])])
    variants = {"fixed-0": (mk(V(u8, 0), A(f32t, ((None, 0), (None, 2)))), [[[], ((0, 2), []), 1.5], [[[], ((0, 2), []), 2.0]], []]),
                "open": (mk(V(u8), A(f32t, 2)), [[[], ((0, 2), []), 1.5], [[[], ((0, 2), []), 2.0]], []]),
                "fixed-1": (mk(V(u8, 1), A(f32t, ((None, 1), (None, 2)))), None),
                "vector-open-array-fixed-0": (mk(V(u8), A(f32t, ((None, 0), (None, 2)))), [[[], ((0, 2), []), 1.5], [[[], ((0, 2), []), 2.0]], []]),
                "vector-fixed-0-array-open": (mk(V(u8, 0), A(f32t, 2)), [[[], ((0, 2), []), 1.5], [[[], ((0, 2), []), 2.0]], []])}
    root = os.path.join(ctx.workdir, "cases", "zeroextent")
    got, enc = {}, {}
    from vlib.refcodec import f32
    for name, (pkg, vals) in variants.items():
        s1, p1 = schemas_of(os.path.join(root, name), pkg, files_for(pkg), home)
        ctx.ev()
        ctx.case(("zero-extent", name))
        ctx.count("zero-extent")
        if s1 is None:
            ctx.violation("generate-failed", "zero-extent scenario %s rejected: %s" % (name, cli.clean(p1.stderr)[:300]), {"case_dir": root})
            return
        got[name] = s1["Frames"]
        if len(set(got[name].values())) != 1:
            ctx.violation("schema-differs-between-targets:zero-extent", "zero-extent model %s: C++ / Python / MATLAB embed different schema texts" % name, {"case_dir": root})
        if vals is not None:
            fix = lambda fr: [fr[0], fr[1], f32(fr[2])]
            vv = [fix(vals[0]), [fix(x) for x in vals[1]], vals[2]]
            enc[name] = Codec(pkg).encode_stream(pkg.find("Frames"), "{}", vv)
    names = sorted(got)
    for i, a in enumerate(names):
        for b in names[i + 1:]:
            differs = enc.get(a) != enc.get(b) if a in enc and b in enc else True
            if differs and got[a].get("py") == got[b].get("py"):
                ctx.violation("encoding-changed-schema-same:zero-extent", "models %s and %s encode the same (empty) values differently (%s vs %s) but carry the same schema text" % (
                    a, b, enc.get(a, b"").hex()[-24:], enc.get(b, b"").hex()[-24:]), {"case_dir": root})
    if not ctx.violations:
        shutil.rmtree(root, ignore_errors=True)


def two_writers_one_process_scenario(ctx, home):
    """one process writes streams of two different protocols one after the other (C++, binary and NDJSON): each stream must start with its own schema"""
    pkg = Pkg("TwoW", [Rec("Cal", [("gain", P("float32")), ("name", P("string"))]),
                       Proto("First", [("a", P("int32")), ("cals", S(N("Cal")))]),
                       Proto("Second", [("b", P("string")), ("vals", S(P("float64"))), ("c", N("Cal"))]),
                       Proto("Third", [("only", V(P("uint8")))])])
    m = mut.Mut(pkg, os.path.join(ctx.workdir, "cases", "twowriters"))
    try:
        m.generate()
        c = m.codec
        ep = rt.CppEndpoint(m, "plain")
        datas = {}
        for proto in pkg.protocols():
            vals = values.ValueGen(c, rng("C04tw", proto.name), json_safe=True).steps(proto)
            datas[proto.name] = c.encode_stream(proto, m.schema(proto.name), vals)
            with open(os.path.join(m.root, proto.name + ".bin"), "wb") as f:
                f.write(datas[proto.name])
        for a in pkg.protocols():
            for b in pkg.protocols():
                if a.name == b.name:
                    continue
                for of in ("bin", "ndjson"):
                    res = ep.copy(b.name, "bin", of, datas[b.name], first=(a.name, "bin", os.path.join(m.root, a.name + ".bin")))
                    ctx.ev()
                    ctx.count("two-writers")
                    ctx.case(("two-writers", a.name, b.name, of))
                    if "DRIVER-FIRST: rc=0" not in res.stderr:
                        raise Inconclusive("first copy in the two-writer scenario failed: %s" % res.stderr[-300:])
                    if res.rc != 0:
                        ctx.violation("second-writer-failed:%s" % of, "a %s stream of %s written after a stream of %s in the same process: %s" % (of, b.name, a.name, res.stderr[-300:]), {"model_dir": m.root})
                        continue
                    if of == "bin":
                        _, sch = c.decode_header(res.out)
                        same = (sch == m.schema(b.name))
                    else:
                        first = json.loads(res.out.decode().split("\n")[0])
                        same = (first.get("yardl", {}).get("schema") == json.loads(m.schema(b.name)))
                    if not same:
                        ctx.violation("runtime-header-differs:second-writer:%s" % of, "a %s stream of %s written after a stream of %s in the same process does not start with %s's schema" % (of, b.name, a.name, b.name), {"model_dir": m.root})
    finally:
        m.close()


def empty_streams_scenario(ctx, home):
    """protocols all of whose steps are streams (one, two, three of them), written with every stream empty: a complete, valid stream without a single value
    line / block of items - it must still begin with the format's header and the schema, from every writer (C++, Python; binary, NDJSON)"""
    pkg = Pkg("EmptyS", [Rec("Smp", [("t", P("float64")), ("label", P("string"))]),
                         Proto("OnlyOne", [("samples", S(N("Smp")))]),
                         Proto("OnlyTwo", [("samples", S(P("int32"))), ("notes", S(P("string")))]),
                         Proto("OnlyThree", [("a", S(P("uint8"))), ("b", S(V(P("float32")))), ("c", S(Opt(P("int32"))))])])
    m = mut.Mut(pkg, os.path.join(ctx.workdir, "cases", "emptystreams"))
    try:
        m.generate()
        c = m.codec
        for proto in pkg.protocols():
            for fill in ("all-empty", "last-only"):
                vals = [[] for _ in proto.steps]
                if fill == "last-only":
                    vals[-1] = values.ValueGen(c, rng("C04es", proto.name), json_safe=True).steps(proto, stream_len=2)[-1]
                data = c.encode_stream(proto, m.schema(proto.name), vals)
                for ep in (rt.CppEndpoint(m, "plain"), rt.PyEndpoint(m), rt.PyEndpoint(m, mode="list")):
                    for of in ("bin", "ndjson"):
                        res = ep.copy(proto.name, "bin", of, data)
                        ctx.ev()
                        ctx.count("empty-streams.%s.%s" % (ep.name, of))
                        ctx.case(("empty-streams", proto.name, fill, ep.name, of))
                        what = "%s with %s streams written by %s as %s" % (proto.name, fill, ep.name, of)
                        if res.rc != 0:
                            ctx.violation("writer-failed:empty-streams:%s:%s" % (ep.name, of), "%s: %s" % (what, res.stderr[-300:]), {"model_dir": m.root})
                            continue
                        try:
                            if of == "bin":
                                _, sch = c.decode_header(res.out)
                                same = (sch == m.schema(proto.name))
                            else:
                                first = json.loads(res.out.decode().split("\n")[0])
                                same = (first.get("yardl", {}).get("schema") == json.loads(m.schema(proto.name)))
                        except Exception as e:
                            same = False
                        if not same:
                            ctx.violation("runtime-header-missing:empty-streams:%s:%s" % (ep.name, of), "%s: the output (%d bytes) does not begin with the header and the protocol's schema" % (what, len(res.out)), {"model_dir": m.root, "output_head": res.out[:200]})
    finally:
        m.close()


def text_scenarios(ctx, home):
    """scenarios written as YAML text (constructs the model emitter does not spell): comments on array dimensions / enum values / union
    cases below a documented field or step, and a protocol whose schema is larger than 16 KiB"""
    manifest = ("namespace: Txt\ncpp:\n  sourcesOutputDir: ../out/cpp\n  generateCMakeLists: false\n  generateHDF5: false\n  overrideArrayHeader: verif/ndarray_shim.h\n"
                "python:\n  outputDir: ../out/python\nmatlab:\n  outputDir: ../out/matlab\n")

    def model(c):
        return ("# %(d)s record\nR: !record\n  fields:\n    # %(d)s field img\n    img: !array\n      items: float\n      dimensions:\n        # %(d)s dim x\n        x: 2\n        # %(d)s dim y\n        y: 3\n"
                "    # %(d)s field e\n    e: E\n    # %(d)s field u\n    u: !union\n      # %(d)s case a\n      a: int\n      # %(d)s case b\n      b: string\n"
                "# %(d)s enum\nE: !enum\n  values:\n    # %(d)s symbol\n    p: 1\n    # %(d)s symbol 2\n    q: 2\n"
                "# %(d)s protocol\nP: !protocol\n  sequence:\n    # %(d)s step s\n    s: !array\n      items: int\n      dimensions:\n        # %(d)s dim a\n        a:\n        # %(d)s dim b\n        b:\n"
                "    # %(d)s step r\n    r: !stream\n      # %(d)s items\n      items: R\n") % {"d": c}

    class _P:          # the little schemas_of needs
        dir = "pkg"
    root = os.path.join(ctx.workdir, "cases", "text")
    got = {}
    for name, c in (("docs-a", "first wording"), ("docs-b", "second, different wording with \"quotes\""), ("docs-none", None)):
        text = model(c or "x")
        if c is None:
            text = "\n".join(l for l in text.split("\n") if not l.strip().startswith("#"))
        s1, p1 = schemas_of(os.path.join(root, name), _P, {"pkg/_package.yml": manifest, "pkg/model.yml": text}, home)
        ctx.ev()
        ctx.case(("text", name))
        if s1 is None:
            ctx.violation("generate-failed", "comment scenario %s rejected: %s" % (name, cli.clean(p1.stderr)[:300]), {"case_dir": root})
            return
        got[name] = s1
    for name in ("docs-b", "docs-none"):
        for pn in got["docs-a"]:
            if got[name][pn] != got["docs-a"][pn]:
                ctx.violation("schema-changed-by-neutral-edit:nested-comments", "changing only documentation comments (on array dimensions, enum values, union cases, stream items "
                              "below documented fields / steps) changed the schema of %s" % pn, {"case_dir": root, "a": got["docs-a"][pn], "b": got[name][pn]})
    if any("wording" in v for d in got.values() for o in d.values() for v in o.values()):
        ctx.violation("schema-contains-comment-text", "documentation text appears in a schema literal", {"case_dir": root})
    # a schema of > 16 KiB: every target must still embed the same text
    fields = "".join("    fieldNumber%03d: %s\n" % (i, ["int", "string", "float?", "double*", "R2"][i % 5]) for i in range(520))
    big = "R2: !record\n  fields:\n    a: int\nBig: !record\n  fields:\n" + fields + "P: !protocol\n  sequence:\n    b: Big\n    s: !stream\n      items: Big\n"
    s2, p2 = schemas_of(os.path.join(root, "big"), _P, {"pkg/_package.yml": manifest, "pkg/model.yml": big}, home)
    ctx.ev()
    ctx.case(("text", "big-schema"))
    if s2 is None:
        ctx.violation("generate-failed", "big-schema scenario rejected: %s" % cli.clean(p2.stderr)[:300], {"case_dir": root})
        return
    obs = s2.get("P", {})
    ctx.count("big-schema-bytes", len(obs.get("py", "")))
    if set(obs) != {"cpp", "py", "matlab"} or len(set(obs.values())) != 1:
        ctx.violation("schema-differs-between-targets:big", "a %d-byte schema is embedded differently by C++ / Python / MATLAB (or a literal could not be found: %s)" % (len(obs.get("py", "")), sorted(obs)),
                      {"case_dir": root, "lengths": {k: len(v) for k, v in obs.items()}})
    else:
        shutil.rmtree(root, ignore_errors=True)


def watch_session(ctx, key, info, pkg, p2, wroot, want, home) -> bool:
    """starts the watcher on the base model, saves the edited model files, waits for event quiescence and compares the embedded schemas
    with those of a one-shot generation of the edited model (`want`)."""
    from props import C20
    shutil.rmtree(wroot, ignore_errors=True)
    f0, f1 = files_for(pkg), files_for(p2)
    common.write_tree(wroot, f0)
    os.makedirs(os.path.join(wroot, "home"), exist_ok=True)
    w = C20.Watcher(wroot, os.path.join(wroot, "home"), common.build_yardl(), pkgdir=pkg.dir)
    try:
        if not w.wait_quiescent_patient(1, limit_s=30):
            if not w.alive():
                ctx.violation("watcher-died:startup", "%s: watcher exited during the initial generation" % key, {"case_dir": wroot})
                return False
            raise Inconclusive("%s: initial generation in watch mode did not finish within 30 s wall" % key)
        starts = w.counts()[0]
        changed = [rel for rel, text in f1.items() if f0.get(rel) != text]
        for rel in changed:
            with open(os.path.join(wroot, rel), "w") as f:
                f.write(f1[rel])
        ok = w.wait_quiescent_patient(starts + 1, limit_s=25)
        ctx.ev()
        ctx.count("watch-sessions")
        if not ok:
            if not w.alive():
                ctx.violation("watcher-died", "%s: the watcher exited after the edit '%s' was saved" % (key, info["name"]), {"case_dir": wroot})
                return False
            raise Inconclusive("%s: watcher not quiescent within 25 s wall after the edit" % key)
        have = read_schemas(wroot)
        good = True
        for pn, langs in want.items():
            ctx.case((key, "watch", info["name"], pn))
            for lang, text in langs.items():
                if have.get(pn, {}).get(lang) != text:
                    ctx.violation("watch-schema-stale:%s" % lang, "%s/%s: edit '%s' saved while `generate --watch` runs: the regenerated %s code embeds a schema that differs from a one-shot generation of the same model" % (key, pn, info["name"], lang),
                                  {"case_dir": wroot, "edit": repr(info), "files_saved": changed})
                    good = False
                    break
        return good
    finally:
        w.stop()


def previous_version_schemas(ctx, home, quick):
    """chains M0 -> M1 -> M2 -> M3 of evolution edits: the schema a version's generated code embeds is the same whether that version is generated alone, generated
    with its own predecessors listed, or appears as a previous version of a later package (the `previous_schemas_` table of the later package's generated C++):
    a stream written by any of these trees is recognised by all the others."""
    def cpp_schemas(root):
        cc = open(os.path.join(root, "out/cpp/protocols.cc")).read()
        cur = {m.group(1): m.group(2) for m in re.finditer(r'std::string (\w+)WriterBase::schema_ = R"\((.*?)\)";', cc, re.S)}
        prev = {}
        for m in re.finditer(r'std::vector<std::string> (\w+)(Writer|Reader)Base::previous_schemas_ = \{\n(.*?)\n\};', cc, re.S):
            entries = []
            for e in re.finditer(r'R"\((.*?)\)",|(\w+)WriterBase::schema_,', m.group(3), re.S):
                entries.append(e.group(1) if e.group(1) is not None else cur.get(e.group(2)))
            prev[(m.group(1), m.group(2))] = entries
        return cur, prev

    def gen(root, chain_upto, with_versions):
        shutil.rmtree(root, ignore_errors=True)
        outs = emit.default_outputs("../out", python=False, cpp_opts=cxx.cpp_gen_options({"generateNDJson": False}))
        files = evo.chain_files(chain_upto if with_versions else chain_upto[-1:], outs)
        common.write_tree(root, files)
        p = cli.run_cli("generate", os.path.join(root, chain_upto[-1].dir), home)
        ctx.ev()
        return p

    def one(ci):
        key = "c04pv_%d_%d" % (common.seed(), ci)
        chain = evo.gen_chain(key, length=4, edits_per_step=2 + ci % 3)
        base = os.path.join(ctx.workdir, "cases", key)
        p = gen(os.path.join(base, "newest"), chain, True)
        if p.rc != 0:
            ctx.count("previous-schemas.chain-rejected")
            shutil.rmtree(base, ignore_errors=True)
            return
        cur_new, prev_new = cpp_schemas(os.path.join(base, "newest"))
        edits = [e["name"] for m in chain[1:] for e in m.edits]
        bad = False
        for i in range(len(chain) - 1):
            alone = gen(os.path.join(base, "alone_%d" % i), chain[: i + 1], False)
            listed = gen(os.path.join(base, "listed_%d" % i), chain[: i + 1], True) if i >= 1 else alone
            if alone.rc != 0 or listed.rc != 0:
                raise Inconclusive("%s: version %d does not generate on its own: %s" % (key, i, cli.clean((alone if alone.rc else listed).stderr)[:300]))
            cur_a, _ = cpp_schemas(os.path.join(base, "alone_%d" % i))
            cur_l, _ = cpp_schemas(os.path.join(base, "listed_%d" % i)) if i >= 1 else (cur_a, None)
            for pn, text in cur_a.items():
                ctx.case((key, i, pn))
                ctx.count("previous-schemas.compared")
                case = {"case_dir": base, "chain_edits": edits, "version": i, "protocol": pn}
                if cur_l.get(pn) != text:
                    ctx.violation("schema-depends-on-listed-versions", "chain %s (%s): the schema that version %d's generated code embeds for %s differs between generating it alone and with its predecessors listed" % (key, edits, i, pn), case)
                    bad = True
                for role in ("Writer", "Reader"):
                    ent = prev_new.get((pn, role))
                    if ent is None:
                        continue        # the protocol no longer exists in the newest version
                    if i >= len(ent) or ent[i] != text:
                        ctx.violation("previous-schema-differs:%s" % role.lower(), "chain %s (%s): the newest package's %s records for previous version %d of %s a schema that differs from what that version's own generated code embeds" % (
                            key, edits, role.lower(), i, pn), dict(case, recorded=(ent[i] if i < len(ent) else None), own=text))
                        bad = True
        if not bad:
            shutil.rmtree(base, ignore_errors=True)
    pmap(one, range(4 if quick else 60), workers=6)


def run(ctx):
    common.build_yardl()
    quick = ctx.tier == "quick"
    home = os.path.join(ctx.workdir, "home")
    os.makedirs(home, exist_ok=True)
    ctx.rule = ("seeded base packages (evolution bases + ser-corpus packages with imports) x 9 neutral edits + %d candidate edit kinds x seeded positions; an edit is "
                "classified affecting / non-affecting per protocol by reference-encoding a pool of values under both models; schema literals from C++, Python and "
                "MATLAB output plus the headers written by the generated C++ and Python writers. distinct = (base, edit, position seed, protocol)." % len(CANDIDATES))
    ctx.assumptions = ["schema text is taken as yardl emits it (docs/reference/protocol-schema.md is informal); only equality / inequality of texts is judged",
                       "MATLAB literal is read from the generated text (no interpreter)", "pool = 8 seeded value sets per protocol"]
    nb = 5 if quick else 40
    bases = [("evo%d" % i, evo.evo_base("c04_%d_%d" % (common.seed(), i))) for i in range(nb)] + \
            [("ser%d" % i, corpus.ser_package("c04s%d_%d" % (common.seed(), i), depth=2)) for i in range(3 if quick else 25)]
    # unions whose cases are named aliases (of primitives, of a record, of a vector; a generic alias): every generator must see the same model,
    # whichever generators ran before it in the same process
    au = Pkg("AliasUnion", [Al("Celsius", P("float32")), Al("Label", P("string")), Rec("Pt", [("x", P("float32"))]), Al("Point", N("Pt")), Al("Samples", V(P("int32"))), Al("Wrapped", TP("T"), ("T",)),
                            Rec("Holder", [("r", U(((None, N("Celsius")), (None, N("Label"))))), ("o", U(((None, N("Point")), (None, N("Samples"))), True)), ("n", P("int32"))]),
                            Proto("AuFlow", [("reading", U(((None, N("Celsius")), (None, N("Label"))))), ("items", S(U(((None, N("Point")), (None, N("Celsius")), (None, P("int64")))))), ("h", N("Holder")),
                                             ("tagged", U((("temp", N("Celsius")), ("pts", N("Samples"))), False, True))]),
                            Proto("AuSecond", [("x", U(((None, N("Label")), (None, P("int32"))), True)), ("hs", V(N("Holder")))])])
    bases.append(("aliasunion", au))
    reps = 2 if quick else 6

    def one(item):
        key, pkg = item
        r = rng("C04", key)
        root0 = os.path.join(ctx.workdir, "cases", key, "base")
        base_s, p0 = schemas_of(root0, pkg, files_for(pkg), home)
        ctx.ev()
        if base_s is None:
            ctx.violation("generate-failed", "base package %s rejected: %s" % (key, cli.clean(p0.stderr)[:400]), {"case_dir": root0})
            return
        protos = [p.name for p in pkg.protocols()]
        # (1) all observations agree (literals)
        for pn in protos:
            obs = base_s.get(pn, {})
            ctx.case((key, "agree", pn))
            if set(obs) != {"cpp", "py", "matlab"}:
                ctx.violation("schema-literal-missing", "%s/%s: schema literal not found in %s" % (key, pn, {"cpp", "py", "matlab"} - set(obs)), {"case_dir": root0})
            elif len(set(obs.values())) != 1:
                ctx.violation("schema-differs-between-targets", "%s/%s: C++ / Python / MATLAB embed different schema texts" % (key, pn), {"case_dir": root0, "obs": obs})
            ctx.count("literals-compared")
        # runtime headers for one protocol
        if key.startswith("evo") or quick is False:
            try:
                m = mut.Mut(pkg, os.path.join(ctx.workdir, "cases", key, "rt"))
                m.generate()
                c = m.codec
                for proto in pkg.protocols()[:2]:
                    vals = values.ValueGen(c, rng("C04rt", key, proto.name), json_safe=True).steps(proto)
                    data = c.encode_stream(proto, base_s[proto.name]["cpp"], vals)
                    for ep in (rt.CppEndpoint(m, "plain"), rt.PyEndpoint(m)):
                        if ep.name == "py" and rt.py_triggers(m, proto):
                            continue
                        for of in ("bin", "ndjson"):
                            res = ep.copy(proto.name, "bin", of, data)
                            ctx.ev()
                            ctx.count("runtime-header.%s.%s" % (ep.name, of))
                            if res.rc != 0:
                                continue   # round-trip failures are C01-C03's business
                            if of == "bin":
                                _, sch = c.decode_header(res.out)
                                same = (sch == base_s[proto.name]["cpp"])
                            else:
                                first = json.loads(res.out.decode().split("\n")[0])
                                same = (first.get("yardl", {}).get("schema") == json.loads(base_s[proto.name]["cpp"]))
                            if not same:
                                ctx.violation("runtime-header-differs:%s:%s" % (ep.name, of), "%s/%s: header written by %s (%s) carries a schema different from the literal" % (key, proto.name, ep.name, of), {"model_dir": m.root})
                m.close()
            except Exception as e:  # build problems are not this property's business
                ctx.count("runtime-skipped")
        # (2) neutral edits
        for name, p2, style, layout in neutral_edits(pkg, r):
            root = os.path.join(ctx.workdir, "cases", key, "neutral_" + name)
            s2, pr = schemas_of(root, p2, files_for(p2, style, layout), home)
            ctx.ev()
            ctx.count("neutral." + name)
            if s2 is None:
                ctx.violation("neutral-edit-rejected:%s" % name, "%s: neutral edit %s makes yardl reject the package: %s" % (key, name, cli.clean(pr.stderr)[:300]), {"case_dir": root})
                continue
            bad = [pn for pn in protos if s2.get(pn, {}).get("cpp") != base_s[pn]["cpp"]]
            ctx.case((key, "neutral", name))
            if bad:
                ctx.violation("schema-changed-by-neutral-edit:%s" % name, "%s: neutral edit '%s' changed the schema of %s" % (key, name, bad), {"case_dir": root, "base_dir": root0})
            else:
                shutil.rmtree(root, ignore_errors=True)
        # (3) candidate affecting edits, classified by the reference codec
        cbase = Codec(pkg)
        pools = {}
        for pn in protos:
            vg = values.ValueGen(cbase, rng("C04pool", key, pn), json_safe=True)
            pools[pn] = [vg.steps(pkg.find(pn)) for _ in range(8)]
        enc0 = {pn: encodings(pkg, pn, pools[pn]) for pn in protos}
        watch_budget = [2 if quick else 6]
        for e in CANDIDATES:
            for rep in range(reps):
                rr = rng("C04e", key, e.__name__, rep)
                p2, info = evo.apply_edit(pkg, e, rr)
                if p2 is None:
                    continue
                root = os.path.join(ctx.workdir, "cases", key, "edit_%s_%d" % (e.__name__, rep))
                s2, pr = schemas_of(root, p2, files_for(p2), home)
                ctx.ev()
                if s2 is None:
                    ctx.count("edit-rejected")
                    shutil.rmtree(root, ignore_errors=True)
                    continue
                ok = True
                for pn in protos:
                    if p2.find(pn) is None or pn not in s2:
                        continue
                    try:
                        enc1 = encodings(p2, pn, pools[pn])
                    except Exception:
                        continue
                    affecting = any(a != b for a, b in zip(enc0[pn], enc1))
                    changed = s2[pn].get("cpp") != base_s[pn]["cpp"]
                    ctx.case((key, e.__name__, rep, pn))
                    ctx.count("edit.%s.%s" % ("affecting" if affecting else "non-affecting", "schema-changed" if changed else "schema-same"))
                    if affecting and not changed:
                        ctx.violation("encoding-changed-schema-same:%s" % info["name"], "%s/%s: edit '%s' at %s changes how pool values are encoded but the schema text is unchanged" % (key, pn, info["name"], info.get("where")),
                                      {"case_dir": root, "base_dir": root0, "edit": repr(info)})
                        ok = False
                any_affecting = any(s2.get(pn, {}).get("cpp") != base_s[pn]["cpp"] for pn in protos if pn in s2)
                if ok and any_affecting and watch_budget[0] > 0:
                    # the same edit saved while `yardl generate --watch` is running on the base model: the regenerated code must carry the schema of the edited model
                    watch_budget[0] -= 1
                    wroot = os.path.join(ctx.workdir, "cases", key, "watch_%s_%d" % (e.__name__, rep))
                    if not watch_session(ctx, key, info, pkg, p2, wroot, s2, home):
                        ok = False
                    else:
                        shutil.rmtree(wroot, ignore_errors=True)
                if ok:
                    shutil.rmtree(root, ignore_errors=True)
        shutil.rmtree(root0, ignore_errors=True)
        return {"base": key, "protocols": protos, "schema_bytes": {pn: len(base_s[pn]["cpp"]) for pn in protos}}

    previous_version_schemas(ctx, home, quick)
    for s in [x for x in pmap(one, bases, workers=8) if x][:6]:
        ctx.sample(s)
    same_name_scenario(ctx, home)
    enum_base_alias_scenario(ctx, home)
    zero_extent_scenario(ctx, home)
    empty_streams_scenario(ctx, home)
    two_writers_one_process_scenario(ctx, home)
    text_scenarios(ctx, home)


def replay(ctx, path):
    print(json.dumps(json.load(open(path)), indent=1, default=str)[:3000])
    run(ctx)
