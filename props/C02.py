"""C02 - NDJSON write/read round trip and the documented JSON mapping (generated C++ and generated Python).

Monitor: NDJSON lines written by the generated NDJSON writer (fed reference-encoded binary), bytes
written by the generated binary writer when the generated NDJSON reader is fed reference NDJSON
(documented spelling and the alternative spellings the docs allow).
Oracle: type-directed comparison with the reference mapping written from docs/reference/ndjson.md;
return trips decode to the original values."""
from __future__ import annotations

import json

from vlib import common, corpus, cxx, rt, values
from vlib.common import pmap, rng, Inconclusive
from vlib.model import *  # noqa
from vlib.refcodec import CodecError, f64

LEVEL = "exploration"
FLOOR = {"quick": 300, "thorough": 3000}


def judge_doc(ctx, m, proto, vals, r: rt.Result, ep_name, what, extra, data) -> bool:
    """Writer-side oracle: the NDJSON document equals the documented mapping line by line."""
    c = m.codec
    sig = msg = None
    if r.timed_out:
        raise Inconclusive("watchdog: " + what)
    if r.sig is not None or r.cpu_exceeded:
        sig, msg = "crash:%s:%s" % (ep_name, r.errclass), "died sig=%s %s" % (r.sig, r.stderr[-600:])
    elif r.rc != 0:
        sig, msg = "reject:%s:%s" % (ep_name, r.errclass), "valid stream rejected rc=%s: %s" % (r.rc, r.stderr[-600:])
    else:
        try:
            got = [json.loads(l) for l in r.out.decode("utf-8").split("\n") if l.strip()]
        except (ValueError, UnicodeDecodeError) as e:
            got = None
            sig, msg = "undecodable:%s:ndjson" % ep_name, "output is not NDJSON: %s" % e
        if got is not None:
            sch = m.schema(proto.name)
            ref = [json.loads(l) for l in c.ndjson_lines(proto, sch, vals)]
            if not got or got[0] != ref[0]:
                sig, msg = "header:%s" % ep_name, "first line is not {yardl:{version:1,schema:S}} with S JSON-equal to the schema literal"
            elif len(got) != len(ref):
                sig, msg = "linecount:%s" % ep_name, "%d value lines, expected %d" % (len(got) - 1, len(ref) - 1)
            else:
                k = 1
                for sn, stp in proto.steps:
                    stp = c.fq(stp)
                    n = len(vals[proto.steps.index((sn, stp))]) if False else None
                    items = 1
                    t = stp
                    if isinstance(stp, S):
                        items = len(vals[[s for s, _ in proto.steps].index(sn)])
                        t = stp.item
                    for _ in range(items):
                        g, rf = got[k], ref[k]
                        if not (isinstance(g, dict) and list(g.keys()) == [sn]):
                            sig, msg = "stepname:%s" % ep_name, "line %d is not {%r: ...}: %s" % (k + 1, sn, str(g)[:100])
                            break
                        d = c.json_match(t, g[sn], rf[sn], "$." + sn)
                        if d:
                            sig, msg = "mapping:%s:%s" % (ep_name, mapping_class(c, t, d)), "line %d deviates from the documented mapping at %s" % (k + 1, d)
                            break
                        k += 1
                    if sig:
                        break
    if sig:
        sig += (extra or {}).get("trigger", "")
        ip = rt.save_input(ctx, "%s_%s_%08x.in" % (proto.name, ep_name, abs(hash(data)) & 0xFFFFFFFF), data)
        ctx.violation(sig, "%s: %s" % (what, msg), dict(extra, model_dir=m.root, protocol=proto.name, input_path=ip,
                                                          values=repr(vals)[:2500], output_head=r.out[:600], stderr=r.stderr[-1200:]))
        return False
    return True


def mapping_class(c, t, d: str) -> str:
    if "union case" in d:
        return "union-tagging"
    return "value"


def alt_spelling(c, t, j, v):
    """The alternative NDJSON spellings the docs allow for input: enum / flags as integers."""
    t = c.res(t)
    if isinstance(t, N):
        d, _ = c.env.lookup(t)
        if isinstance(d, En):
            return v
        out = {}
        for (fn, ft), fv in zip(record_fields(c.env, t), v):
            if fn in j:
                out[fn] = alt_spelling(c, ft, j[fn], fv)
        return out
    if isinstance(t, V):
        return [alt_spelling(c, t.item, a, b) for a, b in zip(j, v)]
    return j


def python_side(ctx, m, proto, vals, data, tag, ex):
    """the same two oracles on the generated Python: the document it writes is the documented mapping, and it reads the documented mapping"""
    c = m.codec
    py = rt.PyEndpoint(m)
    exp = dict(ex, trigger=rt.py_triggers(m, proto) + ex.get("pinned", ""))
    r = py.copy(proto.name, "bin", "ndjson", data)
    ctx.ev(); ctx.count("bin->ndjson.py")
    ok = judge_doc(ctx, m, proto, vals, r, "py", tag + " bin->ndjson (python)", exp, data)
    try:
        ref_text = ("\n".join(c.ndjson_lines(proto, m.schema(proto.name), vals)) + "\n").encode()
    except CodecError:
        return
    r2 = py.copy(proto.name, "ndjson", "bin", ref_text)
    ctx.ev(); ctx.count("ndjson->bin.py")
    rt.judge(ctx, m, proto, vals, ref_text, r2, "py", "bin", tag + " refndjson->bin (python)", dict(ex, trigger=ex.get("pinned", "")))
    if ok and r.rc == 0:
        r3 = py.copy(proto.name, "ndjson", "ndjson", r.out)
        ctx.ev(); ctx.count("ndjson->ndjson.py")
        judge_doc(ctx, m, proto, vals, r3, "py", tag + " ndjson->ndjson (python)", exp, r.out)
    if any(isinstance(x, A) for _, t in proto.steps for x in walk_types(c.fq(t))):
        # the same values handed to the Python NDJSON writer as Fortran-ordered arrays: the document lists array data in row-major order whatever the memory layout
        pf = rt.PyEndpoint(m, mode="fortran")
        r4 = pf.copy(proto.name, "bin", "ndjson", data)
        ctx.ev(); ctx.count("bin->ndjson.py-fortran")
        judge_doc(ctx, m, proto, vals, r4, "py-fortran", tag + " bin->ndjson (python, Fortran-ordered arrays)", exp, data)


def run_time_representations(ctx):
    """the documents the generated Python writes for dates / times / datetimes given as datetime.datetime (naive = local time, and UTC-aware) and
    datetime.time objects are the documented strings, the same as for the values its own reader returns"""
    dt, tm, da, st = P("datetime"), P("time"), P("date"), P("string")
    rec = Rec("TrRec", [("d", da), ("t", tm), ("dt", dt), ("odt", Opt(dt)), ("vdt", V(dt)), ("m", M(st, dt)), ("u", U((("t", tm), ("dt", dt), ("d", da)), False, True))])
    pkg = Pkg("TimeRepr", [rec, Proto("TrP", [("first", dt), ("moments", S(dt)), ("times", S(tm)), ("days", S(da)), ("recs", S(N("TrRec"))), ("last", Opt(dt))])])
    m = rt.prepare_model(ctx, "timerepr", pkg, ["plain"])
    if m is None:
        raise Inconclusive("time-representation model did not build")
    c = m.codec
    proto = pkg.find("TrP")
    S_, MS, US = 10 ** 9, 10 ** 6, 10 ** 3
    moments = [0, US, -US, -999999 * US, -S_ - 500 * MS, 1500 * MS, 86399 * S_ + 999999 * US, -2208988800 * S_ + 123456 * US, 1700000000 * S_ + 987654 * US, 1700000000 * S_ + 987654321, 1700000000 * S_,
               4102444800 * S_ + 5 * US, -S_, 1]
    times = [0, US, 999999 * US, 86399 * S_ + 999999 * US, 12 * 3600 * S_, 3661 * S_ + 1001 * US, 43200 * S_ + 1, 3600 * S_]
    days = [0, 1, -1, -25567, 19000]
    for k in range(2):
        recs = [[days[j % 5], times[j % 8], x, (None if j % 3 == 0 else (0, moments[(j * 5 + k) % len(moments)])), [moments[(j + i) % len(moments)] for i in range(j % 3)],
                 [("k%d" % i, moments[(j * 3 + i) % len(moments)]) for i in range(j % 2)], [(0, times[j % 8]), (1, x), (2, days[j % 5])][j % 3]] for j, x in enumerate(moments[k::2])]
        vals = [moments[(3 * k + 2) % len(moments)], moments[k::2], times[k::2], days, recs, (None if k == 0 else (0, moments[-2]))]
        data = c.encode_stream(proto, m.schema("TrP"), vals)
        ctx.case(("time-representations", k))
        for mode in ("copy_to", "altrepr-std"):
            ep = rt.PyEndpoint(m, mode=mode)
            r = ep.copy("TrP", "bin", "ndjson", data)
            ctx.ev(); ctx.count("time-representations." + ep.name)
            judge_doc(ctx, m, proto, vals, r, ep.name, "dates / times / datetimes set %d written as NDJSON by python (%s)" % (k, mode), {"time_representations": True, "trigger": ""}, data)
    m.close()


def run_model(ctx, key, pkg, nsets, flavors):
    m = rt.prepare_model(ctx, key, pkg, flavors)
    if m is None:
        return
    c = m.codec
    for proto in pkg.protocols():
        sch = m.schema(proto.name)
        vg = values.ValueGen(c, rng("C02v", key, proto.name), json_safe=True)
        for k in range(nsets):
            vals = vg.steps(proto)
            data = c.encode_stream(proto, sch, vals)
            ctx.case(("vals", key, proto.name, k, len(data)))
            tag = "corpus %s/%s set %d" % (key, proto.name, k)
            ex = {"key": key, "set": k, "trigger": rt.ndjson_tag_collision_trigger(m, proto)}
            for fl in flavors:
                ep = rt.CppEndpoint(m, fl)
                # writer side: binary in, NDJSON out
                r = ep.copy(proto.name, "bin", "ndjson", data)
                ctx.ev(); ctx.count("bin->ndjson." + ep.name)
                ok = judge_doc(ctx, m, proto, vals, r, ep.name, tag + " bin->ndjson", ex, data)
                # reader side: reference NDJSON in, binary out
                try:
                    ref_text = ("\n".join(c.ndjson_lines(proto, sch, vals)) + "\n").encode()
                except CodecError:
                    continue
                r2 = ep.copy(proto.name, "ndjson", "bin", ref_text)
                ctx.ev(); ctx.count("ndjson->bin." + ep.name)
                rt.judge(ctx, m, proto, vals, ref_text, r2, ep.name, "bin", tag + " refndjson->bin", ex)
                # generated writer -> generated reader
                if ok and r.rc == 0:
                    r3 = ep.copy(proto.name, "ndjson", "bin", r.out)
                    ctx.ev(); ctx.count("ndjson(gen)->bin." + ep.name)
                    rt.judge(ctx, m, proto, vals, r.out, r3, ep.name, "bin", tag + " gen-ndjson->bin", ex)
                    r4 = ep.copy(proto.name, "ndjson", "ndjson", r.out)
                    ctx.ev(); ctx.count("ndjson->ndjson." + ep.name)
                    judge_doc(ctx, m, proto, vals, r4, ep.name, tag + " ndjson->ndjson", ex, r.out)
            python_side(ctx, m, proto, vals, data, tag, ex)
    ctx.sample({"model": key, "protocols": [p.name for p in pkg.protocols()]})
    m.close()


# ----------------------------------------------------------------------------- union matrix

def matrix_package(quick: bool):
    Rc = Rec("MxRec", [("a", P("int32")), ("b", Opt(P("string")))])
    Rc2 = Rec("MxRec2", [("a", P("int32"))])
    E1 = En("MxEnum", [("red", 0), ("green", 5), ("blue", -3)], None)
    F1 = En("MxFlags", [("r", 1), ("w", 2), ("x", 8)], "uint16", True)
    kinds = [
        ("int32", P("int32")), ("float64", P("float64")), ("string", P("string")), ("bool", P("bool")),
        ("date", P("date")), ("enum", N("MxEnum")), ("flags", N("MxFlags")), ("vec", V(P("int32"))),
        ("cplx", P("complexfloat32")), ("rec", N("MxRec")), ("smap", M(P("string"), P("int32"))),
        ("imap", M(P("int32"), P("string"))), ("dyn", A(P("int32"), None)), ("fixed", A(P("int32"), ((None, 2),))),
        # maps whose key type is a named alias: of string (a JSON object, like a literal string key) and of an integer (an array of pairs)
        ("lmap", M(N("MxLabel"), P("int32"))), ("cmap", M(N("MxCount"), P("int32"))),
    ]
    if not quick:
        kinds += [("time", P("time")), ("datetime", P("datetime")), ("uint64", P("uint64")), ("rec2", N("MxRec2")),
                  ("ranked", A(P("float32"), 2)), ("fvec", V(P("string"), 2)), ("float32", P("float32"))]
    protos, steps = [], []
    idx = 0
    for i in range(len(kinds)):
        for j in range(i + 1, len(kinds)):
            (na, ta), (nb, tb) = kinds[i], kinds[j]
            if {na, nb} == {"smap", "lmap"}:
                continue   # the same type twice (MxLabel is string): yardl rejects the union, rightly
            nullable = (idx % 3 == 0)
            # MxImplicit below holds [int32, bool], [string, MxEnum], [float32, float64] and a nullable [int32, MxRec] with implicit tags: the matrix
            # union over the same case types gets the other nullability, so that the two are different C++ variant types (two unions with equal
            # case types and different tags share one NDJSON converter: known finding c02-same-variant-different-tags, exercised in the thorough tier)
            if {na, nb} in ({"int32", "bool"}, {"string", "enum"}, {"float32", "float64"}) and quick:
                nullable = True
            if {na, nb} == {"int32", "rec"} and quick:
                nullable = False
            u = U(((na + "Case", ta), (nb + "Case", tb)), nullable, True)
            steps.append(("u%s%s" % (na.capitalize(), nb.capitalize()), u))
            idx += 1
            if len(steps) == 12:
                protos.append(Proto("Mx%d" % len(protos), steps))
                steps = []
    if steps:
        protos.append(Proto("Mx%d" % len(protos), steps))
    # implicit-tag unions over plain names (documented examples)
    Gen = Rec("MxGen", [("id", P("int32")), ("value", TP("T"))], ("T",))
    protos.append(Proto("MxGenericNullable", [("a", S(N("MxGen", (Opt(P("int32")),)))), ("b", S(N("MxGen", (U(((None, P("int32")), (None, P("string"))), True),)))),
                                             ("c", S(N("MxRec")))]))
    protos.append(Proto("MxImplicit", [("a", U(((None, P("int32")), (None, P("bool"))))), ("b", U(((None, P("string")), (None, N("MxEnum"))))),
                                      ("c", U(((None, P("float32")), (None, P("float64"))))), ("d", S(U(((None, P("int32")), (None, N("MxRec"))), True)))]))
    # a record whose fields can all be omitted: the value with every field null is still an object, also below an optional and in a union
    AllOpt = Rec("MxAllOpt", [("label", Opt(P("string"))), ("weight", Opt(P("int32"))), ("u", U(((None, P("int32")), (None, P("string"))), True))])
    protos.append(Proto("MxAllOptional", [("plain", N("MxAllOpt")), ("maybe", Opt(N("MxAllOpt"))), ("items", S(N("MxAllOpt"))), ("vec", V(N("MxAllOpt"))),
                                          ("inUnion", U(((None, N("MxAllOpt")), (None, P("string"))))), ("m", M(P("string"), N("MxAllOpt")))]))
    # record fields whose optionality is only visible through a named alias (of an optional, of a nullable union): omitted when null like any other
    Aliased = Rec("MxAliased", [("id", P("int32")), ("remark", N("MxRemark")), ("nu", N("MxNullU")), ("direct", Opt(P("string"))), ("viaChain", N("MxRemark2"))])
    protos.append(Proto("MxAliasedOptional", [("plain", N("MxAliased")), ("items", S(N("MxAliased"))), ("vec", V(N("MxAliased"))), ("step", N("MxRemark")), ("ustep", N("MxNullU"))]))
    # flags whose symbols overlap or cover several bits that have no symbol of their own: every value of the base type, as stream items, in a record, as map values
    FM = En("MxFlagsMulti", [("read", 1), ("write", 2), ("owner", 0x0C)], "uint8", True)
    FO = En("MxFlagsOverlap", [("r", 1), ("w", 2), ("rw", 3), ("x", 4), ("all", 7)], "uint8", True)
    FZ = En("MxFlagsZero", [("none", 0), ("a", 1), ("b", 0x30)], "uint8", True)
    FlagRec = Rec("MxFlagRec", [("m", N("MxFlagsMulti")), ("o", Opt(N("MxFlagsOverlap"))), ("z", N("MxFlagsZero"))])
    protos.append(Proto("MxFlagValues", [("multi", S(N("MxFlagsMulti"))), ("overlap", S(N("MxFlagsOverlap"))), ("zero", S(N("MxFlagsZero"))), ("recs", S(N("MxFlagRec"))), ("byName", M(P("string"), N("MxFlagsMulti")))]))
    # arrays of rank 2 and 3 of plain scalars (the element types a writer may copy in bulk), alone, in records and as stream items
    ArrRec = Rec("MxArrRec", [("img", A(P("float32"), 2)), ("mask", A(P("bool"), 2)), ("n", P("int32"))])
    protos.append(Proto("MxArrays", [("d2", A(P("float64"), ((None, 2), (None, 3)))), ("b2", A(P("bool"), 2)), ("i3", A(P("int16"), 3)), ("u2", A(P("uint8"), 2)), ("f2", A(P("float32"), 2)),
                                     ("recs", S(N("MxArrRec"))), ("dyn", A(P("int64"), None)), ("frames", S(A(P("int32"), 2)))]))
    # arrays without a declared rank: rank 0 (one element, shape []) is a legal value
    protos.append(Proto("MxDynamic", [("d", A(P("int32"), None)), ("ds", S(A(P("float64"), None))), ("dv", V(A(P("int32"), None))), ("du", U((("arr", A(P("int32"), None)), ("text", P("string"))), False, True))]))
    # maps whose key type is a type parameter (of a generic record, of a generic alias, of an alias of that alias): instantiated with string and an alias of
    # string they are JSON objects, with integers / enums / dates arrays of pairs - the shape is only known at the instantiation
    Lookup = Rec("MxLookup", [("name", P("string")), ("entries", M(TP("K"), TP("V"))), ("nested", M(P("string"), M(TP("K"), TP("V"))))], ("K", "V"))
    GMap = Al("MxGMap", M(TP("K"), TP("V")), ("K", "V"))
    GMap2 = Al("MxGMapOfInt", N("MxGMap", (TP("K"), P("int32"))), ("K",))
    protos.append(Proto("MxGenericMaps", [("bySt", N("MxLookup", (P("string"), P("int32")))), ("byLabel", N("MxLookup", (N("MxLabel"), P("string")))), ("byInt", N("MxLookup", (P("int32"), P("string")))),
                                          ("byCount", N("MxLookup", (N("MxCount"), P("int32")))), ("aSt", N("MxGMap", (P("string"), N("MxRec")))), ("aInt", N("MxGMap", (P("uint16"), P("string")))),
                                          ("a2St", N("MxGMapOfInt", (P("string"),))), ("a2Long", N("MxGMapOfInt", (P("int64"),))), ("items", S(N("MxLookup", (P("string"), Opt(P("int32")))))),
                                          ("inUnion", U((("m", N("MxGMap", (P("string"), P("int32")))), ("n", P("int32"))), False, True)), ("vec", V(N("MxGMap", (N("MxLabel"), P("int32")))))]))
    # untagged unions with a case that is written as a JSON object (record, string-keyed map) whose value has exactly one member, named like one of the
    # union's tags: a reader that mistakes the bare object for the tagged form `{"<tag>": value}` returns another case
    Thr = Rec("MxThreshold", [("level", P("float64"))])
    OneOpt = Rec("MxOneOpt", [("note", Opt(P("string"))), ("level", Opt(P("float64"))), ("rec", Opt(P("int32")))])
    UTrig = U((("level", P("float64")), ("threshold", N("MxThreshold"))), False, True)
    UTitle = U(((None, N("MxAttrs")), (None, P("string"))))
    UOpts = U((("note", P("string")), ("rec", N("MxOneOpt"))), False, True)
    protos.append(Proto("MxTagLike", [("trigger", UTrig), ("title", UTitle), ("titles", V(UTitle)), ("opts", S(UOpts)), ("byKey", M(P("string"), UTitle)), ("held", N("MxTagHolder"))]))
    TagHolder = Rec("MxTagHolder", [("t", UTrig), ("a", UTitle), ("o", U((("note", P("string")), ("rec", N("MxOneOpt"))), True, True))])
    # a union one of whose cases is a type parameter: whether its cases can be told apart by their JSON kind is only known at the instantiation
    GenU = Rec("MxGenU", [("id", P("int32")), ("u", U(((None, TP("T")), (None, P("int32")))))], ("T",))
    protos.append(Proto("MxGenericUnion", [("withFloat", N("MxGenU", (P("float64"),))), ("withString", N("MxGenU", (P("string"),))), ("withRec", N("MxGenU", (N("MxRec2"),))),
                                           ("items", S(N("MxGenU", (P("float64"),)))), ("vec", V(N("MxGenU", (P("string"),))))]))
    return Pkg("Matrix", [GenU, Thr, OneOpt, TagHolder, Al("MxAttrs", M(P("string"), P("string"))), Rc, Rc2, E1, F1, Gen, AllOpt, Lookup, GMap, GMap2, Al("MxLabel", P("string")), Al("MxCount", P("uint16")), Al("MxRemark", Opt(P("string"))),
                          Al("MxNullU", U(((None, P("int32")), (None, P("string"))), True)), Al("MxRemark2", N("MxRemark")), Aliased, ArrRec, FM, FO, FZ, FlagRec] + protos)


def run_matrix(ctx, quick):
    pkg = matrix_package(quick)
    m = rt.prepare_model(ctx, "matrix", pkg, ["plain"])
    if m is None:
        raise Inconclusive("union matrix model did not build")
    c = m.codec
    ep = rt.CppEndpoint(m, "plain")

    def one(proto):
        sch = m.schema(proto.name)
        vg = values.ValueGen(c, rng("C02m", proto.name), json_safe=True)
        for k in range(6 if quick else 16):
            vals = vg.steps(proto)
            # make sure both cases of every union appear across sets
            for i, (sn, t) in enumerate(proto.steps):
                if isinstance(t, U) and not isinstance(t, S):
                    ci = k % len(t.cases)
                    vals[i] = (ci, vg.gen(c.fq(t.cases[ci][1]), 1))
            if proto.name == "MxDynamic" and k < 2:
                vals = [((), [42]), [((), [f64(1.5)]), ((2,), [f64(1.0), f64(2.0)]), ((), [f64(-0.5)])], [((), [7]), ((0,), [])], (0, ((), [-9]))] if k == 0 else \
                       [((1, 1, 1), [5]), [], [((), [0])], (0, ((1,), [3]))]
            if proto.name == "MxAllOptional":
                empty = [None, None, None]
                full = [(0, "x"), (0, k), (1, "s")]
                vals = [empty, (0, empty) if k % 2 == 0 else None, [empty, full, empty][: 1 + k % 3], [empty, full][: 1 + k % 2], (0, empty) if k % 3 else (1, "str"), [["k1", empty], ["k2", full]]]
            if proto.name == "MxTagLike":
                attrs = [[["string", "utf-8"]], [["MxAttrs", "none"]], [], [["string", "a"], ["MxAttrs", "b"]], [["other", "x"]], [["title", "t"]]]
                titles = [(0, a) for a in attrs] + [(1, "plain"), (1, "string")]
                opts = [(1, [(0, "n"), None, None]), (1, [None, (0, f64(1.0)), None]), (1, [None, None, (0, 7)]), (1, [None, None, None]), (0, "note"), (1, [(0, "a"), (0, f64(2.0)), None])]
                trig = [(1, [f64(2.5)]), (0, f64(2.5))][k % 2]
                vals = [trig, titles[k % len(titles)], titles[k % 3:], opts[k % 2:], [["string", titles[0]], ["k", titles[k % len(titles)]], ["MxAttrs", titles[1]]],
                        [(1, [f64(-1.0)]), titles[(k + 1) % 2], None if k % 3 == 0 else opts[k % 4]]]
            if proto.name == "MxFlagValues":
                lo, hi = k * 43, min(256, k * 43 + 43)
                vals = [list(range(lo, hi)), list(range(lo, hi)), list(range(lo, hi)), [[i, (None if i % 3 == 0 else (0, (i * 5) % 256)), (i * 11) % 256] for i in range(lo, hi)],
                        [["k%d" % i, i] for i in (4, 5, 8, 10, 12, 13, 255)]]
            if proto.name == "MxAliasedOptional":
                nul = [k, None, None, None, None]
                full = [k, (0, "r%d" % k), (1, "u") if k % 2 else (0, -k), (0, "d"), (0, "chain")]
                vals = [nul if k % 2 == 0 else full, [nul, full, nul, full][: 1 + k % 4], [full, nul][: 1 + k % 2], None if k % 2 else (0, "s"), None if k % 3 == 0 else (0, 3)]
            if proto.name == "MxGenericNullable":
                vals[0] = [[i, (None if i % 2 else (0, i * 7))] for i in range(6)]
                vals[1] = [[i, (None if i % 3 == 1 else ((0, i) if i % 3 == 0 else (1, "s%d" % i)))] for i in range(7)]
                vals[2] = [[i, (None if i % 2 else (0, "t%d" % i))] for i in range(6)]
            data = c.encode_stream(proto, sch, vals)
            mx = {"matrix": True, "trigger": rt.ndjson_tag_collision_trigger(m, proto)}
            if proto.name == "MxGenericUnion":
                # the pinned witness of the listed finding c02-union-with-type-parameter-case (the only protocol that holds such a union)
                mx["trigger"] = (mx["trigger"] or "") + "[union-with-type-parameter-case]"
                mx["pinned"] = "[union-with-type-parameter-case]"
            ctx.case(("matrix", proto.name, k))
            tag = "union-matrix %s set %d" % (proto.name, k)
            r = ep.copy(proto.name, "bin", "ndjson", data)
            ctx.ev(); ctx.count("matrix.bin->ndjson")
            ok = judge_doc(ctx, m, proto, vals, r, ep.name, tag + " bin->ndjson", mx, data)
            ref_text = ("\n".join(c.ndjson_lines(proto, sch, vals)) + "\n").encode()
            r2 = ep.copy(proto.name, "ndjson", "bin", ref_text)
            ctx.ev(); ctx.count("matrix.refndjson->bin")
            rt.judge(ctx, m, proto, vals, ref_text, r2, ep.name, "bin", tag + " refndjson->bin", mx)
            if r.rc == 0:
                r3 = ep.copy(proto.name, "ndjson", "bin", r.out)
                ctx.ev(); ctx.count("matrix.gen-ndjson->bin")
                rt.judge(ctx, m, proto, vals, r.out, r3, ep.name, "bin", tag + " gen-ndjson->bin (round trip through generated code)", mx)
            python_side(ctx, m, proto, vals, data, tag, {"matrix": True, "pinned": mx.get("pinned", "")})

    pmap(one, pkg.protocols())
    ctx.sample({"matrix_protocols": len(pkg.protocols()), "unions": sum(len(p.steps) for p in pkg.protocols())})
    m.close()


def run(ctx):
    common.build_yardl()
    quick = ctx.tier == "quick"
    ctx.rule = ("ser-corpus models x protocols x JSON-representable value sets (finite floats): bin->ndjson compared line by line with the "
                "documented mapping, reference NDJSON ->bin, generated NDJSON -> generated reader -> bin, ndjson->ndjson; plus a union matrix "
                "(every unordered pair of JSON kinds produced by case types, some nullable) with every case exercised. "
                "distinct = (model, protocol, value set) / (matrix protocol, value set).")
    ctx.assumptions = ["reference mapping written from docs/reference/ndjson.md and self-tested on its 22-line transcript",
                       "float text formatting, object key order, trailing 'Z' on datetimes are don't-care",
                       "harness date shim formats %F / %T / %FT%T like Howard Hinnant's date.h"]
    keys = corpus.ser_keys(8 if quick else 120)
    nsets = 4 if quick else 10

    def work(key):
        pkg = corpus.ser_package(key, depth=3 if quick else 4)
        run_model(ctx, key, pkg, nsets, ["plain"])

    pmap(work, keys, workers=6)
    run_matrix(ctx, quick)
    run_time_representations(ctx)
    cxx.prune_cache()


def replay(ctx, path):
    import os
    r = json.load(open(path))
    os.environ["VERIF_SEED"] = str(r.get("seed", 1))
    print(json.dumps(r.get("case"), indent=1, default=str)[:3000])
    run(ctx)
