"""C01 - binary write/read round trip and wire-format conformance (generated C++; generated Python on the corpus, the big values and the retained-values streams).

Workload: `ser` corpus models x protocols x edge-heavy value sets, plus a boundary sweep that places
every primitive / container / record encoder at byte offsets 64KiB-12 .. 64KiB+2 of the stream
(reader refill and writer flush straddles), as a plain step value and inside stream blocks.
Monitor: bytes on the driver's stdout, exit status, stderr, ASan/UBSan reports.
Oracle: reference decoder (written from docs/reference/binary.md) applied to what the generated
writer emitted, after the generated reader consumed reference-encoded input."""
from __future__ import annotations

from vlib import common, corpus, cxx, rt, values
from vlib.common import pmap, rng
from vlib.model import *  # noqa

LEVEL = "exploration"
FLOOR = {"quick": 400, "thorough": 4000}


def run_model(ctx, key, pkg, nsets, flavors):
    m = rt.prepare_model(ctx, key, pkg, flavors)
    if m is None:
        return
    c = m.codec
    eps = [rt.CppEndpoint(m, fl) for fl in flavors]
    for proto in pkg.protocols():
        sch = m.schema(proto.name)
        vg = values.ValueGen(c, rng("C01v", key, proto.name))
        for k in range(nsets):
            big = (k == nsets - 1)
            vals = vg.steps(proto, stream_len=(60 if big else None))
            data = c.encode_stream(proto, sch, vals)
            ctx.case(("vals", key, proto.name, k, len(data)))
            for ep in eps:
                r = ep.copy(proto.name, "bin", "bin", data)
                ctx.ev()
                ctx.count("corpus." + ep.name)
                rt.judge(ctx, m, proto, vals, data, r, ep.name, "bin", "corpus %s/%s set %d" % (key, proto.name, k), {"key": key, "set": k})
            if k in (0, nsets - 1):
                # second opinion on the uninstrumented build: valgrind memcheck also reports uninitialised bytes reaching the output (e.g. struct padding)
                epv = rt.CppEndpoint(m, "valgrind")
                r = epv.copy(proto.name, "bin", "bin", data)
                ctx.ev()
                ctx.count("corpus." + epv.name)
                rt.judge(ctx, m, proto, vals, data, r, epv.name, "bin", "corpus %s/%s set %d (valgrind memcheck)" % (key, proto.name, k), {"key": key, "set": k})
            # the other ways of calling the generated writer: batches of 3 through the vector overloads, with empty batches in between
            nstreams = sum(1 for _, t in proto.steps if isinstance(c.fq(t), S))
            if nstreams and k < 2:
                epb = rt.CppEndpoint(m, flavors[0], bufs=[3] * nstreams, empty_batches=True)
                r = epb.copy(proto.name, "bin", "bin", data)
                ctx.ev()
                ctx.count("corpus.batched." + epb.name)
                rt.judge(ctx, m, proto, vals, data, r, epb.name, "bin", "corpus %s/%s set %d (writer called with batches of 3 and empty batches)" % (key, proto.name, k), {"key": key, "set": k, "batched": True})
        # the generated Python reader and writer on the same corpus (own value sets: CPython quiets signalling NaNs when it widens a float32);
        # once through copy_to and once with a consumer that keeps every stream item until the stream has been read to its end
        vgp = values.ValueGen(c, rng("C01p", key, proto.name), quiet_nan_only=True)
        for k in range(min(nsets, 3)):
            vals = vgp.steps(proto, stream_len=(40 if k == 2 else None))
            data = c.encode_stream(proto, sch, vals)
            ctx.case(("pyvals", key, proto.name, k, len(data)))
            # (fortran / views: every array is handed to the writer in another memory layout - Fortran order, a strided and reversed view)
            for ep in (rt.PyEndpoint(m), rt.PyEndpoint(m, mode="list"), rt.PyEndpoint(m, mode="fortran"), rt.PyEndpoint(m, mode="views")):
                r = ep.copy(proto.name, "bin", "bin", data)
                ctx.ev()
                ctx.count("corpus." + ep.name)
                rt.judge(ctx, m, proto, vals, data, r, ep.name, "bin", "corpus %s/%s python set %d" % (key, proto.name, k), {"key": key, "set": k})
        for _, t in proto.steps:
            for x in walk_types(t):
                ctx.count("shape." + type(x).__name__)
    ctx.sample({"model": key, "protocols": {p.name: [emit_type(t) for _, t in p.steps] for p in pkg.protocols()}})
    m.close()


def emit_type(t):
    from vlib import emit
    s = emit.tsimple(t, emit.Style())
    return s if s is not None else repr(t)[:120]


def run_sweep(ctx, flavors, offsets):
    pkg, cases = corpus.sweep_package()
    m = rt.prepare_model(ctx, "sweep", pkg, flavors)
    if m is None:
        raise common.Inconclusive("sweep model did not build")
    c = m.codec
    jobs = rt.sweep_jobs(m, pkg, cases, offsets)

    def one(job):
        proto, vals, parts, off, kind = job
        data = c.encode_stream(proto, m.schema(proto.name), vals, partitions=parts)
        for fl in flavors:
            ep = rt.CppEndpoint(m, fl)
            r = ep.copy(proto.name, "bin", "bin", data)
            ctx.ev()
            ctx.count("sweep." + ep.name)
            rt.judge(ctx, m, proto, vals, data, r, ep.name, "bin", "sweep %s at 64KiB%+d" % (proto.name, off), {"sweep_offset": off})
        ctx.case(("sweep", proto.name, off))

    pmap(one, jobs)
    ctx.sample({"sweep_protocols": len(cases), "offsets": list(offsets), "jobs": len(jobs)})
    m.close()


def run_big(ctx, flavors):
    """single contiguous values of 64 KiB and more, as a step value and as stream items"""
    pkg, cases = corpus.big_package()
    m = rt.prepare_model(ctx, "bigvals", pkg, flavors)
    if m is None:
        raise common.Inconclusive("big-value model did not build")
    c = m.codec

    def one(case):
        pname, t, v = case
        proto = pkg.find(pname)
        for k, (items, parts) in enumerate([([v], None), ([v, v], {2: [1, 1]}), ([], None)]):
            vals = [0xCAFE, v, items, "tail-ü"]
            data = c.encode_stream(proto, m.schema(pname), vals, partitions=parts)
            for fl in flavors:
                ep = rt.CppEndpoint(m, fl)
                r = ep.copy(pname, "bin", "bin", data)
                ctx.ev()
                ctx.count("big." + ep.name)
                rt.judge(ctx, m, proto, vals, data, r, ep.name, "bin", "big value %s (%d bytes, variant %d)" % (pname, len(data), k), {"big": pname})
            for ep in (rt.PyEndpoint(m), rt.PyEndpoint(m, mode="list")):
                r = ep.copy(pname, "bin", "bin", data)
                ctx.ev()
                ctx.count("big." + ep.name)
                rt.judge(ctx, m, proto, vals, data, r, ep.name, "bin", "big value %s (%d bytes, variant %d, python)" % (pname, len(data), k), {"big": pname})
            ctx.case(("big", pname, k))
    pmap(one, cases)
    ctx.sample({"big_values": [(n, len(m.codec.encode_stream(pkg.find(n), "{}", [0, v, [], ""]))) for n, t, v in cases]})
    m.close()


def run_retained(ctx):
    """values that must stay intact after the reader has moved on: many small arrays / strings / byte vectors inside one long vector and as stream items,
    followed by more than 64 KiB of further data, read by a consumer that keeps every value (Python: list mode; C++: batches of 64)"""
    f32t = P("float32")
    pkg = Pkg("Retained", [Rec("RtMarker", [("id", P("uint32")), ("pos", A(f32t, ((None, 3),))), ("w", A(P("float64"), None)), ("tag", P("string")), ("raw", V(P("uint8")))]),
                           Proto("RtP", [("markers", V(N("RtMarker"))), ("frames", S(A(f32t, 1))), ("grids", S(A(P("complexfloat32"), 2))), ("marks", S(N("RtMarker"))), ("end", P("string"))])])
    m = rt.prepare_model(ctx, "retained", pkg, ["plain"])
    if m is None:
        raise common.Inconclusive("retained-values model did not build")
    c = m.codec
    from vlib.refcodec import f32, f64

    def marker(i):
        return [i, ((3,), [f32(float(i)), f32(float(i) + 0.5), f32(-float(i))]), ((2,), [f64(float(i) * 3), f64(0.25)]), "m%05d" % i, [i % 251, (i * 7) % 251, 3]]
    for n in (40, 3000):
        vals = [[marker(i) for i in range(n)], [((8,), [f32(float(i * 8 + j)) for j in range(8)]) for i in range(n)],
                [((2, 2), [(f32(float(i)), f32(float(j))) for j in range(4)]) for i in range(n // 2)], [marker(i + 7) for i in range(n // 3)], "end"]
        proto = pkg.find("RtP")
        data = c.encode_stream(proto, m.schema("RtP"), vals)
        ctx.case(("retained", n, len(data)))
        for ep in (rt.PyEndpoint(m), rt.PyEndpoint(m, mode="list"), rt.PyEndpoint(m, mode="itemwise"), rt.CppEndpoint(m, "plain"), rt.CppEndpoint(m, "plain", bufs=[64, 64, 64])):
            r = ep.copy("RtP", "bin", "bin", data)
            ctx.ev()
            ctx.count("retained." + ep.name)
            rt.judge(ctx, m, proto, vals, data, r, ep.name, "bin", "retained values, %d markers, %d bytes (%s)" % (n, len(data), ep.name), {"retained": n})
    m.close()


def run_generic_instances(ctx):
    """generic aliases and generic records instantiated, in one namespace, with type arguments that a target language spells alike although they are
    encoded differently: vectors with and without a fixed length, arrays of unknown rank / known rank / fixed shape, int32 and an alias of it"""
    i32, f32t = P("int32"), P("float32")
    args = [("DynVec", V(i32)), ("Fix3", V(i32, 3)), ("Fix2", V(i32, 2)), ("AnyRank", A(f32t, None)), ("Rank2", A(f32t, 2)), ("Rank1", A(f32t, 1)), ("Fixed23", A(f32t, ((None, 2), (None, 3)))),
            ("Fixed32", A(f32t, ((None, 3), (None, 2)))), ("Plain", i32)]
    gens = [Al("GiLabeled", M(P("string"), TP("T")), ("T",)), Al("GiMany", V(TP("T")), ("T",)), Al("GiMaybe", Opt(TP("T")), ("T",)), Rec("GiBox", [("content", TP("T")), ("n", P("uint8"))], ("T",)),
            Al("GiBoxes", V(N("GiBox", (TP("T"),))), ("T",))]
    protos = []
    for g in ("GiLabeled", "GiMany", "GiMaybe", "GiBox", "GiBoxes"):
        protos.append(Proto("Gp" + g[2:], [(nm[0].lower() + nm[1:], N(g, (t,))) for nm, t in args] + [("tail", S(N(g, (args[1][1],))))]))
    pkg = Pkg("GenInst", gens + protos)
    m = rt.prepare_model(ctx, "geninst", pkg, ["plain"])
    if m is None:
        raise common.Inconclusive("generic-instances model did not build")
    c = m.codec
    for proto in pkg.protocols():
        for k in range(3):
            vals = values.ValueGen(c, rng("C01gi", proto.name, k), quiet_nan_only=True, max_len=4).steps(proto, stream_len=2)
            data = c.encode_stream(proto, m.schema(proto.name), vals)
            ctx.case(("generic-instances", proto.name, k))
            for ep in (rt.CppEndpoint(m, "plain"), rt.PyEndpoint(m), rt.PyEndpoint(m, mode="list")):
                r = ep.copy(proto.name, "bin", "bin", data)
                ctx.ev()
                ctx.count("generic-instances." + ep.name)
                rt.judge(ctx, m, proto, vals, data, r, ep.name, "bin", "generic instances %s set %d" % (proto.name, k), {"generic_instances": True})
    m.close()


def run_time_representations(ctx):
    """dates, times and datetimes in every position, handed to the generated Python writer in each representation it accepts (yardl.DateTime / Time,
    datetime.datetime / datetime.time, numpy.datetime64 / timedelta64 in ns and in coarser units): the instant written is the instant given. Values
    before and after 1970, with and without a fractional second, at the limits of the nanosecond range."""
    dt, tm, da, st = P("datetime"), P("time"), P("date"), P("string")
    rec = Rec("TrRec", [("d", da), ("t", tm), ("dt", dt), ("odt", Opt(dt)), ("vdt", V(dt)), ("vt", V(tm, 2)), ("m", M(st, dt)), ("u", U((("t", tm), ("dt", dt), ("d", da)), False, True))])
    pkg = Pkg("TimeRepr", [rec, Proto("TrP", [("first", dt), ("moments", S(dt)), ("times", S(tm)), ("days", S(da)), ("recs", S(N("TrRec"))), ("last", Opt(dt))])])
    m = rt.prepare_model(ctx, "timerepr", pkg, ["plain"])
    if m is None:
        raise common.Inconclusive("time-representation model did not build")
    c = m.codec
    proto = pkg.find("TrP")
    S_, MS, US = 10 ** 9, 10 ** 6, 10 ** 3
    moments = [0, 1, -1, US, -US, -999999 * US, -1000001 * US, -S_, -S_ - 500 * MS, -86400 * S_ + 250 * MS, -86400 * S_ - 1 * US, 1500 * MS, -1500 * MS, 86399 * S_ + 999999 * US,
               -2208988800 * S_ + 123456 * US, -2208988800 * S_ - 123456 * US, 1700000000 * S_ + 987654 * US, 1700000000 * S_ + 987654321, -(2 ** 62), 2 ** 62, -(2 ** 63) + 1000 * S_, 2 ** 63 - 1 - 1000 * S_,
               -6857222400 * S_ + 1 * US, 253402300799 * S_ // 100, -6857222400 * S_ - 999999 * US, 9100000000 * S_ + 123457 * US, -9100000000 * S_ - 123457 * US, 9223372036 * S_ + 854775 * US, -9223372036 * S_ - 854775 * US, -S_ + 1, -S_ - 1, 7 * US + 1]
    times = [0, 1, US, 999999 * US, 86399 * S_ + 999999 * US, 86399 * S_ + 999999999, 12 * 3600 * S_, 3661 * S_ + 1001 * US, 43200 * S_ + 1]
    days = [0, 1, -1, -25567, 19000, -141427, 2932896, -719162]
    for k in range(3):
        r = rng("C01tr", k)
        mo = moments[k::3] + [r.choice(moments) for _ in range(3)]
        recs = []
        for j, x in enumerate(mo):
            u = [(0, times[j % len(times)]), (1, x), (2, days[j % len(days)])][j % 3]
            recs.append([days[j % len(days)], times[(j + k) % len(times)], x, (None if j % 4 == 0 else (0, moments[(j * 5 + k) % len(moments)])), [moments[(j + i) % len(moments)] for i in range(j % 3)],
                         [times[j % len(times)], times[(j + 1) % len(times)]], [("k%d" % i, moments[(j * 3 + i) % len(moments)]) for i in range(j % 3)], u])
        vals = [moments[(7 * k + 2) % len(moments)], mo, times[k::2], days[k::2], recs, (None if k == 0 else (0, moments[-1 - k]))]
        data = c.encode_stream(proto, m.schema("TrP"), vals)
        ctx.case(("time-representations", k))
        for ep in (rt.PyEndpoint(m), rt.PyEndpoint(m, mode="altrepr"), rt.PyEndpoint(m, mode="list"), rt.CppEndpoint(m, "plain")):
            res = ep.copy("TrP", "bin", "bin", data)
            ctx.ev()
            ctx.count("time-representations." + ep.name)
            rt.judge(ctx, m, proto, vals, data, res, ep.name, "bin", "dates / times / datetimes set %d through %s" % (k, ep.name), {"time_representations": True})
    m.close()


def run_wide(ctx, flavors):
    """shapes whose *size* crosses an encoding boundary: a union with 130 alternatives (tags >= 128 need two varint bytes), also nullable
    (tag shifted by one), as a step, as stream items and as vector elements; through the generated C++ and the generated Python"""
    recs = [Rec("W%d" % i, [("v", P("int32"))]) for i in range(130)]
    wide = U(tuple((None, N("W%d" % i)) for i in range(130)))
    widen = U(tuple((None, N("W%d" % i)) for i in range(129)), True)
    pkg = Pkg("Wide", recs + [Proto("WideP", [("one", wide), ("items", S(wide)), ("vec", V(wide)), ("opt", widen), ("optitems", S(widen)), ("end", P("uint8"))])])
    m = rt.prepare_model(ctx, "wide", pkg, flavors)
    if m is None:
        raise common.Inconclusive("wide model did not build")
    c = m.codec
    proto = pkg.find("WideP")
    sch = m.schema("WideP")
    picks = [0, 1, 126, 127, 128, 129]
    for k, first in enumerate(picks):
        uv = lambda i, x: (i, [x])
        vals = [uv(first, 7), [uv(i, -i) for i in picks], [uv(i, i * 3) for i in reversed(picks)],
                (None if k == 0 else uv(min(first, 128), 9)), [None] + [uv(i, i) for i in picks if i < 129], 200 + k]
        data = c.encode_stream(proto, sch, vals)
        for ep in [rt.CppEndpoint(m, fl) for fl in flavors] + [rt.PyEndpoint(m), rt.PyEndpoint(m, mode="list")]:
            r = ep.copy("WideP", "bin", "bin", data)
            ctx.ev()
            ctx.count("wide." + ep.name)
            rt.judge(ctx, m, proto, vals, data, r, ep.name, "bin", "130-way union, first tag %d" % first, {"wide": first})
        ctx.case(("wide", first))
    m.close()


def run(ctx):
    common.build_yardl()
    quick = ctx.tier == "quick"
    n_models = 10 if quick else 150
    nsets = 6 if quick else 14
    ctx.rule = ("ser-corpus models (seeded random type graphs: every constructor at every position, generics, aliases, imports) x "
                "protocols x edge-heavy value sets (varint boundaries, NaN payloads, inf, multi-byte UTF-8, empty and 60-item streams), "
                "reference-encoded, copied bin->bin through the generated C++ reader and writer (plain + ASan/UBSan builds) and "
                "reference-decoded; plus a boundary sweep: %d encoders x {step value, stream block} x every offset 64KiB-12..+2. "
                "distinct = (model, protocol, value set, encoded length) or (sweep protocol, offset)." % len(corpus.sweep_types()))
    ctx.assumptions = ["reference codec written from docs/reference/binary.md (8-bit integers as single bytes: docs fix, DESIGN §7)",
                       "harness ndarray/date shims stand in for xtensor / date.h (not installed)",
                       "UBSan nonnull-attribute (memcpy(p, nullptr, 0)) is not counted: real code does it benignly",
                       "HDF5 and MATLAB serializers cannot be executed in this sandbox",
                       "models whose generated C++ does not compile are skipped here and reported by C08"]
    keys = corpus.ser_keys(n_models)
    asan_keys = set(keys[: (3 if quick else 40)])

    def work(key):
        pkg = corpus.ser_package(key, depth=3 if quick else 4)
        run_model(ctx, key, pkg, nsets, ["plain"] + (["asan"] if key in asan_keys else []))

    pmap(work, keys, workers=6)
    run_sweep(ctx, ["plain", "asan"], range(-12, 3))
    run_big(ctx, ["plain", "asan"])
    run_wide(ctx, ["plain"])
    run_retained(ctx)
    run_generic_instances(ctx)
    run_time_representations(ctx)
    cxx.prune_cache()


def replay(ctx, path):
    import json, os
    r = json.load(open(path))
    os.environ["VERIF_SEED"] = str(r.get("seed", 1))
    print("replaying by re-running the deterministic case list at seed %s; original case:" % r.get("seed"))
    print(json.dumps(r.get("case"), indent=1)[:3000])
    run(ctx)
