"""C09 - the language rules are enforced wherever a violation occurs.

Workload: exactly one rule violation injected into an otherwise valid multi-package tree (main package,
second model file, imported package, previous version) at every position where it can occur (top-level
alias, record field, generic argument, vector item, map value, union case, protocol step, stream item,
behind an alias chain). Every rule's construct is first run as a *control* - alone, at top level, in a
single-file package - which calibrates what yardl treats as that rule's violation.
Monitor: exit status and stderr of `yardl validate` and `yardl generate`.
Oracle: exit 1 (not 0, not a crash) and some error names the file that contains the violation."""
from __future__ import annotations

import json
import os
import shutil

from vlib import cli, common
from vlib.common import pmap, rng, Inconclusive

LEVEL = "exploration"
FLOOR = {"quick": 600, "thorough": 2000}

# --- type-level constructs: a type expression (YAML flow text) that violates one rule -----------------
# (rule id, named in property statement?, type text, extra top-level definitions it needs)
TYPE_RULES = [
    ("unknown-type", True, "Missing", ""),
    ("unknown-type-qualified", True, "Nowhere.Missing", ""),
    ("generic-arity-too-many", True, "'HWrap<int, int>'", ""),
    ("generic-arity-missing", True, "HWrap", ""),
    ("generic-args-on-nongeneric", True, "'HPlain<int>'", ""),
    ("union-null-not-first", True, "[int, null]", ""),
    ("union-only-null", True, "[null]", ""),
    ("union-duplicate-case", True, "[int, string, int]", ""),
    ("union-duplicate-case-alias", True, "[int, HIntAlias]", ""),
    ("union-nested", True, "[int, [string, float]]", ""),
    ("union-nested-in-optional", True, "[null, [int, float]]", ""),
    ("optional-nested-in-optional", True, "[null, [null, int]]", ""),
    ("union-nested-in-optional-expanded", True, "[null, !union {a: int, b: float}]", ""),
    ("union-duplicate-tag", True, "!union {a: int, b: string, a: float}", ""),
    ("union-bad-tag-case", True, "!union {Bad: int, good: string}", ""),
    ("union-untaggable-case", True, "[int*, string]", ""),
    ("stream-outside-step", True, "!stream {items: int}", ""),
    ("map-key-record", True, "!map {keys: HPlain, values: int}", ""),
    ("map-key-vector", True, "!map {keys: !vector {items: int}, values: int}", ""),
    ("map-key-vector-alias", True, "!map {keys: HVecAlias, values: int}", ""),
    ("map-key-enum", True, "!map {keys: HEnum, values: int}", ""),
    ("array-dims-partial", True, "'int[x:2, y]'", ""),
    ("array-dims-duplicate-name", True, "'int[x, x]'", ""),
    ("array-dim-bad-name", True, "'int[BadDim:2]'", ""),
    ("vector-of-stream", True, "!vector {items: !stream {items: int}}", ""),
    ("stream-of-stream", True, "!stream {items: !stream {items: int}}", ""),
    ("map-of-stream", True, "!map {keys: string, values: !stream {items: int}}", ""),
    ("map-key-record-in-nested-map", True, "!map {keys: string, values: !map {keys: HPlain, values: int}}", ""),
    ("map-key-map", True, "!map {keys: !map {keys: string, values: int}, values: int}", ""),
    ("union-alias-of-vector-case-needs-tag", True, "[HVecAlias, !vector {items: float}]", ""),
    # the key type only becomes known through the type arguments given to a generic map / a generic record holding one
    ("map-key-record-via-generic-alias", True, "HMapOf<HPlain>", ""),
    ("map-key-enum-via-generic-alias", True, "HMapOf<HEnum>", ""),
    ("map-key-record-via-generic-record", True, "HHolds<HPlain>", ""),
    ("map-key-vector-via-nested-generics", True, "HWrap<HHolds<HVecAlias>>", ""),
]
HELPERS = """
HWrap<T>: !record
  fields:
    v: T
HPlain: !record
  fields:
    p: int
HIntAlias: int
HVecAlias: !vector {items: int}
HEnum: !enum
  values: [ea, eb]
HMapOf<K>: !map {keys: K, values: int}
HHolds<T>: !record
  fields:
    inner: HMapOf<T>
"""

# --- definition-level constructs: whole definitions that violate one rule ---------------------------------
DEF_RULES = [
    ("type-name-case", True, "badTypeName: int\n"),
    ("field-name-case", True, "R1: !record\n  fields:\n    BadField: int\n"),
    ("step-name-case", True, "P1: !protocol\n  sequence:\n    BadStep: int\n"),
    ("enum-symbol-case", True, "E1: !enum\n  values: [Bad, ok]\n"),
    ("typeparam-name-case", True, "'G1<t>': !record\n  fields:\n    a: t\n"),
    ("computed-name-case", True, "R1: !record\n  fields:\n    a: int\n  computedFields:\n    BadComputed: a\n"),
    ("duplicate-type-name", True, "Dup1: int\n---\nDup1: string\n"),
    ("duplicate-type-protocol-name", True, "Dup2: int\n---\nDup2: !protocol\n  sequence:\n    a: int\n"),
    ("duplicate-field-vs-computed", True, "R1: !record\n  fields:\n    a: int\n  computedFields:\n    a: 1\n"),
    ("duplicate-enum-symbol", True, "E1: !enum\n  values: [sa, sa]\n"),
    ("duplicate-enum-value", True, "E1: !enum\n  values:\n    sa: 1\n    sb: 1\n"),
    ("duplicate-type-parameter", True, "'G1<T, T>': !record\n  fields:\n    a: T\n"),
    ("cycle-record", True, "C1: !record\n  fields:\n    x: C2\nC2: !record\n  fields:\n    y: C1\n"),
    ("cycle-self", True, "C1: !record\n  fields:\n    x: C1?\n"),
    ("cycle-alias", True, "C1: C2*\nC2: C1?\n"),
    ("cycle-through-generic", True, "'CG<T>': !record\n  fields:\n    t: T\nC1: !record\n  fields:\n    x: CG<C1>\n"),
    ("cycle-through-imported-generic", True, "C1: !record\n  fields:\n    x: Lib.LibWrap<C1>\n"),
    ("unused-type-parameter", True, "'U1<T>': int\n"),
    ("unused-type-parameter-record", True, "'U1<T, V>': !record\n  fields:\n    a: T\n"),
    ("reference-to-protocol", True, "PX: !protocol\n  sequence:\n    a: int\nR1: !record\n  fields:\n    p: PX\n"),
    ("generic-protocol", True, "'PX<T>': !protocol\n  sequence:\n    a: T\n"),
    ("generic-enum", True, "'E1<T>': !enum\n  values: [sa]\n"),
    ("enum-value-out-of-range", True, "E1: !enum\n  base: uint8\n  values:\n    sa: 256\n"),
    ("enum-negative-unsigned", True, "E1: !enum\n  base: uint16\n  values:\n    sa: -1\n"),
    ("enum-base-float", True, "E1: !enum\n  base: float32\n  values: [sa]\n"),
    ("enum-base-string-alias", True, "S1: string\nE1: !enum\n  base: S1\n  values: [sa]\n"),
    ("flags-value-out-of-range", True, "F1: !flags\n  base: int8\n  values:\n    sa: 128\n"),
    ("flags-auto-after-negative", True, "F1: !flags\n  values:\n    sa: -1\n    sb:\n"),
    ("empty-record", True, "R1: !record\n  fields: {}\n"),
    ("empty-protocol", True, "P1: !protocol\n  sequence: {}\n"),
    ("field-null-type", True, "R1: !record\n  fields:\n    a: null\n"),
    ("computed-unknown-field", True, "R1: !record\n  fields:\n    a: int\n  computedFields:\n    c: nope\n"),
    ("computed-string-plus-int", True, "R1: !record\n  fields:\n    a: int\n    s: string\n  computedFields:\n    c: a + s\n"),
    ("computed-size-of-scalar", True, "R1: !record\n  fields:\n    a: int\n  computedFields:\n    c: size(a)\n"),
    ("computed-index-scalar", True, "R1: !record\n  fields:\n    a: int\n  computedFields:\n    c: a[0]\n"),
    ("computed-bad-dimension-name", True, "R1: !record\n  fields:\n    a: 'int[x, y]'\n  computedFields:\n    c: size(a, 'z')\n"),
    ("computed-too-many-indices", True, "R1: !record\n  fields:\n    a: 'int[x, y]'\n  computedFields:\n    c: a[0, 1, 2]\n"),
    ("computed-negated-string", True, "R1: !record\n  fields:\n    s: string\n  computedFields:\n    c: -s\n"),
    ("computed-negated-bool", True, "R1: !record\n  fields:\n    b: bool\n  computedFields:\n    c: -b\n"),
    ("computed-negated-vector", True, "R1: !record\n  fields:\n    v: int*\n  computedFields:\n    c: -v\n"),
    ("computed-cast-string-to-date", True, "R1: !record\n  fields:\n    s: string\n  computedFields:\n    c: s as date\n"),
    ("computed-cast-bool-to-string", True, "R1: !record\n  fields:\n    b: bool\n  computedFields:\n    c: b as string\n"),
    ("computed-string-plus-string", True, "R1: !record\n  fields:\n    s: string\n    t: string\n  computedFields:\n    c: s + t\n"),
    ("computed-bool-times-bool", True, "R1: !record\n  fields:\n    s: bool\n    t: bool\n  computedFields:\n    c: s * t\n"),
    ("computed-date-minus-date-in-switch", True, "R1: !record\n  fields:\n    d: date\n    o: int?\n  computedFields:\n    c:\n      !switch o:\n        int: d - d\n        _: d - d\n"),
    ("computed-bad-cast", True, "R1: !record\n  fields:\n    a: int*\n  computedFields:\n    c: a as string\n"),
    ("computed-switch-not-exhaustive", True, "R1: !record\n  fields:\n    u: [int, string]\n  computedFields:\n    c:\n      !switch u:\n        int: 1\n"),
    ("computed-switch-impossible-case", True, "R1: !record\n  fields:\n    u: [int, string]\n  computedFields:\n    c:\n      !switch u:\n        int: 1\n        string: 2\n        float: 3\n"),
    ("computed-parse-error", True, "R1: !record\n  fields:\n    a: int\n  computedFields:\n    c: a +\n"),
    ("unknown-record-key", True, "R1: !record\n  fields:\n    a: int\n  bogusKey: 1\n"),
    ("unknown-tag", True, "R1: !bogus\n  fields:\n    a: int\n"),
]

# the naming rule, one ill-formed name per case in every kind of position where a name is given. The documented patterns are ASCII-only
# (^[a-z][a-zA-Z0-9]{0,63}$ for members, ^[A-Z][a-zA-Z0-9]{0,63}$ for types): wrong first-letter case, separators, leading digits, non-ASCII letters
# and digits of several scripts, one character too long.
BAD_MEMBER_NAMES = ["BadName", "bad_name", "bad-name", "1bad", "_bad", "t\u00e4g", "twic\u00e9", "\u00e4gypten", "\u043c\u0435\u0442\u043a\u0438", "tags\u0663", "\u03b1lpha", "na\u00efve", "b" * 65, "\uff41bc"]
BAD_TYPE_NAMES = ["badType", "Bad_Type", "Bad-Type", "1Bad", "_Bad", "B\u00f6x", "\u0164ype", "\u0422\u0438\u043f", "\u00c4rger", "Caf\u00e9", "B" * 65, "\uff21bc", "Type\u0663"]
_NAME_SHAPES = {
    "field": ("m", "R1: !record\n  fields:\n    %s: int\n"),
    "computed": ("m", "R1: !record\n  fields:\n    a: int\n  computedFields:\n    %s: a\n"),
    "step": ("m", "P1: !protocol\n  sequence:\n    %s: int\n"),
    "enum-symbol": ("m", "E1: !enum\n  values:\n    %s: 1\n    ok: 2\n"),
    "flags-symbol": ("m", "F1: !flags\n  values:\n    %s: 1\n    ok: 2\n"),
    "union-tag": ("m", "U1: !union\n  %s: int\n  other: string\n"),
    "dimension": ("m", "R1: !record\n  fields:\n    a: !array\n      items: int\n      dimensions: [%s, ok]\n"),
    "type": ("t", "%s: int\n"),
    "record": ("t", "%s: !record\n  fields:\n    a: int\n"),
    "protocol": ("t", "%s: !protocol\n  sequence:\n    a: int\n"),
    "enum": ("t", "%s: !enum\n  values: [sa, sb]\n"),
}
NAME_RULES = []
for _pos, (_kind, _tpl) in _NAME_SHAPES.items():
    for _nm in (BAD_MEMBER_NAMES if _kind == "m" else BAD_TYPE_NAMES):
        NAME_RULES.append(("name:%s:%s" % (_pos, _nm if len(_nm) < 30 else _nm[:3] + "x%d" % len(_nm)), True, _tpl % json.dumps(_nm, ensure_ascii=False)))
for _nm in BAD_TYPE_NAMES[:10]:
    if all(ch.isalnum() for ch in _nm):
        NAME_RULES.append(("name:type-parameter:%s" % _nm, True, "%s: !record\n  fields:\n    a: %s\n" % (json.dumps("G1<%s>" % _nm, ensure_ascii=False), json.dumps(_nm, ensure_ascii=False))))

# subscripts in computed fields: an index that is not an integer (a string / float literal, a string / float / bool / record field) in every
# index position of every kind of container (vector, fixed vector, arrays without dimensions, with a rank, with named and with fixed dimensions)
_CONT = {"vec": ("int*", 1), "fvec": ("int*3", 1), "dyn": ("'int[]'", 1), "dyn2": ("'int[]'", 2), "rank2": ("'int[,]'", 2), "named": ("'int[x, y]'", 2), "fixed": ("'int[2, 3]'", 2), "rank1": ("'int[x]'", 1),
         "expanded": ("!array\n      items: int", 1), "vecvec": ("int**", 1)}
_BADIDX = {"str-literal": '"k"', "float-literal": "1.5", "string-field": "label", "float-field": "scale", "bool-field": "flag", "record-field": "other", "vector-field": "ids"}
for _cn, (_ct, _ar) in _CONT.items():
    for _bn, _bx in _BADIDX.items():
        for _posn in range(_ar):
            _args = ", ".join(_bx if _q == _posn else "0" for _q in range(_ar))
            NAME_RULES.append(("index:%s:%s:%d" % (_cn, _bn, _posn), True,
                               "Oth1: !record\n  fields:\n    z: int\nR1: !record\n  fields:\n    c: %s\n    label: string\n    scale: float\n    flag: bool\n    other: Oth1\n    ids: int*\n"
                               "  computedFields:\n    picked: '%s'\n" % (_ct, "c[%s]" % _args)))

POSITIONS = ["alias", "field", "genarg", "vecitem", "mapvalue", "unioncase", "optional", "step", "streamitem", "aliaschain", "arrayitem",
             "untaggedcase", "untaggedopt", "untaggedinvec"]


def embed(pos: str, ty: str, pfx: str) -> str:
    """Definitions (YAML text) that use the bad type `ty` at the given position."""
    if pos == "alias":
        return "%sBad: %s\n" % (pfx, ty)
    if pos == "field":
        return "%sRec: !record\n  fields:\n    good: int\n    bad: %s\n" % (pfx, ty)
    if pos == "genarg":
        return "%sRec: !record\n  fields:\n    bad: !generic\n      name: HWrap\n      args: [%s]\n" % (pfx, ty)
    if pos == "vecitem":
        return "%sRec: !record\n  fields:\n    bad: !vector\n      items: %s\n" % (pfx, ty) if not ty.startswith("[") else \
               "%sRec: !record\n  fields:\n    bad: !vector\n      items: !vector\n        items: %s\n" % (pfx, ty)
    if pos == "arrayitem":
        return "%sRec: !record\n  fields:\n    bad: !array\n      items: !vector {items: %s}\n      dimensions: 2\n" % (pfx, ty) if ty.startswith("[") else \
               "%sRec: !record\n  fields:\n    bad: !array\n      items: %s\n      dimensions: 2\n" % (pfx, ty)
    if pos == "mapvalue":
        return "%sRec: !record\n  fields:\n    bad: !map\n      keys: string\n      values: !vector {items: %s}\n" % (pfx, ty) if ty.startswith("[") else \
               "%sRec: !record\n  fields:\n    bad: !map\n      keys: string\n      values: %s\n" % (pfx, ty)
    if pos == "unioncase":
        return "%sRec: !record\n  fields:\n    bad: !union\n      okCase: bool\n      badCase: !vector {items: !vector {items: %s}}\n" % (pfx, ty)
    if pos == "optional":
        return "%sRec: !record\n  fields:\n    bad: [null, !vector {items: !vector {items: %s}}]\n" % (pfx, ty)
    if pos == "step":
        return "%sProto: !protocol\n  sequence:\n    ok: int\n    bad: %s\n" % (pfx, ty)
    if pos == "streamitem":
        return "%sProto: !protocol\n  sequence:\n    bad: !stream\n      items: !vector {items: %s}\n" % (pfx, ty) if ty.startswith("[") else \
               "%sProto: !protocol\n  sequence:\n    bad: !stream\n      items: %s\n" % (pfx, ty)
    if pos == "untaggedcase":       # a case of a union written in the short form: its tag is derived from the spelling of the case type
        return "%sRec: !record\n  fields:\n    bad: [bool, %s]\n" % (pfx, ty)
    if pos == "untaggedopt":
        return "%sRec: !record\n  fields:\n    bad: [null, %s]\n" % (pfx, ty)
    if pos == "untaggedinvec":
        return "%sAl: !vector {items: [string, %s]}\n%sRec: !record\n  fields:\n    bad: !map {keys: string, values: %sAl}\n" % (pfx, ty, pfx, pfx)
    if pos == "aliaschain":
        return "%sA1: %s\n%sA2: %sA1\n%sRec: !record\n  fields:\n    bad: %sA2*\n" % (pfx, ty, pfx, pfx, pfx, pfx)
    raise ValueError(pos)


VALID_MAIN = """
Keep: !record
  fields:
    a: int
    b: Lib.LibRec?
MainProto: !protocol
  sequence:
    k: Keep
    s: !stream
      items: Lib.LibRec
"""
VALID_LIB = """
LibRec: !record
  fields:
    x: int
    y: string*
LibWrap<T>: !record
  fields:
    w: T?
"""


LINKED = {"main-link": "main", "import-link": "lib", "version-link": "v0"}
DOC2 = {"main-doc2": "main/model.yml", "import-doc2": "lib/lib.yml", "version-doc2": "v0/model.yml"}


def build_tree(base: str, where: str, bad_defs: str, helpers: bool):
    """where in {main, main2, import, version}. Returns (pkgdir, file containing the violation)."""
    H = HELPERS if helpers else ""
    files = {
        "lib/_package.yml": "namespace: Lib\n",
        "lib/lib.yml": VALID_LIB,
        "v0/_package.yml": "namespace: Main\nimports:\n  - ../lib\n",
        "v0/model.yml": VALID_MAIN,
        "main/_package.yml": "namespace: Main\nimports:\n  - ../lib\nversions:\n  v0: ../v0\ncpp:\n  sourcesOutputDir: ../out/cpp\npython:\n  outputDir: ../out/py\njson:\n  outputDir: ../out/json\n",
        "main/model.yml": VALID_MAIN,
    }
    if where == "main":
        files["main/model.yml"] = VALID_MAIN + H + bad_defs
        bad_file = "main/model.yml"
    elif where == "main2":
        files["main/sub/zz_extra.yaml"] = H + bad_defs
        bad_file = "main/sub/zz_extra.yaml"
    elif where == "import":
        files["lib/lib.yml"] = VALID_LIB + H + bad_defs
        bad_file = "lib/lib.yml"
    elif where == "version":
        files["v0/model.yml"] = VALID_MAIN + H + bad_defs
        bad_file = "v0/model.yml"
    elif where in ("version-multi-first", "version-multi-last"):
        # the offending previous version is one of three; the other two are valid and much larger (they take longer to parse and validate)
        files["v0/model.yml"] = VALID_MAIN + H + bad_defs
        bad_file = "v0/model.yml"
        big = VALID_MAIN + "".join("Filler%d: !record\n  fields:\n    a: int\n    b: string*\n    c: Keep?\n    d: [int, string, float]\n" % i for i in range(250))
        for v in ("v1", "v2"):
            files[v + "/_package.yml"] = files["v0/_package.yml"]
            files[v + "/model.yml"] = big
        order = ["v0", "v1", "v2"] if where.endswith("first") else ["v1", "v2", "v0"]
        files["main/_package.yml"] = files["main/_package.yml"].replace("versions:\n  v0: ../v0\n", "versions:\n" + "".join("  %s: ../%s\n" % (v, v) for v in order))
    elif where == "archived-import":
        # a previous version kept as a snapshot of the whole source tree: its manifest spells its import exactly like the current package does (../lib),
        # meaning the archived copy next to it - and that copy holds the violation
        files["arch/v1/main/_package.yml"] = "namespace: Main\nimports:\n  - ../lib\n"
        files["arch/v1/main/model.yml"] = VALID_MAIN
        files["arch/v1/lib/_package.yml"] = "namespace: Lib\n"
        files["arch/v1/lib/lib.yml"] = VALID_LIB + H + bad_defs
        files["main/_package.yml"] = files["main/_package.yml"].replace("versions:\n  v0: ../v0\n", "versions:\n  v0: ../v0\n  v1: ../arch/v1/main\n")
        bad_file = "arch/v1/lib/lib.yml"
    elif where == "nested-import-same-spelling":
        # the package imports ../lib and ../grp/mid; grp/mid also says ../lib, which from there is grp/lib - another package, holding the violation
        files["grp/mid/_package.yml"] = "namespace: Mid\nimports:\n  - ../lib\n"
        files["grp/mid/mid.yml"] = "MidRec: !record\n  fields:\n    m: int\n"
        files["grp/lib/_package.yml"] = "namespace: GrpLib\n"
        files["grp/lib/lib.yml"] = VALID_LIB + H + bad_defs
        files["main/_package.yml"] = files["main/_package.yml"].replace("imports:\n  - ../lib\n", "imports:\n  - ../lib\n  - ../grp/mid\n")
        bad_file = "grp/lib/lib.yml"
    elif where in DOC2:
        bad_file = DOC2[where]
    elif where in LINKED:
        # the offending model file lives outside the package; the package directory holds a symbolic link to it
        files["shared/zz_linked.yml"] = H + bad_defs
        bad_file = LINKED[where] + "/zz_linked.yml"
    else:
        raise ValueError(where)
    # multi-document snippets (---) go to a second file so that YAML itself stays well formed
    out = {}
    for k, v in files.items():
        if "\n---\n" in v:
            a, b = v.split("\n---\n", 1)
            out[k] = a + "\n"
            out[os.path.join(os.path.dirname(k), "zz_second.yml")] = b
        else:
            out[k] = v
    if where in DOC2:
        # the offending definitions are a second YAML document of an existing model file
        bad_file = DOC2[where]
        out[bad_file] = out[bad_file].rstrip("\n") + "\n---\n" + H + bad_defs.split("\n---\n")[0] + "\n"
    common.write_tree(base, out)
    if where in LINKED:
        os.symlink(os.path.join("..", "shared", "zz_linked.yml"), os.path.join(base, bad_file))
    return os.path.join(base, "main"), os.path.join(base, bad_file), os.path.join(base, os.path.dirname(bad_file))


def build_control(base: str, bad_defs: str, helpers: bool):
    files = {"ctl/_package.yml": "namespace: Ctl\n", "ctl/model.yml": (HELPERS if helpers else "") + bad_defs}
    out = {}
    for k, v in files.items():
        if "\n---\n" in v:
            a, b = v.split("\n---\n", 1)
            out[k] = a + "\n"
            out["ctl/zz_second.yml"] = b
        else:
            out[k] = v
    common.write_tree(base, out)
    return os.path.join(base, "ctl")


def run(ctx):
    common.build_yardl()
    quick = ctx.tier == "quick"
    home = os.path.join(ctx.workdir, "home")
    os.makedirs(home, exist_ok=True)
    ctx.rule = ("%d type-level rule constructs x %d positions x 4 files (main model, second model file in a sub directory, imported package, "
                "previous version) + %d definition-level constructs x 4 files; each construct first as a top-level control in a single-file "
                "package. distinct = (rule, position, file); every case is non-trivial (exactly one injected violation)."
                % (len(TYPE_RULES), len(POSITIONS), len(DEF_RULES)))
    ctx.assumptions = ["a rule's violating construct is what the repository's own unit tests / docs use for it; the control run calibrates it",
                       "the valid base tree (main + import + previous version) is accepted by yardl (checked)"]
    # sanity: the untouched base is accepted
    base0 = os.path.join(ctx.workdir, "base")
    pkgdir, _, _ = build_tree(base0, "main", "", False)
    p = cli.run_cli("validate", pkgdir, home)
    if p.rc != 0:
        raise Inconclusive("the valid base tree is rejected: %s" % cli.clean(p.stderr)[:500])
    wheres = ["main", "main2", "import", "version"]

    jobs = []
    for rid, named, ty, _ in TYPE_RULES:
        jobs.append(("control", rid, named, embed("alias", ty, "Ctl"), True, "alias", None))
    for rid, named, defs in DEF_RULES + NAME_RULES:
        if "Lib." not in defs:
            jobs.append(("control", rid, named, defs, False, "def", None))
    controls = {}

    def run_case(job):
        kind, rid, named, defs, helpers, pos, where = job
        cdir = os.path.join(ctx.workdir, "cases", "%s_%s_%s" % ("".join(ch if (ch.isascii() and (ch.isalnum() or ch in "-_")) else "_%x" % ord(ch) for ch in rid), pos, where or "control"))
        if kind == "control":
            pkgdir = build_control(cdir, defs, helpers)
            bad_file = bad_dir = None
        else:
            pkgdir, bad_file, bad_dir = build_tree(cdir, where, defs, helpers)
        res = {}
        for cmd in (["validate", "generate"] if (kind == "control" or not quick or pos in ("alias", "def", "step")) else ["validate"]):
            res[cmd] = cli.run_cli(cmd, pkgdir, home)
            ctx.ev()
        return job, cdir, pkgdir, bad_file, bad_dir, res

    for job, cdir, pkgdir, _, _, res in pmap(run_case, jobs):
        kind, rid, named, defs, helpers, pos, where = job
        p = res["validate"]
        site = cli.panic_site(p.stderr)
        if site:
            ctx.violation("panic@%s" % site, "rule %s control: crash instead of a diagnostic" % rid, {"case_dir": cdir, "proc": p.brief()})
            controls[rid] = "crash"
        elif p.rc == 1:
            controls[rid] = "rejected"
            shutil.rmtree(cdir, ignore_errors=True)
        elif p.rc == 0:
            controls[rid] = "accepted"
            if named:
                ctx.violation("rule-not-enforced:%s" % rid, "the construct for rule '%s' is accepted even alone at top level of a single-file package" % rid,
                              {"case_dir": cdir, "defs": defs, "proc": p.brief()})
        else:
            controls[rid] = "rc%s" % p.rc
        ctx.count("control." + controls[rid])
    ctx.extra["controls"] = controls

    jobs = []
    for ri, (rid, named, ty, _) in enumerate(TYPE_RULES):
        if controls.get(rid) != "rejected":
            continue
        for pos in POSITIONS:
            if rid == "stream-outside-step" and pos == "step":
                continue   # a stream *is* legal as the type of a protocol step
            for where in wheres + (list(LINKED) + list(DOC2) + ["version-multi-first", "version-multi-last", "archived-import", "nested-import-same-spelling"] if pos in ("field", "step") else []):
                if quick and where == "main2" and pos not in ("field", "step"):
                    continue
                if quick and where in ("archived-import", "nested-import-same-spelling") and (pos != "field" or ri % 2):
                    continue
                if quick and (where in LINKED or where in DOC2 or where.startswith("version-multi")) and (pos != "field" or ri % 3):
                    continue
                jobs.append(("inject", rid, named, embed(pos, ty, "Inj"), True, pos, where))
    for rid, named, defs in DEF_RULES:
        if "Lib." in defs:
            # needs the import: its control is the same-namespace variant (cycle-through-generic)
            if controls.get("cycle-through-generic") == "rejected":
                for where in ("main", "main2", "version"):
                    jobs.append(("inject", rid, named, defs, False, "def", where))
            continue
        if controls.get(rid) != "rejected":
            continue
        for where in wheres + (["main-link", "main-doc2", "version-multi-first", "version-multi-last", "archived-import", "nested-import-same-spelling"] if "\n---\n" not in defs else []):
            jobs.append(("inject", rid, named, defs, False, "def", where))
    for ni, (rid, named, defs) in enumerate(NAME_RULES):
        if controls.get(rid) != "rejected":
            continue
        for wi, where in enumerate(("main", "main2", "import", "version")):
            if quick and (ni + wi) % 4:
                continue
            jobs.append(("inject", rid, named, defs, False, "def", where))

    for job, cdir, pkgdir, bad_file, bad_dir, res in pmap(run_case, jobs):
        kind, rid, named, defs, helpers, pos, where = job
        ctx.case((rid, pos, where))
        ctx.count("pos.%s" % pos)
        ctx.count("file.%s" % where)
        bad = False
        for cmd, p in res.items():
            site = cli.panic_site(p.stderr)
            diags = [d for d in cli.parse_diags(p.stderr) if d.level == "error"]
            if p.timed_out:
                raise Inconclusive("watchdog")
            if site:
                ctx.violation("panic@%s" % site, "rule %s at %s in %s [%s]: crash" % (rid, pos, where, cmd), {"case_dir": cdir, "proc": p.brief()})
                bad = True
            elif p.rc == 0:
                ctx.violation("accepted:%s:%s:%s" % (rid, pos, where), "rule '%s' violated at position '%s' in the %s file is accepted by `%s` (the same construct is rejected at top level)" % (rid, pos, where, cmd),
                              {"case_dir": cdir, "rule": rid, "position": pos, "where": where, "defs": defs, "proc": p.brief()})
                bad = True
            elif p.rc != 1:
                ctx.violation("exit%s" % p.rc, "rule %s at %s in %s [%s]: exit status %s" % (rid, pos, where, cmd, p.rc), {"case_dir": cdir, "proc": p.brief()})
                bad = True
            else:
                named_files = [d.file for d in diags if d.file]
                if not any(f and (os.path.realpath(f) == os.path.realpath(bad_file) or os.path.realpath(os.path.dirname(f)).startswith(os.path.realpath(bad_dir))) for f in named_files):
                    ctx.violation("wrong-file:%s" % where, "rule '%s' at '%s' in %s [%s]: rejected, but no error names the offending file %s (named: %s)" % (
                        rid, pos, where, cmd, os.path.relpath(bad_file, cdir), [os.path.relpath(f, cdir) for f in named_files][:3]),
                        {"case_dir": cdir, "proc": p.brief()})
                    bad = True
        if not bad:
            shutil.rmtree(cdir, ignore_errors=True)
    lookalike_scenarios(ctx, home)
    ctx.sample({"rule": TYPE_RULES[0][0], "type": TYPE_RULES[0][2], "position": "genarg", "defs": embed("genarg", TYPE_RULES[0][2], "Inj")})
    ctx.sample({"rule": DEF_RULES[12][0], "defs": DEF_RULES[12][2]})


def lookalike_scenarios(ctx, home):
    """A violation that only exists after type arguments are substituted (duplicate union cases, a record as map key), in a package that also
    holds a *valid* use with the same spelling that means something else: the same alias name defined differently in the imported package, a type
    parameter that shadows an alias, the same generic name in two namespaces. Each scenario is first run without the look-alike (control)."""
    lib_generics = "Either<A, B>: [A, B]\nTable<K>: !map {keys: K, values: int}\nLibRec: !record\n  fields:\n    x: int\n"
    scen = []
    for rule, gen, good_arg_def, bad_arg_def in (
            ("union-duplicate-case", "Either<int, %s>", "Id: string\n", "Id: int\n"),
            ("map-key-record", "Table<%s>", "Id: string\n", "Id: !record\n  fields:\n    k: int\n")):
        use = gen % "Id"
        # (name, lib text, main text without look-alike, extra main text that adds the valid look-alike)
        scen.append(("%s:imported-alias-same-name" % rule, lib_generics, "%sBad: !record\n  fields:\n    b: Lib.%s\n" % (bad_arg_def, use),
                     {"lib": "%sGoodUse: %s\n" % (good_arg_def, use)}))
        scen.append(("%s:type-parameter-shadows-alias" % rule, lib_generics, "%sBad: !record\n  fields:\n    b: Lib.%s\n" % (bad_arg_def, use),
                     {"main-first": "Slot<Id>: !record\n  fields:\n    good: Lib.%s\n    keep: Id*\n" % use}))
    scen.append(("union-duplicate-case:same-generic-name-in-two-namespaces", "LibRec: !record\n  fields:\n    x: int\n",
                 "Result<T>: [T, int]\nBad: !record\n  fields:\n    b: Result<int>\n", {"lib": "Result<T>: [T, string]\nGoodUse: Result<int>\n"}))
    scen.append(("map-key-record:same-generic-name-in-two-namespaces", "LibRec: !record\n  fields:\n    x: int\n",
                 "Holder<T>: !map {keys: T, values: string}\nBad: !record\n  fields:\n    b: Holder<Lib.LibRec>\n",
                 {"lib": "Holder<T>: !map {keys: string, values: T}\nGoodUse: Holder<LibRec>\n"}))
    # the same generic of the same namespace used twice: first with type arguments that are fine, then (later in the file, in a later field, in a file that
    # sorts later - here: later in the text) with arguments that break the rule; whatever is remembered about the first use must not cover the second
    plain_lib = "LibRec: !record\n  fields:\n    x: int\n"
    for rule, gdef, good, bad in (("map-key-record", "Lookup<K>: !map {keys: K, values: float}\n", "Lookup<string>", "Lookup<Point>"),
                                  ("map-key-vector", "Lookup<K>: !map {keys: K, values: float}\n", "Lookup<int>", "Lookup<int*>"),
                                  ("map-key-record-in-generic-record", "Lookup<K>: !record\n  fields:\n    m: !map {keys: K, values: float}\n", "Lookup<string>", "Lookup<Point>"),
                                  ("union-duplicate-case", "Either<A, B>: [A, B]\n", "Either<int, string>", "Either<int, int>"),
                                  ("union-duplicate-case-nested", "Either<A, B>: !record\n  fields:\n    u: [A, B]\n", "Either<float, Point>", "Either<Point, Point>")):
        point = "Point: !record\n  fields:\n    x: int\n"
        scen.append(("%s:valid-alias-first" % rule, plain_lib, gdef + point + "ZBad: %s\n" % bad, {"main-first": "AGood: %s\n" % good}))
        scen.append(("%s:valid-field-first" % rule, plain_lib, gdef + point + "ZBad: !record\n  fields:\n    b: %s\n" % bad, {"main-first": "AGood: !record\n  fields:\n    g: %s\n    g2: %s\n" % (good, good)}))
        scen.append(("%s:valid-uses-around" % rule, plain_lib, gdef + point + "MBad: !record\n  fields:\n    n: int\n    b: %s\n" % bad,
                     {"main-first": "AGood: %s\n" % good, "main-last": "ZGood: !record\n  fields:\n    g: %s\n" % good}))
    proto = "P: !protocol\n  sequence:\n    r: Lib.LibRec\n"
    for name, lib, main, extra in scen:
        verdicts = {}
        for variant in ("control", "lookalike"):
            cdir = os.path.join(ctx.workdir, "cases", "lookalike_%s_%s" % (name.replace(":", "_"), variant))
            shutil.rmtree(cdir, ignore_errors=True)
            lib_t = lib + (extra.get("lib", "") if variant == "lookalike" else "")
            main_t = (extra.get("main-first", "") if variant == "lookalike" else "") + main + (extra.get("main-last", "") if variant == "lookalike" else "") + proto
            common.write_tree(cdir, {"lib/_package.yml": "namespace: Lib\n", "lib/lib.yml": lib_t,
                                     "main/_package.yml": "namespace: Main\nimports:\n  - ../lib\njson:\n  outputDir: ../out\n", "main/model.yml": main_t})
            res = {cmd: cli.run_cli(cmd, os.path.join(cdir, "main"), home) for cmd in ("validate", "generate")}
            ctx.ev(2)
            verdicts[variant] = (cdir, res)
        cdir_c, res_c = verdicts["control"]
        if res_c["validate"].rc != 1:
            # without the look-alike the construct is not rejected: nothing to compare with (and not this scenario's business)
            ctx.count("lookalike.control-not-rejected")
            continue
        cdir, res = verdicts["lookalike"]
        ctx.case(("lookalike", name))
        ctx.count("lookalike.judged")
        bad = False
        for cmd, p in res.items():
            site = cli.panic_site(p.stderr)
            if site:
                ctx.violation("panic@%s" % site, "look-alike scenario %s [%s]: crash" % (name, cmd), {"case_dir": cdir, "proc": p.brief()}); bad = True
            elif p.rc == 0:
                ctx.violation("accepted:%s:lookalike" % name, "rule violated through type arguments (%s) is accepted by `%s` once the package also holds a valid use with the same spelling; "
                              "without that use it is rejected" % (name, cmd), {"case_dir": cdir, "control_dir": cdir_c, "proc": p.brief()}); bad = True
            elif p.rc == 1:
                files = [d.file for d in cli.parse_diags(p.stderr) if d.level == "error" and d.file]
                # the rule is broken by the type arguments written in main/model.yml; yardl reports the position of the generic definition and names the
                # arguments' positions in the message text - either way the offending file is named
                if not any(os.path.realpath(f) == os.path.realpath(os.path.join(cdir, "main/model.yml")) for f in files) and os.path.join(cdir, "main/model.yml") not in cli.clean(p.stderr):
                    ctx.violation("wrong-file:lookalike", "look-alike scenario %s [%s]: rejected, but no error names main/model.yml (named %s)" % (name, cmd, files[:3]), {"case_dir": cdir, "proc": p.brief()}); bad = True
            else:
                ctx.violation("exit%s" % p.rc, "look-alike scenario %s [%s]: exit status %s" % (name, cmd, p.rc), {"case_dir": cdir, "proc": p.brief()}); bad = True
        if not bad:
            shutil.rmtree(cdir, ignore_errors=True)
            shutil.rmtree(cdir_c, ignore_errors=True)


def pos_class(pos):
    return pos


def replay(ctx, path):
    import json
    r = json.load(open(path))
    print(json.dumps(r, indent=1)[:3000])
    run(ctx)
