"""C13 - alternative spellings of a model are the same model.

Workload: for each seeded AST (a) pure-syntax variants - shorthand vs expanded syntax for vectors / arrays / maps / optionals / generics,
primitive aliases (int / int32 ...), `T?` vs `[null, T]`, block vs flow YAML, quoting, hex vs decimal enum values, enum value lists vs
explicit default values, non-documentation comments and blank lines; (b) layout variants - permuted definitions, split over files and sub
directories. Valid packages and packages carrying one rule violation.
Monitor: exit status of validate/generate, the complete generated trees (C++, Python, MATLAB), schema literals, and the bytes the generated
Python code writes for the same reference streams.
Oracle: accept/reject agrees across spellings; (a) => generated trees byte-identical; (b) => identical schema literals and identical bytes out."""
from __future__ import annotations

import copy
import os
import re
import shutil

from vlib import cli, common, corpus, emit, evo, fsmon, modelgen, mut, rt, values
from vlib.common import pmap, rng, Inconclusive
from vlib.model import *  # noqa
from props import C04, C09

LEVEL = "exploration"
FLOOR = {"quick": 250, "thorough": 3000}


def syntax_variants(r):
    mk = lambda **kw: emit.Style(seed=r.randrange(1 << 30), **kw)
    return [
        ("expanded", mk(expanded=1.0)),
        ("optional-as-list", mk(optional_as_list=1.0)),
        ("primitive-aliases", mk(alias_spelling=1.0)),
        ("quoted", mk(quote=1.0)),
        ("flow", mk(flow=1.0, expanded=0.5)),
        ("enum-explicit-defaults", mk(enum_as_map=1.0)),
        ("hex-values", mk(enum_as_map=1.0, hex_values=1.0)),
        ("whitespace-and-remarks", mk(extra_ws=0.7)),
        ("self-qualified-references", mk(self_qualify=1.0)),
        ("some-self-qualified-references", mk(self_qualify=0.4, expanded=0.5)),
        ("everything", mk(expanded=0.6, optional_as_list=0.5, alias_spelling=0.5, quote=0.4, flow=0.4, enum_as_map=0.5, hex_values=0.5, extra_ws=0.4)),
        ("everything-2", mk(expanded=1.0, optional_as_list=1.0, alias_spelling=1.0, quote=0.5, flow=0.0, enum_as_map=1.0)),
    ]


def tree(root):
    snap = fsmon.snapshot(os.path.join(root, "out"))
    return {k: v[3] for k, v in snap.items() if v[0] == "file"}


def gen(root, pkg, style, layout, home, extra_files=None):
    shutil.rmtree(root, ignore_errors=True)
    # HDF5 sources are generated too (never compiled here: the byte comparison of the trees is the oracle)
    outs = emit.default_outputs("../out", matlab=True, cpp_opts={"generateHDF5": True, "generateCMakeLists": False})
    files = emit.package_files(pkg, style, outs, layout)
    if extra_files:
        files.update(extra_files)
    common.write_tree(root, files)
    pv = cli.run_cli("validate", os.path.join(root, pkg.dir), home)
    pg = cli.run_cli("generate", os.path.join(root, pkg.dir), home)
    return pv, pg


def line_multiset_diff(out_a: str, out_b: str):
    """[(file, line only in a | None, line only in b | None)] over the generated Python, C++ and MATLAB files of two output trees"""
    from collections import Counter
    diffs = []
    files = set()
    for root in (out_a, out_b):
        for dp, _, fs in os.walk(root):
            for f in fs:
                if f.endswith((".py", ".h", ".cc", ".m")) and "/yardl/" not in dp + "/" and "+yardl" not in dp and not f.startswith("_") and f != "yardl_types.py":
                    files.add(os.path.relpath(os.path.join(dp, f), root))
    for rel in sorted(files):
        pa, pb = os.path.join(out_a, rel), os.path.join(out_b, rel)
        if not (os.path.exists(pa) and os.path.exists(pb)):
            diffs.append((rel, "missing in one layout", None))
            continue
        if rel.endswith(".m"):
            continue      # MATLAB cannot be executed here: whether two texts behave alike is not decidable, only the set of generated files is compared
        ca, cb = Counter(open(pa, errors="replace").read().split("\n")), Counter(open(pb, errors="replace").read().split("\n"))
        only_a, only_b = list((ca - cb).elements()), list((cb - ca).elements())
        if only_a or only_b:
            diffs.append((rel, only_a[:2], only_b[:2]))
    return diffs


def run(ctx):
    common.build_yardl()
    quick = ctx.tier == "quick"
    home = os.path.join(ctx.workdir, "home")
    os.makedirs(home, exist_ok=True)
    ctx.rule = ("seeded ASTs (ser-corpus with imports + evolution bases) x 12 pure-syntax spellings (byte-identical generated trees demanded) + 4 layout variants "
                "(identical schema literals, identical bytes written by the generated Python code for the same reference streams); the same with one rule violation "
                "injected (accept/reject must agree). distinct = (AST, variant).")
    ctx.assumptions = ["the reference spelling is the harness's default short spelling", "documentation comments are held fixed (they are part of the generated code)"]
    asts = [("ser%d" % i, corpus.ser_package("c13_%d_%d" % (common.seed(), i), depth=3)) for i in range(8 if quick else 80)] + \
           [("evo%d" % i, evo.evo_base("c13e_%d_%d" % (common.seed(), i))) for i in range(4 if quick else 40)]

    # a local type used only as a type argument of an imported generic, defined after its user
    lib = Pkg("Lib", [Rec("Box", [("content", TP("T")), ("count", P("int32"))], ("T",)), Al("Many", V(TP("T")), ("T",))])
    for i, order in enumerate([("User", "Local", "P"), ("P", "User", "Local"), ("Local", "User", "P")]):
        ds = {"User": Rec("User", [("f", N("Box", (N("Local"),), "Lib")), ("g", N("Many", (N("Local"),), "Lib"))]),
              "Local": Rec("Local", [("x", P("int32")), ("y", Opt(P("string")))]),
              "P": Proto("Order", [("u", N("User")), ("s", S(N("Box", (N("Local"),), "Lib")))])}
        asts.append(("importedgeneric%d" % i, Pkg("Demo", [ds[n] for n in order], [lib])))

    # containers of optionals nested in containers: the short spellings (int?**, string->int?*, int?*?) and the expanded ones must agree
    oi = Opt(P("int32"))
    zoo = Rec("Zoo", [("vv", V(V(oi))), ("av", A(V(oi), None)), ("va", V(A(oi, None))), ("vfv", V(V(oi, 3))), ("mv", M(P("string"), V(oi))), ("ov", Opt(V(oi))), ("vov", V(Opt(V(P("int32"))))),
                      ("mm", M(P("string"), M(P("int32"), oi))), ("vu", V(U(((None, P("int32")), (None, P("string")))))), ("ovu", Opt(V(U(((None, P("int32")), (None, P("string")))))))])
    # fixed-size containers of optionals / unions as the only "non-flat" members of plain records
    ui = U(((None, P("int32")), (None, P("float32"))))
    fixed = [Rec("FixedOpt", [("a", V(oi, 3)), ("b", P("int32"))]), Rec("FixedOptArr", [("a", A(oi, ((None, 2), (None, 2)))), ("b", P("float64"))]),
             Rec("FixedUnion", [("a", V(ui, 2)), ("b", P("uint8"))])]
    asts.append(("fixedzoo", Pkg("FixedZoo", fixed + [Proto("FixedP", [("x", N("FixedOpt")), ("y", N("FixedOptArr")), ("z", S(N("FixedUnion")))])])))
    # the same union once under a name and once anonymously; definition order decides which one a generator meets first
    u2 = lambda: U(((None, P("int32")), (None, P("float32"))))
    u3 = lambda: U(((None, P("string")), (None, N("UzRec"))), True)
    for i, order in enumerate([("UzRec", "UzUser", "UzReading", "UzMaybe", "UzP"), ("UzReading", "UzMaybe", "UzRec", "UzUser", "UzP"), ("UzP", "UzMaybe", "UzUser", "UzReading", "UzRec")]):
        ds = {"UzRec": Rec("UzRec", [("q", P("int32"))]), "UzUser": Rec("UzUser", [("value", u2()), ("other", u3())]),
              "UzReading": Al("UzReading", u2()), "UzMaybe": Al("UzMaybe", u3()),
              "UzP": Proto("UzP", [("a", N("UzUser")), ("b", S(u2())), ("c", N("UzReading")), ("d", S(N("UzMaybe")))])}
        asts.append(("unionzoo%d" % i, Pkg("UnionZoo", [ds[n] for n in order])))
    # an explicitly tagged union whose tags are exactly the tags yardl derives for an implicitly tagged union with other case types (they share derived
    # names in the targets); whichever of the two is met first, the verdict and the code are the same
    tc_impl = lambda: U(((None, P("float32")), (None, P("float64"))))
    tc_tag = lambda: U((("float32", A(P("float32"), None)), ("float64", A(P("float64"), None))), False, True)
    tc_impl2 = lambda: U(((None, P("int32")), (None, P("string"))), True)
    tc_tag2 = lambda: U((("int32", V(P("int32"))), ("string", M(P("string"), P("string")))), True, True)
    for i, order in enumerate([("TcScale", "TcImage", "TcCode", "TcTable", "TcRec", "TcP"), ("TcImage", "TcScale", "TcTable", "TcCode", "TcRec", "TcP"), ("TcP", "TcRec", "TcTable", "TcImage", "TcCode", "TcScale")]):
        ds = {"TcScale": Al("TcScale", tc_impl()), "TcImage": Al("TcImage", tc_tag()), "TcCode": Al("TcCode", tc_impl2()), "TcTable": Al("TcTable", tc_tag2()),
              "TcRec": Rec("TcRec", [("s", tc_impl()), ("i", tc_tag()), ("c", tc_impl2()), ("t", tc_tag2())] if i != 1 else [("i", tc_tag()), ("s", tc_impl()), ("t", tc_tag2()), ("c", tc_impl2())]),
              "TcP": Proto("TcP", [("r", N("TcRec")), ("a", N("TcScale")), ("b", S(N("TcImage"))), ("c", N("TcCode")), ("d", S(N("TcTable")))])}
        asts.append(("tagclash%d" % i, Pkg("TagClash", [ds[n] for n in order])))
    # one generic record instantiated with arguments that differ only in a fixed length / shape (the target languages' type syntax erases those)
    f32 = P("float32")
    asts.append(("fixedgeneric", Pkg("FixedGen", [Rec("Pair", [("first", TP("T")), ("second", TP("T"))], ("T",)), Rec("Gradient", [("g", N("Pair", (V(f32, 2),)))]),
                                                  Rec("Orientation", [("o", N("Pair", (V(f32, 3),)))]), Rec("Shape2", [("s", N("Pair", (A(f32, ((None, 2), (None, 2))),)))]),
                                                  Rec("Shape3", [("s", N("Pair", (A(f32, ((None, 3), (None, 3))),)))]),
                                                  Proto("FgP", [("a", N("Gradient")), ("b", N("Orientation")), ("c", S(N("Shape2"))), ("d", N("Shape3"))])])))
    asts.append(("nestingzoo", Pkg("ZooPkg", [zoo, Proto("ZooP", [("z", N("Zoo")), ("s", S(V(V(oi)))), ("o", Opt(V(oi))), ("m", M(P("string"), V(oi)))])])))

    def one(item):
        key, pkg = item
        r = rng("C13", key)
        base = os.path.join(ctx.workdir, "cases", key)
        root0 = os.path.join(base, "ref")
        pv0, pg0 = gen(root0, pkg, emit.Style(seed=0), None, home)
        ctx.ev(2)
        if pg0.rc != 0:
            ctx.violation("generate-failed", "%s: reference spelling rejected: %s" % (key, cli.clean(pg0.stderr)[:300]), {"case_dir": root0})
            return
        t0 = tree(root0)
        ok_all = True
        for name, st in syntax_variants(r):
            root = os.path.join(base, "syn_" + name)
            pv, pg = gen(root, pkg, st, None, home)
            ctx.ev(2)
            ctx.case((key, name))
            ctx.count("syntax." + name)
            if pv.rc != pv0.rc or pg.rc != pg0.rc:
                ctx.violation("verdict-differs:%s" % name, "%s: spelling '%s' is %s while the reference spelling is accepted: %s" % (key, name, "rejected" if pg.rc else "accepted", cli.clean(pg.stderr)[:300]),
                              {"case_dir": root, "ref_dir": root0})
                ok_all = False
                continue
            t = tree(root)
            diff = sorted(k for k in set(t) | set(t0) if t.get(k) != t0.get(k))
            if diff:
                ctx.violation("generated-code-differs:%s" % name, "%s: spelling '%s' generates different code: %s" % (key, name, diff[:5]), {"case_dir": root, "ref_dir": root0, "files": diff[:30]})
                ok_all = False
            else:
                shutil.rmtree(root, ignore_errors=True)
        # layout variants
        s0, _ = C04.schemas_of(os.path.join(base, "ref_s"), pkg, C04.files_for(pkg), home)
        names = [d.name for d in pkg.defs]
        variants = []
        p2 = copy.deepcopy(pkg)
        r.shuffle(p2.defs)
        variants.append(("permuted", p2, None))
        p3 = copy.deepcopy(pkg)
        p3.defs.reverse()
        variants.append(("reversed", p3, None))
        nn = list(names)
        r.shuffle(nn)
        cut = max(1, len(nn) // 2)
        variants.append(("split-2-files", copy.deepcopy(pkg), [("b.yml", nn[:cut]), ("a.yml", nn[cut:])]))
        variants.append(("split-subdirs", copy.deepcopy(pkg), [("x/y/z.yaml", nn[:1]), ("x/q.yml", nn[1:cut + 1]), ("0.yml", nn[cut + 1:])]))
        variants.append(("multi-document", copy.deepcopy(pkg), [("b.yml", nn[:1]), ("a.yml", nn[1:cut + 1]), ("c.yml", nn[cut + 1:])]))
        for name, p2, layout in variants:
            root = os.path.join(base, "lay_" + name)
            lf = C04.files_for(p2, None, layout)
            if name == "multi-document":
                # the three model files become three YAML documents of one file
                parts = [lf.pop(p2.dir + "/" + fn) for fn, _ in layout]
                lf[p2.dir + "/all.yml"] = "\n---\n".join(t for t in parts if t.strip())
            s2, pr = C04.schemas_of(root, p2, lf, home)
            ctx.ev()
            ctx.case((key, name))
            ctx.count("layout." + name)
            if s2 is None:
                ctx.violation("verdict-differs:%s" % name, "%s: layout '%s' rejected: %s" % (key, name, cli.clean(pr.stderr)[:300]), {"case_dir": root})
                ok_all = False
            elif any(s2.get(pn, {}).get("cpp") != s0[pn]["cpp"] for pn in s0):
                ctx.violation("schema-differs:%s" % name, "%s: layout '%s' changes an embedded schema" % (key, name), {"case_dir": root})
                ok_all = False
            else:
                # what is generated for one definition does not depend on where the definition stands: the generated files of the two layouts
                # consist of the same lines (in another order)
                dl = line_multiset_diff(os.path.join(base, "ref_s", "out"), os.path.join(root, "out"))
                ctx.count("layout-lines-compared")
                if dl:
                    ctx.violation("generated-lines-differ:%s" % name, "%s: layout '%s' changes the text generated for a definition (not only its position): %s" % (key, name, dl[:3]),
                                  {"case_dir": root, "ref_dir": os.path.join(base, "ref_s"), "diff": dl[:20]})
                    ok_all = False
                # wire behaviour through the generated Python code of both layouts
                try:
                    wire_compare(ctx, key, name, pkg, os.path.join(base, "ref_s"), root)
                except Inconclusive:
                    raise
                shutil.rmtree(root, ignore_errors=True)
        # the same with one rule violation: accept/reject must agree
        rid, _, defs = r.choice([x for x in C09.DEF_RULES if "---" not in x[2]])
        bad = {pkg.dir + "/zz_violation.yml": defs}
        verdicts = {}
        for name, st in [("ref", emit.Style(seed=0))] + syntax_variants(r)[:4]:
            root = os.path.join(base, "bad_" + name)
            pv, pg = gen(root, pkg, st, None, home, bad)
            ctx.ev(2)
            verdicts[name] = (pv.rc, pg.rc)
            shutil.rmtree(root, ignore_errors=True)
        ctx.case((key, "violation", rid))
        ctx.count("invalid-verdicts")
        if len(set(verdicts.values())) != 1:
            ctx.violation("verdict-differs:invalid", "%s with rule violation %s: verdicts differ across spellings: %s" % (key, rid, verdicts), {"rule": rid})
        if ok_all:
            shutil.rmtree(base, ignore_errors=True)
        return {"ast": key, "definitions": len(pkg.defs), "files_in_tree": len(t0)}

    def wire_compare(ctx, key, name, pkg, root_a, root_b):
        from vlib.refcodec import Codec
        c = Codec(pkg)
        outs = []
        for root in (root_a, root_b):
            pydir = os.path.join(root, "out/python")
            pname = [e for e in os.listdir(pydir) if os.path.isdir(os.path.join(pydir, e))][0]
            w = mut.PyWorker(pydir, pname, os.path.join(root, "pyio"))
            if not w.hello.get("ready"):
                ctx.count("python-import-failed")
            res = []
            for proto in pkg.protocols()[:2]:
                vals = values.ValueGen(c, rng("C13w", key, proto.name), quiet_nan_only=True).steps(proto)
                sch = C04.schemas_of.__globals__  # placeholder to keep linters quiet
                import re
                src = open(os.path.join(pydir, pname, "protocols.py")).read()
                mm = re.search(r'class %sWriterBase\(abc\.ABC\):.*?\n    schema = r"""(.*?)"""' % proto.name, src, re.S)
                data = c.encode_stream(proto, mm.group(1), vals)
                r1, out = w.copy(proto.name, "bin", "bin", data)
                ctx.ev()
                res.append((proto.name, r1.get("ok"), out if r1.get("ok") else r1.get("etype")))
            w.close()
            outs.append(res)
        ctx.count("wire-compared")
        if outs[0] != outs[1]:
            ctx.violation("wire-differs:%s" % name, "%s: layout '%s': the generated Python code writes different bytes for the same reference stream" % (key, name), {"a": root_a, "b": root_b})

    for s in [x for x in pmap(one, asts, workers=8) if x][:6]:
        ctx.sample(s)
    boundary_lengths(ctx, home)
    arrangements_of_invalid_packages(ctx, home)


def arrangements_of_invalid_packages(ctx, home):
    """'accepts both or rejects both' for packages that break a rule: the same definitions - among them one use of a generic that breaks a rule through its
    type arguments, next to uses of the same generic that are fine - in every order within one file and distributed over files whose names sort either
    way. The verdict must not depend on the arrangement (and a control without the offending definition is accepted in every arrangement)."""
    import itertools
    families = {
        "map-key": (["'Lookup<K>': !map {keys: K, values: float}", "Point: !record\n  fields:\n    x: int", "ByName: Lookup<string>", "ById: Lookup<int>"], "ByPoint: Lookup<Point>"),
        "map-key-in-record": (["'Lookup<K>': !record\n  fields:\n    m: !map {keys: K, values: float}", "Point: !record\n  fields:\n    x: int", "ByName: Lookup<string>"], "ByPoint: Lookup<Point>"),
        "union-duplicate": (["'Either<A, B>': [A, B]", "Fine: Either<int, string>", "AlsoFine: !record\n  fields:\n    e: Either<float, int>"], "Clash: Either<int, int>"),
        "array-of-stream": (["'Many<T>': !vector {items: T}", "Fine: Many<int>", "AlsoFine: Many<string>"], "Bad: !protocol\n  sequence:\n    s: !vector\n      items: !stream\n        items: int"),
    }
    proto = "P: !protocol\n  sequence:\n    r: int"
    for fname, (good, bad) in families.items():
        for with_bad in (True, False):
            defs = good + ([bad] if with_bad else [])
            perms = list(itertools.permutations(range(len(defs))))
            perms = [perms[0], perms[-1]] + perms[1:-1][:: max(1, len(perms) // 6)]
            verdicts = {}
            for pi, perm in enumerate(perms):
                ordered = [defs[i] for i in perm]
                layouts = {"one-file": {"m.yml": "\n".join(ordered + [proto]) + "\n"}}
                if pi < 3:
                    h = len(ordered) // 2
                    layouts["two-files"] = {"a_first.yml": "\n".join(ordered[:h]) + "\n", "z_last.yml": "\n".join(ordered[h:] + [proto]) + "\n"}
                    layouts["two-files-swapped"] = {"a_first.yml": "\n".join(ordered[h:] + [proto]) + "\n", "z_last.yml": "\n".join(ordered[:h]) + "\n"}
                for lname, files in layouts.items():
                    cdir = os.path.join(ctx.workdir, "cases", "arr_%s_%d_%d_%s" % (fname, with_bad, pi, lname))
                    shutil.rmtree(cdir, ignore_errors=True)
                    common.write_tree(cdir, dict({"p/_package.yml": "namespace: Arr\njson:\n  outputDir: ../out\n"}, **{"p/" + k: v for k, v in files.items()}))
                    p = cli.run_cli("validate", os.path.join(cdir, "p"), home)
                    ctx.ev()
                    site = cli.panic_site(p.stderr)
                    if site:
                        ctx.violation("panic@%s" % site, "arrangement of %s: crash" % fname, {"case_dir": cdir})
                        continue
                    verdicts[(perm, lname)] = (p.rc, cdir)
            ctx.case(("invalid-arrangements", fname, with_bad))
            ctx.count("invalid-arrangements.%s" % ("with-violation" if with_bad else "control"))
            rcs = sorted(set(v[0] for v in verdicts.values()))
            if len(rcs) > 1:
                acc = [k for k, v in verdicts.items() if v[0] == 0][0]
                rej = [k for k, v in verdicts.items() if v[0] != 0][0]
                ctx.violation("verdict-depends-on-arrangement:%s" % fname, "the same definitions (%s, %s the rule-breaking one) are accepted in the arrangement %s and rejected in %s" % (
                    fname, "with" if with_bad else "without", acc, rej), {"accepted": verdicts[acc][1], "rejected": verdicts[rej][1]})
            elif not with_bad and rcs != [0]:
                ctx.violation("control-rejected:%s" % fname, "the valid definitions of family %s are rejected" % fname, {"case_dir": list(verdicts.values())[0][1]})
            else:
                for _, cdir in verdicts.values():
                    shutil.rmtree(cdir, ignore_errors=True)


def boundary_lengths(ctx, home):
    """fixed lengths at the boundaries of the integer widths, written in the short and in the expanded syntax: both spellings are accepted or both are
    rejected, and an accepted pair gives the same model"""
    import json
    lens = ["0", "1", "2", "255", "65536", "4294967295", "4294967297", "9223372036854775807", "9223372036854775808", "18446744073709551615", "18446744073709551616",
            "18446744073709551617", "340282366920938463463374607431768211457", "-1", "007", "1e3", "3.0",
            # integer literals with a base prefix / a leading zero: the short syntax for vectors, the short syntax for arrays and the expanded syntax must read them alike
            "010", "0x10", "0o17", "0b101", "0X1f", "00", "0x0", "08", "1_0"]
    forms = {"vector": ("int*%s", "!vector {items: int, length: %s}"), "array": ("int[%s]", "!array {items: int, dimensions: [%s]}"),
             "named-dimension": ("int[d:%s]", "!array {items: int, dimensions: {d: %s}}"), "second-dimension": ("int[2, %s]", "!array {items: int, dimensions: [2, %s]}")}
    for kind, (short, expanded) in forms.items():
        for L in lens:
            res = {}
            for sp, text in (("short", "'%s'" % (short % L)), ("expanded", expanded % L)):
                cdir = os.path.join(ctx.workdir, "cases", "len_%s_%s_%s" % (kind, re.sub(r"\W", "_", L), sp))
                shutil.rmtree(cdir, ignore_errors=True)
                common.write_tree(cdir, {"p/_package.yml": "namespace: Len\njson:\n  outputDir: ../out\n", "p/m.yml": "R: !record\n  fields:\n    f: %s\nP: !protocol\n  sequence:\n    r: R\n" % text})
                p = cli.run_cli("generate", os.path.join(cdir, "p"), home)
                ctx.ev()
                dump = None
                if p.rc == 0:
                    try:
                        dump = json.dumps(json.load(open(os.path.join(cdir, "out/model.json"))), sort_keys=True)
                    except (OSError, ValueError):
                        dump = "unreadable"
                res[sp] = (p.rc, dump, cli.panic_site(p.stderr), cdir)
            ctx.case(("boundary-length", kind, L))
            ctx.count("boundary-lengths")
            (rs, ds, ps, cs), (re_, de, pe, ce) = res["short"], res["expanded"]
            if ps or pe:
                ctx.violation("panic@%s" % (ps or pe), "length %s of a %s: crash" % (L, kind), {"case_dir": cs if ps else ce})
            elif (rs == 0) != (re_ == 0):
                ctx.violation("verdict-differs:length:%s" % kind, "length %s of a %s: the short spelling is %s, the expanded one %s" % (L, kind, "accepted" if rs == 0 else "rejected", "accepted" if re_ == 0 else "rejected"),
                              {"short": cs, "expanded": ce})
            elif rs == 0 and ds != de:
                ctx.violation("model-differs:length:%s" % kind, "length %s of a %s: the two spellings are accepted but give different models" % (L, kind), {"short": cs, "expanded": ce})
            else:
                shutil.rmtree(cs, ignore_errors=True)
                shutil.rmtree(ce, ignore_errors=True)


def replay(ctx, path):
    import json
    print(json.dumps(json.load(open(path)), indent=1, default=str)[:3000])
    run(ctx)
