"""C06 - schema-evolution verdicts are total, reflexive and match the documented classes.

Workload: pairs (old, new) driven through `yardl validate` on a package with `versions:`:
 (a) new = old, as a copied directory and as the package listing itself (versions: {v0: .});
 (b) meaning-preserving rewrites (reordered definitions, rename through an alias that keeps the old name, added unused
     types, comments, other spelling / file split);
 (c) every documented breaking class, (d) every documented compatible / partially compatible class, each applied at a
     seeded random position of seeded base packages;
 (e) unrelated pairs of individually valid models. Every pair is run 3 times in fresh processes.
Monitor: exit status, stderr parsed into errors / warnings / panic text, CPU time.
Oracle: never a crash, identical output across the 3 runs; (a),(b) => exit 0 with no warning and no error;
(c) => exit 1 with an error carrying the version label; (d) => exit 0, partial classes with >= 1 warning."""
from __future__ import annotations

import copy
import os
import re
import shutil

from vlib import cli, common, corpus, emit, evo, modelgen
from vlib.common import pmap, rng, Inconclusive
from vlib.model import *  # noqa

LEVEL = "exploration"
FLOOR = {"quick": 500, "thorough": 6000}


def write_pair(base, old: Pkg, new: Pkg, style_old=None, style_new=None, layout_new=None, label="v0"):
    files = {"old/_package.yml": "namespace: %s\n" % old.ns, "old/model.yml": emit.emit_defs(old.defs, style_old),
             "new/_package.yml": "namespace: %s\nversions:\n  %s: ../old\n" % (new.ns, label)}
    if layout_new:
        for fname, names in layout_new:
            files["new/" + fname] = emit.emit_defs([d for n in names for d in new.defs if d.name == n], style_new)
    else:
        files["new/model.yml"] = emit.emit_defs(new.defs, style_new)
    common.write_tree(base, files)
    return os.path.join(base, "new")


def observe(pkgdir, home, runs=3):
    res = []
    for _ in range(runs):
        p = cli.run_cli("validate", pkgdir, home)
        res.append(p)
    return res


def verdict(p):
    d = cli.parse_diags(p.stderr)
    return {"rc": p.rc, "sig": p.sig, "errors": [x.text for x in d if x.level == "error"], "warnings": [x.text for x in d if x.level == "warning"],
            "panic": cli.panic_site(p.stderr)}


def _has_array_or_map(t) -> bool:
    return any(isinstance(x, (A, M)) for x in walk_types(t))


def rejection_class(errors: list, new=None, info=None) -> str:
    """where a rejected compatible/partial edit landed: structural facts about the edit first, then the tool's own message"""
    t = " ".join(errors)
    if info and info.get("container"):
        if info["name"] in ("T->T?", "T?->T"):
            return "optional-of-union" if info["container"] == "union" else "optional-of-container"
        if info["name"] == "introduce-alias":
            return "alias-of-container-as-item"
    ma = re.search(r"this change to '(\w+)' is not backward compatible: base definitions are incompatible", t)
    if ma and new is not None:
        d = new.find(ma.group(1))
        if isinstance(d, Al) and _has_array_or_map(d.type):     # the same array/map comparison reached through a named alias
            return "in-array-or-map"
    m = re.search(r"from '([^']*)' to '([^']*)'", t)
    if m and any(("[" in x or "->" in x) for x in m.groups()):
        return "in-array-or-map"
    if "base definitions are incompatible" in t:
        return "alias-base"
    if "generic" in t.lower() or "<" in t:
        return "generic"
    return "other"


def run(ctx):
    common.build_yardl()
    quick = ctx.tier == "quick"
    home = os.path.join(ctx.workdir, "home")
    os.makedirs(home, exist_ok=True)
    nbase = 8 if quick else 60
    reps = 3 if quick else 10
    ctx.rule = ("%d seeded base packages (random type graphs + fixed friendly definitions); (a) reflexive x2 forms, (b) 6 meaning-preserving rewrites, "
                "(c) %d breaking and (d) %d compatible/partial edit classes x %d seeded positions each, (e) unrelated pairs; each pair validated 3x. "
                "distinct = (base, edit class, position seed) with the edit applicable." % (nbase, len(evo.EDITS[evo.BREAKING]), len(evo.EDITS[evo.COMPATIBLE]) + len(evo.EDITS[evo.PARTIAL]), reps))
    ctx.assumptions = ["documented classes are those of docs/cpp/evolution.md; message wording and whether a compatible edit also warns are don't-care",
                       "definitions are paired by name within one namespace"]
    bases = [evo.evo_base("c06_%d_%d" % (common.seed(), i)) for i in range(nbase)]
    jobs = []
    for bi, b in enumerate(bases):
        jobs.append(("reflexive-copy", bi, None, 0))
        jobs.append(("reflexive-self", bi, None, 0))
        for k in ("reorder-defs", "restyle", "resplit", "comments", "rename-via-alias", "add-unused"):
            jobs.append(("preserve:" + k, bi, None, 0))
        for e in evo.ALL_EDITS:
            for rep in range(reps):
                jobs.append(("edit", bi, e, rep))
    for i in range(60 if quick else 2000):
        jobs.append(("unrelated", i, None, 0))

    def one(job):
        kind, bi, edit, rep = job
        r = rng("C06", kind, bi, getattr(edit, "__name__", ""), rep)
        cdir = os.path.join(ctx.workdir, "cases", "%s_%s_%s_%d" % (kind.replace(":", "_"), bi, getattr(edit, "__name__", "x"), rep))
        shutil.rmtree(cdir, ignore_errors=True)
        expect = None
        info = None
        if kind == "unrelated":
            a = modelgen.gen_corpus_package("c06u%d_%da" % (common.seed(), bi), modelgen.GenOpts(max_depth=2, n_defs=(2, 6)), with_import=False)
            b = modelgen.gen_corpus_package("c06u%d_%db" % (common.seed(), bi + (1 if bi % 4 else 0)), modelgen.GenOpts(max_depth=2, n_defs=(2, 6)), with_import=False)
            b = copy.deepcopy(b)
            a.ns = b.ns = "Evo"
            # give them overlapping names so that definitions really get paired
            for x, y in zip([d for d in a.defs], [d for d in b.defs]):
                if type(x) is type(y) and r.random() < 0.7:
                    y_old = y.name
                    y.name = x.name
                    evo._rename_refs(b, y_old, x.name)
            names = [d.name for d in b.defs]
            if len(set(names)) != len(names):
                return None
            pkgdir = write_pair(cdir, a, b)
            expect = "total"
        else:
            old = bases[bi]
            if kind == "reflexive-copy":
                pkgdir = write_pair(cdir, old, old)
                expect = "clean"
            elif kind == "reflexive-self":
                common.write_tree(cdir, {"new/_package.yml": "namespace: Evo\nversions:\n  v0: .\n", "new/model.yml": emit.emit_defs(old.defs)})
                pkgdir = os.path.join(cdir, "new")
                expect = "clean"
            elif kind.startswith("preserve:"):
                k = kind.split(":")[1]
                new = copy.deepcopy(old)
                st_new = None
                layout = None
                if k == "reorder-defs":
                    r.shuffle(new.defs)
                elif k == "restyle":
                    st_new = emit.Style(expanded=1.0, alias_spelling=0.7, optional_as_list=1.0, quote=0.5, enum_as_map=1.0, seed=r.randrange(1 << 30))
                elif k == "resplit":
                    names = [d.name for d in new.defs]
                    r.shuffle(names)
                    cut = max(1, len(names) // 2)
                    layout = [("b_second.yml", names[:cut]), ("sub/a_first.yaml", names[cut:])]
                elif k == "comments":
                    for d in new.defs:
                        d.comment = "documentation for %s\nsecond line" % d.name
                        if isinstance(d, Rec):
                            d.field_comments = {fn: "about " + fn for fn, _ in d.fields}
                    st_new = emit.Style(extra_ws=0.5, seed=3)
                elif k == "rename-via-alias":
                    new, info = evo.apply_edit(old, evo.e_rename_with_alias, r)
                    if new is None:
                        return None
                elif k == "add-unused":
                    new, info = evo.apply_edit(old, evo.e_add_unused_alias, r)
                pkgdir = write_pair(cdir, old, new, None, st_new, layout)
                expect = "clean"
            else:
                new, info = evo.apply_edit(old, edit, r)
                if new is None:
                    ctx.count("not-applicable." + edit.__name__)
                    return None
                pkgdir = write_pair(cdir, old, new)
                expect = info["cls"]
        ps = observe(pkgdir, home)
        vs = [verdict(p) for p in ps]
        for p in ps:
            ctx.ev()
            if p.timed_out:
                raise Inconclusive("watchdog")
        v = vs[0]
        name = info["name"] if info else kind
        what = "%s on base %s (rep %d)%s" % (name, bi, rep, (" at %s" % (info.get("where"),)) if info else "")
        ok = True
        case = {"case_dir": cdir, "kind": kind, "edit": name, "info": repr(info), "stderr": cli.clean(ps[0].stderr)[-1500:]}
        if v["panic"]:
            ctx.violation("panic@%s" % v["panic"], "%s: crash" % what, case); ok = False
        elif ps[0].cpu_exceeded:
            ctx.violation("hang", "%s: CPU bound exceeded" % what, case); ok = False
        elif v["rc"] not in (0, 1):
            ctx.violation("exit%s" % v["rc"], "%s: exit status %s" % (what, v["rc"]), case); ok = False
        elif any((x["rc"], x["errors"], x["warnings"]) != (v["rc"], v["errors"], v["warnings"]) for x in vs[1:]):
            ctx.violation("nondeterministic-verdict", "%s: verdict differs between runs of the same pair" % what, case); ok = False
        elif expect == "clean":
            if v["rc"] != 0 or v["errors"] or v["warnings"]:
                ctx.violation("not-clean:%s" % kind, "%s: expected exit 0 without diagnostics, got rc=%s errors=%s warnings=%s" % (what, v["rc"], v["errors"][:2], v["warnings"][:2]), case); ok = False
        elif expect == evo.BREAKING:
            if v["rc"] != 1:
                ctx.violation("breaking-accepted:%s" % name, "%s: documented breaking change accepted (rc=%s)" % (what, v["rc"]), case); ok = False
            elif not any("[v0]" in e for e in v["errors"]):
                ctx.violation("no-version-label:%s" % name, "%s: rejected but no error carries the version label: %s" % (what, v["errors"][:2]), case); ok = False
        elif expect in (evo.COMPATIBLE, evo.PARTIAL):
            if v["rc"] != 0:
                ctx.violation("rejected:%s:%s" % (expect, rejection_class(v["errors"], new, info)), "%s: documented %s change rejected: %s" % (what, expect, v["errors"][:2]), case); ok = False
            elif expect == evo.PARTIAL and not v["warnings"]:
                ctx.violation("no-warning:%s" % name, "%s: partially compatible change accepted without a warning" % what, case); ok = False
        ctx.case((kind, bi, getattr(edit, "__name__", ""), rep))
        ctx.count("class.%s" % (expect if kind == "edit" else kind.split(":")[0]))
        ctx.count("rc.%s" % v["rc"])
        if kind == "edit":
            ctx.count("edit." + name)
        if ok:
            shutil.rmtree(cdir, ignore_errors=True)
        return {"edit": name, "expect": expect, "rc": v["rc"], "warnings": len(v["warnings"]), "errors": v["errors"][:1]}

    res = [x for x in pmap(one, jobs) if x]
    two_versions(ctx, home, bases[:(3 if quick else 20)], quick)
    fixed_pairs(ctx, home)
    nested_wrappers(ctx, home, quick)
    seen = set()
    for x in res:
        if x["edit"] not in seen and len(seen) < 8:
            seen.add(x["edit"])
            ctx.sample(x)


def two_versions(ctx, home, bases, quick):
    """two listed previous versions, one identical to the newest model and one that differs: every verdict must name the version it is about,
    whichever is listed first (a verdict computed for one version must not be reused for the other)"""
    for bi, base in enumerate(bases):
        for edit in (evo.EDITS[evo.BREAKING] + evo.EDITS[evo.PARTIAL])[:: (3 if quick else 1)]:
            r = rng("C06tv", bi, edit.__name__)
            newest, info = evo.apply_edit(base, edit, r)
            if newest is None or info.get("container"):
                continue
            for order in (("same", "diff"), ("diff", "same")):
                cdir = os.path.join(ctx.workdir, "cases", "tv_%d_%s_%s" % (bi, edit.__name__, order[0]))
                shutil.rmtree(cdir, ignore_errors=True)
                labels = {"same": "vsame", "diff": "vdiff"}
                files = {"new/_package.yml": "namespace: %s\nversions:\n" % newest.ns + "".join("  %s: ../%s\n" % (labels[o], o) for o in order),
                         "new/model.yml": emit.emit_defs(newest.defs, None),
                         "same/_package.yml": "namespace: %s\n" % newest.ns, "same/model.yml": emit.emit_defs(newest.defs, None),
                         "diff/_package.yml": "namespace: %s\n" % base.ns, "diff/model.yml": emit.emit_defs(base.defs, None)}
                common.write_tree(cdir, files)
                p = cli.run_cli("validate", os.path.join(cdir, "new"), home)
                ctx.ev()
                v = verdict(p)
                ctx.case(("two-versions", bi, edit.__name__, order[0]))
                ctx.count("two-versions.%s" % info["cls"])
                what = "%s on base %d with versions listed %s" % (info["name"], bi, [labels[o] for o in order])
                case = {"case_dir": cdir, "edit": info["name"], "stderr": cli.clean(p.stderr)[-1200:]}
                bad = False
                if v["panic"]:
                    ctx.violation("panic@%s" % v["panic"], "%s: crash" % what, case); bad = True
                elif any("[vsame]" in x for x in v["errors"] + v["warnings"]):
                    ctx.violation("verdict-about-identical-version", "%s: a diagnostic is attributed to the version that is identical to the newest model: %s" % (
                        what, [x for x in v["errors"] + v["warnings"] if "[vsame]" in x][:1]), case); bad = True
                elif info["cls"] == evo.BREAKING and (v["rc"] != 1 or not any("[vdiff]" in x for x in v["errors"])):
                    ctx.violation("breaking-accepted:two-versions:%s" % info["name"], "%s: the breaking change relative to vdiff is not reported (rc=%s)" % (what, v["rc"]), case); bad = True
                elif info["cls"] == evo.PARTIAL and v["rc"] == 0 and not any("[vdiff]" in x for x in v["warnings"]):
                    ctx.violation("no-warning:two-versions:%s" % info["name"], "%s: the partially compatible change relative to vdiff produced no warning" % what, case); bad = True
                if not bad:
                    shutil.rmtree(cdir, ignore_errors=True)


def fixed_pairs(ctx, home):
    """pairs written as text for constructs the edit generator does not produce: types of an imported package used by the evolving package
    (identical, changed compatibly, changed incompatibly), enum values that change sign, flags and enum bases"""
    lib = "Point: !record\n  fields:\n    x: %s\n    y: float\nColor: !enum\n  values:\n    red: 1\n    green: %s\n"
    app = ("Shape: !record\n  fields:\n    center: Lib.Point\n    c: Lib.Color\n    n: int\n"
           "P: !protocol\n  sequence:\n    s: Shape\n    pts: !stream\n      items: Lib.Point\n    col: Lib.Color\n")
    enum = "Status: !enum\n%s  values:\n    ok: 0\n    error: %s\n    big: %s\nP: !protocol\n  sequence:\n    s: Status\n    v: Status*\n"

    def imported(old_lib, new_lib):
        return {"old/_package.yml": "namespace: App\nimports:\n  - ../oldlib\n", "old/a.yml": app, "oldlib/_package.yml": "namespace: Lib\n", "oldlib/l.yml": old_lib,
                "new/_package.yml": "namespace: App\nimports:\n  - ../newlib\nversions:\n  v0: ../old\n", "new/a.yml": app, "newlib/_package.yml": "namespace: Lib\n", "newlib/l.yml": new_lib}

    def local(old, new):
        return {"old/_package.yml": "namespace: App\n", "old/a.yml": old, "new/_package.yml": "namespace: App\nversions:\n  v0: ../old\n", "new/a.yml": new}
    cases = [
        ("imported-types-identical", imported(lib % ("float", 2), lib % ("float", 2)), "accept"),
        ("imported-types-shared-directory", dict(imported(lib % ("float", 2), lib % ("float", 2)), **{"old/_package.yml": "namespace: App\nimports:\n  - ../newlib\n"}), "accept"),
        ("imported-record-field-to-string-array", imported(lib % ("float", 2), lib % ("string*", 2)), "reject"),
        ("imported-enum-value-changed", imported(lib % ("float", 2), lib % ("float", 3)), "reject"),
        ("enum-identical-with-negative-values", local(enum % ("  base: int64\n", -1, -4611686018427387904), enum % ("  base: int64\n", -1, -4611686018427387904)), "accept"),
        ("enum-value-sign-flipped", local(enum % ("", -1, 7), enum % ("", 1, 7)), "reject"),
        ("enum-large-value-sign-flipped", local(enum % ("  base: int64\n", 5, -4611686018427387904), enum % ("  base: int64\n", 5, 4611686018427387904)), "reject"),
        ("enum-value-off-by-2-pow-64", local(enum % ("  base: uint64\n", 5, 1), enum % ("  base: uint64\n", 5, 18446744073709551615)), "reject"),
        ("enum-value-to-negative-zero-distance", local(enum % ("", 3, 9), enum % ("", -3, -9)), "reject"),
    ]
    # a record of the package and a record of the imported package with the same simple name, both below changed steps; the package's own record holds
    # an enum that lost a value (breaking) - in both step orders
    hdr_lib = "Header: !record\n  fields:\n    serial: string\n    gain: float\n"
    hdr_app = "Mode: !enum\n  values: [idle, armed%s]\nHeader: !record\n  fields:\n    subject: string\n    mode: Mode\nSession: !protocol\n  sequence:\n%s"
    for nm, steps in (("lib-first", ("    device: Lib.Header%s\n", "    header: Header\n")), ("own-first", ("    header: Header\n", "    device: Lib.Header%s\n"))):
        mk = lambda extra, q: hdr_app % (extra, "".join(x % q if "%s" in x else x for x in steps))
        shared = {"old/_package.yml": "namespace: App\nimports:\n  - ../lib\n", "lib/_package.yml": "namespace: Lib\n", "lib/l.yml": hdr_lib,
                  "new/_package.yml": "namespace: App\nimports:\n  - ../lib\nversions:\n  v0: ../old\n"}
        cases.append(("same-simple-name-enum-value-removed-" + nm, dict(shared, **{"old/a.yml": mk(", calibrating", ""), "new/a.yml": mk("", "?")}), "reject"))
        cases.append(("same-simple-name-only-compatible-" + nm, dict(shared, **{"old/a.yml": mk("", ""), "new/a.yml": mk("", "?")}), "accept"))
    # a definition renamed through an alias (the documented way to rename) *and* changed inside in the same step: the verdict is that of the inner change
    ren_old = "MyRecord: !record\n  fields:\n    firstName: string\n    lastName: string\n%sMyProtocol: !protocol\n  sequence:\n    people: !stream\n      items: MyRecord\n%s"
    ren_new = "Person: !record\n  fields:\n    firstName: %s\n    lastName: string\n%sMyRecord: Person\n%sMyProtocol: !protocol\n  sequence:\n    people: !stream\n      items: Person\n%s"
    en_old, en_new = "Mood: !enum\n  values: [calm, busy, idle]\n", "State: !enum\n  values: [calm, busy%s]\nMood: State\n"
    cases.append(("rename-only", local(ren_old % ("", ""), ren_new % ("string", "", "", "")), "accept-clean"))
    cases.append(("rename-and-add-field", local(ren_old % ("", ""), ren_new % ("string", "    age: int\n", "", "")), "accept-warning"))
    cases.append(("rename-and-scalar-to-vector", local(ren_old % ("", ""), ren_new % ("string*", "", "", "")), "reject"))
    cases.append(("rename-and-number-to-string", local(ren_old % ("", ""), ren_new % ("int", "", "", "")), "accept-warning"))
    cases.append(("enum-renamed-only", local(ren_old % (en_old, "    m: Mood\n"), ren_new % ("string", "", en_new % ", idle", "    m: State\n")), "accept-clean"))
    cases.append(("enum-renamed-and-value-removed", local(ren_old % (en_old, "    m: Mood\n"), ren_new % ("string", "", en_new % "", "    m: State\n")), "reject"))
    # a closed alias of a generic definition keeps its name while the type argument written in the alias definition changes (documented as incompatible);
    # the alias is used by its name only - as a step, through another alias, as a field, as a vector item - so nothing but the alias pair itself shows the change
    gen_rec = "'Image<T>': !record\n  fields:\n    data: T*\n    width: int\n"
    gen_arr = "'Image<T>': 'T[]'\n"
    gen_box = "'Image<T>': !record\n  fields:\n    content: T\n"
    uses = {"step": "P: !protocol\n  sequence:\n    img: ImageFloat\n", "stream-through-alias": "StreamItem: ImageFloat\nP: !protocol\n  sequence:\n    data: !stream\n      items: StreamItem\n",
            "field": "Holder: !record\n  fields:\n    img: ImageFloat\n    n: int\nP: !protocol\n  sequence:\n    h: Holder\n", "vector-item": "P: !protocol\n  sequence:\n    imgs: ImageFloat*\n",
            "defined-before-generic": None}
    for gname, gen, (a, b) in (("record", gen_rec, ("float", "double")), ("array-alias", gen_arr, ("float", "complexdouble")), ("box", gen_box, ("int", "'int*'")), ("box-to-string", gen_box, ("int", "string"))):
        # (docs/cpp/evolution.md lists "changing the type arguments to a generic type" among the breaking changes without exception, int -> string included)
        for uname, use in uses.items():
            def text(arg):
                if use is None:
                    return "ImageFloat: Image<%s>\n" % arg.strip("'") + uses["step"] + gen
                return use + gen + "ImageFloat: Image<%s>\n" % arg.strip("'")
            cases.append(("closed-alias-argument-changed-%s-%s" % (gname, uname), local(text(a), text(b)), "reject"))
            if gname == "record":
                cases.append(("closed-alias-unchanged-%s" % uname, local(text(a), text(a)), "accept-clean"))
    for name, files, expect in cases:
        cdir = os.path.join(ctx.workdir, "cases", "fixed_" + name)
        shutil.rmtree(cdir, ignore_errors=True)
        common.write_tree(cdir, files)
        pn = cli.run_cli("validate", os.path.join(cdir, "new"), home)
        po = cli.run_cli("validate", os.path.join(cdir, "old"), home)
        ctx.ev(2)
        ctx.case(("fixed-pair", name))
        ctx.count("fixed-pairs." + expect)
        v = verdict(pn)
        case = {"case_dir": cdir, "stderr": cli.clean(pn.stderr)[-1200:]}
        if po.rc != 0:
            raise Inconclusive("fixed pair %s: the old version alone is rejected: %s" % (name, cli.clean(po.stderr)[:300]))
        if v["panic"]:
            ctx.violation("panic@%s" % v["panic"], "fixed pair %s: crash" % name, case)
        elif expect == "accept" and v["rc"] != 0:
            ctx.violation("unchanged-rejected:%s" % name, "fixed pair %s: the two versions are identical but the package is rejected: %s" % (name, v["errors"][:1]), case)
        elif expect == "accept-clean" and (v["rc"] != 0 or v["warnings"] or v["errors"]):
            ctx.violation("not-clean:%s" % name, "fixed pair %s: a rename through an alias alone must be accepted without diagnostics: rc=%s %s" % (name, v["rc"], (v["errors"] + v["warnings"])[:1]), case)
        elif expect == "accept-warning" and v["rc"] != 0:
            ctx.violation("rejected:partial:%s" % name, "fixed pair %s: a partially compatible change rejected: %s" % (name, v["errors"][:1]), case)
        elif expect == "accept-warning" and not v["warnings"]:
            ctx.violation("no-warning:%s" % name, "fixed pair %s: a partially compatible change inside a definition that was also renamed through an alias gives no warning" % name, case)
        elif expect == "reject" and (v["rc"] != 1 or not v["errors"]):
            ctx.violation("breaking-accepted:%s" % name, "fixed pair %s: a documented breaking change is accepted (rc=%s)" % (name, v["rc"]), case)
        else:
            shutil.rmtree(cdir, ignore_errors=True)
    # an optional replaced by a union that holds its type (and back): the class of the change does not depend on WHERE in the union that type stands, nor on
    # whether the other cases come before or after it - whatever the verdict is for `T? -> [T, X]`, it is the verdict for `T? -> [X, T]` and `[X, T, Y]`
    import itertools
    header = "Header: !record\n  fields:\n    subject: string\n"
    for tname, t, others in (("int", "int", ["float", "string"]), ("record", "Header", ["string", "int"]), ("vector", "int*", ["string", "float"])):
        for with_null in (False, True):
            for direction in ("optional-to-union", "union-to-optional"):
                for place in ("field", "step"):
                    verdicts = {}
                    unions = [list(p) for n in (1, 2) for p in itertools.permutations([t] + others[:n])]
                    for ui, u in enumerate(unions):
                        ut = "[%s]" % ", ".join((["null"] if with_null else []) + u)
                        opt = "[null, %s]" % t
                        a, b = (opt, ut) if direction == "optional-to-union" else (ut, opt)

                        def text(ty):
                            if place == "field":
                                return header + "R: !record\n  fields:\n    f: %s\n    n: int\nP: !protocol\n  sequence:\n    r: R\n" % ty
                            return header + "P: !protocol\n  sequence:\n    s: %s\n    n: int\n" % ty
                        cdir = os.path.join(ctx.workdir, "cases", "optunion_%s_%d_%s_%s_%d" % (tname, with_null, direction, place, ui))
                        shutil.rmtree(cdir, ignore_errors=True)
                        common.write_tree(cdir, local(text(a), text(b)))
                        pn = cli.run_cli("validate", os.path.join(cdir, "new"), home)
                        ctx.ev()
                        v = verdict(pn)
                        if v["panic"]:
                            ctx.violation("panic@%s" % v["panic"], "optional <-> union pair %s -> %s: crash" % (a, b), {"case_dir": cdir})
                            continue
                        verdicts[tuple(u)] = ("reject" if v["rc"] != 0 else ("accept-warning" if v["warnings"] else "accept-clean"), cdir)
                    ctx.case(("optional-union-position", tname, with_null, direction, place))
                    ctx.count("optional-union-position")
                    for n in (2, 3):
                        group = {k: v for k, v in verdicts.items() if len(k) == n}
                        classes = sorted(set(v[0] for v in group.values()))
                        if len(classes) > 1:
                            ex = {c: [k for k, v in group.items() if v[0] == c][0] for c in classes}
                            ctx.violation("verdict-depends-on-case-position:%s:%s" % (direction, "with-null" if with_null else "without-null"),
                                          "%s of %s as a %s: unions of the same %d types %s give different verdicts depending on where %s stands: %s" % (
                                              direction, t, place, n, "(and null)" if with_null else "", t, {c: list(k) for c, k in ex.items()}), {"cases": {c: group[k][1] for c, k in ex.items()}})
                    if not ctx.violations:
                        for _, cdir in verdicts.values():
                            shutil.rmtree(cdir, ignore_errors=True)
    watched_verdicts(ctx, home, cases)


def watched_verdicts(ctx, home, cases):
    """the verdict on a pair of versions does not depend on when it is asked: a long-running `yardl generate --watch` in the new package gives, after its
    first pass and after each of three saves that only append a comment to the new model, the verdict class (accepted / accepted with warnings / rejected)
    of a one-shot `yardl validate` of the same files."""
    from props import C20
    CLEAR = "\x1b[2J\x1b[H"

    def klass(text):
        t = cli.clean(text)
        if "Validated model package" in t:
            return "accept-warning" if ("WRN" in t or "\u26a0" in t) else "accept"
        return "reject" if ("ERR" in t or "\u274c" in t) else "nothing"

    def one(item):
        name, files, _ = item
        cdir = os.path.join(ctx.workdir, "cases", "watched_" + name)
        shutil.rmtree(cdir, ignore_errors=True)
        common.write_tree(cdir, files)
        os.makedirs(os.path.join(cdir, "home"), exist_ok=True)
        pn = cli.run_cli("validate", os.path.join(cdir, "new"), home)
        v = verdict(pn)
        want = "reject" if v["rc"] != 0 else ("accept-warning" if v["warnings"] else "accept")
        w = C20.Watcher(cdir, os.path.join(cdir, "home"), common.build_yardl(), pkgdir="new")
        got = []
        try:
            if not w.wait_quiescent_patient(1, limit_s=30):
                raise Inconclusive("watched pair %s: the first pass of the watcher did not finish (alive=%s)" % (name, w.alive()))
            for k in range(3):
                starts = w.counts()[0]
                with open(os.path.join(cdir, "new", "a.yml"), "a") as f:
                    f.write("# saved again %d\n" % k)
                if not w.wait_quiescent_patient(starts + 1, limit_s=25):
                    raise Inconclusive("watched pair %s: no finished regeneration after save %d (alive=%s)" % (name, k, w.alive()))
        finally:
            w.stop()
        text = open(os.path.join(cdir, "watch.out"), errors="replace").read()
        got = [klass(seg) for seg in text.split(CLEAR)[1:]]
        ctx.ev(len(got))
        ctx.count("watched-verdicts", len(got))
        ctx.case(("watched-pair", name))
        if len(got) < 4:
            raise Inconclusive("watched pair %s: %d verdicts found in the watcher's output, expected at least 4" % (name, len(got)))
        if any(g != want for g in got):
            ctx.violation("verdict-changes-over-time:%s" % name, "pair %s: one-shot validate says %s, a running `generate --watch` says %s after its first pass and three comment-only saves" % (name, want, got),
                          {"case_dir": cdir, "one_shot": v, "watch_tail": cli.clean(text)[-1500:]})
        else:
            shutil.rmtree(cdir, ignore_errors=True)
    pmap(one, cases, workers=4)


def nested_wrappers(ctx, home, quick):
    """the documented classes below one, two and three levels of optional / vector / stream wrappers ("yardl recursively detects changes"):
    every chain of wrappers x every position (record field, stream items, plain step, alias) x leaf edits of the classes whose verdict the
    documentation fixes - primitive <-> primitive and number <-> string (partial: accepted with a warning), scalar -> vector and a changed
    generic type argument (incompatible: rejected with an error that carries the version label)"""
    chains = [c for n in (1, 2, 3) for c in __import__("itertools").product("ov", repeat=n) if "oo" not in "".join(c)]
    if quick:
        chains = [c for c in chains if len(c) < 3 or c in (("o", "v", "o"), ("v", "o", "v"), ("v", "v", "o"))]
    leaves = [("number->number", "int", "long", evo.PARTIAL), ("number->number", "float", "double", evo.PARTIAL), ("number<->string", "int", "string", evo.PARTIAL),
              ("number<->string", "string", "double", evo.PARTIAL), ("scalar->vector", "int", "int*", evo.BREAKING), ("scalar->vector", "string", "string[2]", evo.BREAKING),
              ("type-argument", "Slot<int>", "Slot<float>", evo.BREAKING), ("type-argument", "Slot<string>", "Slot<Other>", evo.BREAKING), ("unchanged", "int", "int", "clean")]
    head = "Slot<T>: !record\n  fields:\n    v: T\n    n: uint8\nOther: !record\n  fields:\n    o: string\n"

    def wrap(leaf, chain):
        t = leaf
        for w in reversed(chain):     # chain[0] is the outermost wrapper
            if w == "o" and t.endswith("?"):
                return None
            t = t + ("?" if w == "o" else "*")
        return t

    def model(t, pos):
        if pos == "field":
            return head + "R: !record\n  fields:\n    a: string\n    f: %s\nP: !protocol\n  sequence:\n    r: R\n    tail: int\n" % t
        if pos == "stream":
            return head + "P: !protocol\n  sequence:\n    s: !stream\n      items: %s\n    tail: int\n" % t
        if pos == "step":
            return head + "P: !protocol\n  sequence:\n    first: uint\n    s: %s\n" % t
        return head + "Al: %s\nR: !record\n  fields:\n    f: Al\nP: !protocol\n  sequence:\n    r: R\n    a: !stream\n      items: Al\n" % t

    jobs = [(i, c, pos, leaf) for i, (c, pos, leaf) in enumerate((c, pos, leaf) for c in chains for pos in ("field", "stream", "step", "alias") for leaf in leaves)]

    def one(job):
        ji, chain, pos, (name, lo, ln, expect) = job
        to, tn = wrap(lo, chain), wrap(ln, chain)
        if to is None or tn is None:
            return
        cdir = os.path.join(ctx.workdir, "cases", "nested_%d_%s_%s" % (ji, "".join(chain), pos))
        shutil.rmtree(cdir, ignore_errors=True)
        common.write_tree(cdir, {"old/_package.yml": "namespace: Evo\n", "old/m.yml": model(to, pos),
                                 "new/_package.yml": "namespace: Evo\nversions:\n  v0: ../old\n", "new/m.yml": model(tn, pos)})
        po = cli.run_cli("validate", os.path.join(cdir, "old"), home)
        if po.rc != 0:
            ctx.count("nested.not-applicable")       # the wrapped type is not a valid model by itself
            shutil.rmtree(cdir, ignore_errors=True)
            return
        p = cli.run_cli("validate", os.path.join(cdir, "new"), home)
        ctx.ev(2)
        v = verdict(p)
        depth = len(chain) + (1 if pos == "stream" else 0)
        ctx.case(("nested", chain, pos, lo, ln))
        ctx.count("nested.depth%d.%s" % (depth, expect))
        what = "%s (%s -> %s) below the wrappers %s of a %s" % (name, to, tn, "/".join({"o": "optional", "v": "vector"}[w] for w in chain), pos)
        case = {"case_dir": cdir, "stderr": cli.clean(p.stderr)[-1200:]}
        bad = True
        if v["panic"]:
            ctx.violation("panic@%s" % v["panic"], "%s: crash" % what, case)
        elif v["rc"] not in (0, 1):
            ctx.violation("exit%s" % v["rc"], "%s: exit status %s" % (what, v["rc"]), case)
        elif expect == "clean" and (v["rc"] != 0 or v["errors"] or v["warnings"]):
            ctx.violation("not-clean:nested", "%s: identical versions give rc=%s %s" % (what, v["rc"], (v["errors"] + v["warnings"])[:1]), case)
        elif expect == evo.BREAKING and v["rc"] != 1:
            ctx.violation("breaking-accepted:nested:%s" % name, "%s: documented breaking change accepted (rc=%s, warnings=%d)" % (what, v["rc"], len(v["warnings"])), case)
        elif expect == evo.BREAKING and not any("[v0]" in e for e in v["errors"]):
            ctx.violation("no-version-label:nested:%s" % name, "%s: rejected but no error carries the version label: %s" % (what, v["errors"][:2]), case)
        elif expect == evo.PARTIAL and v["rc"] != 0:
            ctx.violation("rejected:partial:nested:%s" % name, "%s: documented partially compatible change rejected: %s" % (what, v["errors"][:2]), case)
        elif expect == evo.PARTIAL and not v["warnings"]:
            ctx.violation("no-warning:nested:%s" % name, "%s: partially compatible change accepted without a warning" % what, case)
        else:
            bad = False
        if not bad:
            shutil.rmtree(cdir, ignore_errors=True)

    pmap(one, jobs)


def replay(ctx, path):
    import json
    print(json.dumps(json.load(open(path)), indent=1)[:3000])
    run(ctx)
