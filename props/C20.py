"""C20 - watch mode converges to the output for the final package contents.

Workload: `yardl generate --watch` (built -race -tags verif) on a package with a two-level import chain and four outputs; edit scripts of
2-6 saves (in-place rewrite, write-temp-and-rename, edits to model files, to the manifest incl. removing an output section, to imported
packages; valid -> invalid -> valid) whose timing is drawn from a fixed list around the 5 ms debounce {0,1,4,6,10,50 ms}, and *forced*
schedules: per-ordinal delay points of the verif hook (regen.validated#k, chdir.inside#k) make the k-th regeneration slow so that a later,
fast regeneration overtakes it (the first regeneration is synchronous, so k >= 2).
Monitor: hook event log (regen.start / regen.validated / regen.end, file.write), watcher liveness, Go race detector reports
(GORACE log_path, halt_on_error=0), output snapshot after quiescence (start count = end count and no event for 60x the debounce).
Oracle: after quiescence a one-shot `yardl generate` of the final contents into a fresh tree produces exactly the files present (same
content) and a one-shot generate in place changes nothing; the watcher is alive and regenerated after every burst incl. after invalid
states; no data race with a yardl frame on both stacks."""
from __future__ import annotations

import json
import os
import re
import shutil
import signal
import subprocess
import time

from vlib import cli, common, fsmon
from vlib.common import pmap, rng, Inconclusive

LEVEL = "exploration"
FLOOR = {"quick": 20, "thorough": 700}
DEBOUNCE_MS = 5

BASE = "BaseRec: !record\n  fields:\n    b: int\n"
LIB = "LibRec: !record\n  fields:\n    x: Base.BaseRec\n    y: string*\n"


def model(variant: int, field_type: str = None) -> str:
    ft = field_type or ["int", "string", "double", "uint8", "date", "float*", "bool", "int64"][variant % 8]
    return ("Main: !record\n  fields:\n    v: %s\n    lib: Lib.LibRec?\n    extra%d: int\nMainEnum%d: !enum\n  values: [a, b]\n"
            "MainProto: !protocol\n  sequence:\n    m: Main\n    s: !stream\n      items: Main\n" % (ft, variant, variant))


_TAIL = ("Main: !record\n  fields:\n    v: int\n    lib: Lib.LibRec?\n    outer: Outer\n    ids: Id*\n"
         "MainProto: !protocol\n  sequence:\n    m: Main\n    s: !stream\n      items: Outer\n")
# successive contents of main/model.yml in which the *same names* mean something else each time (a record gains / loses its default value, an enum
# loses its zero value, an alias changes its target, a generic record changes its body): whatever a long-running process remembers about a
# definition by its name is wrong after the next save
MEANINGS = [
    "Mode: !enum\n  values: [off, on]\nId: int\nInner: !record\n  fields:\n    a: int\n'Box<T>': !record\n  fields:\n    content: T\n"
    "Outer: !record\n  fields:\n    inner: Inner\n    items: Inner*\n    boxed: Box<Inner>\n    mode: Mode\n" + _TAIL,
    "Mode: !enum\n  values:\n    slow: 1\n    fast: 2\nId: int\nInner: !record\n  fields:\n    mode: Mode\n'Box<T>': !record\n  fields:\n    content: T\n"
    "Outer: !record\n  fields:\n    inner: Inner\n    items: Inner*\n    boxed: Box<Inner>\n    mode: Mode\n" + _TAIL,
    "Mode: !enum\n  values: [off, on]\nId: string\nInner: !record\n  fields:\n    a: string\n    m: Mode\n'Box<T>': !record\n  fields:\n    content: T*\n    id: Id\n"
    "Outer: !record\n  fields:\n    inner: Inner\n    items: Inner*\n    boxed: Box<Inner>\n    mode: Mode\n" + _TAIL,
    "Mode: !flags\n  values: [r, w]\nId: Inner\nInner: !record\n  fields:\n    a: 'float[]'\n    u: [int, string]\n'Box<T>': !record\n  fields:\n    content: T?\n"
    "Outer: !record\n  fields:\n    inner: Inner?\n    items: Inner*3\n    boxed: Box<Id>\n    mode: Mode\n" + _TAIL,
    "Mode: !enum\n  base: uint8\n  values:\n    only: 7\nId: Mode\nInner: !record\n  fields:\n    id: Id\n'Box<T>': !record\n  fields:\n    content: T\n    second: T\n"
    "Outer: !record\n  fields:\n    inner: Inner\n    items: string->Inner\n    boxed: Box<Mode>\n    mode: Mode\n" + _TAIL,
]


def manifest(outputs=("cpp", "python", "json", "matlab"), libdir="lib"):
    s = "namespace: Main\nimports:\n  - ../%s\n" % libdir
    if "cpp" in outputs:
        s += "cpp:\n  sourcesOutputDir: ../out/cpp\n  generateHDF5: false\n  generateCMakeLists: false\n"
    if "python" in outputs:
        s += "python:\n  outputDir: ../out/python\n"
    if "json" in outputs:
        s += "json:\n  outputDir: ../out/json\n"
    if "matlab" in outputs:
        s += "matlab:\n  outputDir: ../out/matlab\n"
    return s


LIB_ALONE = "LibRec: !record\n  fields:\n    x: int\n    y: string*\n"


def write_tree(root, variant=0, outputs=("cpp", "python", "json", "matlab"), lib=LIB, single_import=False, libdir="lib"):
    files = {"base/_package.yml": "namespace: Base\n", "base/base.yml": BASE,
             libdir + "/_package.yml": "namespace: Lib\nimports:\n  - %s../base\n" % ("../" * libdir.count("/")), libdir + "/lib.yml": lib,
             "main/_package.yml": manifest(outputs, libdir), "main/model.yml": model(variant)}
    if single_import:
        # the package under watch references exactly one other package
        files = {"lib/_package.yml": "namespace: Lib\n", "lib/lib.yml": LIB_ALONE if lib == LIB else lib,
                 "main/_package.yml": manifest(outputs), "main/model.yml": model(variant)}
    common.write_tree(root, files)


def save(path, text, how):
    if how == "rename":
        tmp = path + ".tmp~"
        with open(tmp, "w") as f:
            f.write(text)
        os.replace(tmp, path)
    else:
        with open(path, "w") as f:
            f.write(text)


class Watcher:
    def __init__(self, root, home, yardl, delays="", tag="", pkgdir="main", args=()):
        self.root = root
        self.evlog = os.path.join(root, "events.log")
        self.racelog = os.path.join(root, "race")
        env = common.yardl_env(home, self.evlog, {"VERIF_DELAYS": delays, "GORACE": "halt_on_error=0 log_path=%s" % self.racelog})
        self.out = open(os.path.join(root, "watch.out"), "wb")
        self.p = subprocess.Popen([yardl, "generate", "--watch"] + list(args), cwd=os.path.join(root, pkgdir), env=env, stdout=self.out, stderr=subprocess.STDOUT,
                                  stdin=subprocess.DEVNULL, start_new_session=True)

    def events(self):
        return common.read_events(self.evlog)

    def counts(self):
        ev = self.events()
        return (sum(1 for e in ev if e["ev"] == "regen.start"), sum(1 for e in ev if e["ev"] == "regen.end"), len(ev))

    def wait_quiescent(self, min_starts, quiet_s=0.3, limit_s=20.0):
        """quiescence is decided on events: starts == ends, at least min_starts regenerations, no new event for quiet_s.
        Returns False if the bound is hit (=> bounded-progress failure or inconclusive, decided by the caller)."""
        t0 = time.monotonic()
        last_n, last_change = -1, time.monotonic()
        while time.monotonic() - t0 < limit_s:
            s, e, n = self.counts()
            if n != last_n:
                last_n, last_change = n, time.monotonic()
            if s == e and s >= min_starts and time.monotonic() - last_change >= quiet_s:
                return True
            if self.p.poll() is not None:
                return False
            time.sleep(0.02)
        return False

    def cpu_ticks(self):
        try:
            with open("/proc/%d/stat" % self.p.pid) as f:
                parts = f.read().rsplit(")", 1)[1].split()
            return int(parts[11]) + int(parts[12])
        except (OSError, IndexError, ValueError):
            return -1

    def wait_quiescent_patient(self, min_starts, quiet_s=0.3, limit_s=25.0, rounds=6):
        """wait_quiescent, repeated for as long as the watcher makes progress (new hook events, or CPU time consumed) during a round: on a loaded machine a
        regeneration can take longer than any fixed wall-clock bound. A whole round without any progress ends the wait (the caller decides what that means)."""
        for _ in range(rounds):
            n0, c0 = self.counts()[2], self.cpu_ticks()
            if self.wait_quiescent(min_starts, quiet_s, limit_s):
                return True
            if not self.alive():
                return False
            if self.counts()[2] == n0 and self.cpu_ticks() == c0:
                return False
        return False

    def alive(self):
        return self.p.poll() is None

    def stop(self):
        if self.p.poll() is None:
            try:
                os.killpg(self.p.pid, signal.SIGTERM)
            except ProcessLookupError:
                pass
            try:
                self.p.wait(timeout=5)
            except subprocess.TimeoutExpired:
                os.killpg(self.p.pid, signal.SIGKILL)
                self.p.wait()
        self.out.close()

    def race_reports(self):
        reps = []
        d = os.path.dirname(self.racelog)
        for f in os.listdir(d):
            if f.startswith("race."):
                txt = open(os.path.join(d, f), errors="replace").read()
                for block in txt.split("WARNING: DATA RACE")[1:]:
                    frames = re.findall(r"^\s+(github\.com/microsoft/yardl/tooling/[^\s(]+)", block, re.M)
                    frames = [x for x in frames if "verifhook" not in x]
                    if frames:
                        reps.append(frames[0].split("tooling/")[1] + " | " + frames[-1].split("tooling/")[1])
        return reps


def schedules(quick):
    """(name, delays, [(sleep_ms_before, target file, kind, payload, how)], final variant info)"""
    out = []
    gaps = [0, 1, 4, 6, 10, 50]
    n_timed = 14 if quick else 1200
    for i in range(n_timed):
        r = rng("C20t", i)
        steps = []
        k = r.randint(2, 6)
        for j in range(k):
            kind = r.choices(["model", "invalid", "lib", "manifest-drop", "manifest-restore", "add-file", "delete-file", "meaning"], [6, 2, 1, 1, 1, 1, 1, 2])[0]
            steps.append((r.choice(gaps), kind, 10 * i + j + 1, r.choice(["inplace", "rename"])))
        last_model_save = [st[1] for st in steps if st[1] in ("model", "invalid", "meaning")]
        if last_model_save and last_model_save[-1] == "invalid":      # the final contents must be valid: what an invalid final state should produce is not stated
            steps.append((r.choice(gaps), "model", 10 * i + 9, "inplace"))
        # a script must change something: deleting a file that was never added is not a save
        added, effective = False, False
        for st in steps:
            if st[1] == "add-file":
                added = True
            if st[1] not in ("delete-file", "manifest-restore") or (st[1] == "delete-file" and added):
                effective = True
        if not effective:
            steps.append((r.choice(gaps), "model", 10 * i + 8, "inplace"))
        out.append(("timed-%d" % i, "", steps))
    forced = [
        ("forced-validated2-overtaken", "regen.validated#2=1200", [(0, "model", 1, "inplace"), (150, "model", 2, "inplace")]),
        ("forced-validated2-overtaken-rename", "regen.validated#2=1200", [(0, "model", 1, "rename"), (150, "model", 2, "rename")]),
        ("forced-validated3-overtaken", "regen.validated#3=1200", [(0, "model", 1, "inplace"), (300, "model", 2, "inplace"), (150, "model", 3, "inplace")]),
        ("forced-validated2-then-invalid", "regen.validated#2=1200", [(0, "model", 1, "inplace"), (150, "invalid", 2, "inplace"), (150, "model", 3, "inplace")]),
        ("forced-chdir2-overlap", "chdir.inside#3=400,chdir.inside#4=400", [(0, "model", 1, "inplace"), (60, "model", 2, "inplace")]),
        ("forced-start2-delayed", "regen.start#2=800", [(0, "model", 1, "inplace"), (100, "model", 2, "inplace")]),
        ("forced-validated2-manifest-drop", "regen.validated#2=1200", [(0, "model", 1, "inplace"), (150, "manifest-drop", 2, "inplace")]),
        ("lib-bad-import-then-fixed", "", [(0, "model", 1, "inplace"), (200, "lib-bad-import", 2, "inplace"), (300, "model", 3, "inplace"), (300, "lib-good-import", 4, "inplace"), (300, "model", 5, "inplace")]),
        ("lib-bad-import-then-fixed-fast", "", [(0, "lib-bad-import", 1, "inplace"), (50, "lib-good-import", 2, "inplace"), (50, "model", 3, "rename")]),
        ("forced-validated2-lib-edit", "regen.validated#2=1200", [(0, "lib", 1, "inplace"), (150, "model", 2, "inplace")]),
        # "startbad-": the watcher starts on a package that does not validate; the saves that repair it
        ("startbad-lib-repaired-in-lib", "", [(200, "lib", 1, "inplace")]),
        ("startbad-lib-repaired-in-lib-rename", "", [(200, "lib", 1, "rename"), (300, "lib", 2, "rename")]),
        ("startbad-base-repaired-in-base", "", [(200, "base-good", 1, "inplace")]),
        ("startbad-main-repaired-in-main", "", [(200, "model", 1, "inplace")]),
        # "meaning-": the same definition names with a different meaning after every save (no particular timing needed)
        ("meaning-cycle", "", [(0, "meaning", 0, "inplace"), (400, "meaning", 1, "inplace"), (400, "meaning", 2, "inplace"), (400, "meaning", 3, "inplace"), (400, "meaning", 4, "inplace")]),
        ("meaning-cycle-back", "", [(0, "meaning", 4, "rename"), (400, "meaning", 3, "rename"), (400, "meaning", 1, "rename"), (400, "meaning", 0, "rename")]),
        ("meaning-default-lost-and-back", "", [(0, "meaning", 0, "inplace"), (400, "meaning", 1, "inplace"), (400, "meaning", 0, "inplace"), (400, "meaning", 1, "inplace")]),
        ("meaning-through-invalid", "", [(0, "meaning", 2, "inplace"), (300, "invalid", 2, "inplace"), (300, "meaning", 4, "inplace")]),
        ("file-added-then-deleted", "", [(0, "add-file", 1, "inplace"), (400, "delete-file", 2, "inplace")]),
        ("file-added-then-moved-out", "", [(0, "add-file", 1, "rename"), (400, "model", 2, "inplace"), (400, "move-file-out", 3, "inplace")]),
        ("file-added-edited-deleted-fast", "", [(0, "add-file", 1, "inplace"), (30, "add-file", 2, "inplace"), (30, "delete-file", 3, "inplace")]),
        ("file-added-kept", "", [(0, "model", 1, "inplace"), (300, "add-file", 2, "inplace")]),
        ("single-import-lib-edit-last", "", [(0, "model", 1, "inplace"), (400, "lib", 2, "inplace")]),
        ("single-import-lib-edit-rename", "", [(0, "model", 1, "rename"), (400, "lib", 2, "rename"), (400, "lib", 3, "inplace")]),
        ("two-imports-lib-edit-last", "", [(0, "model", 1, "inplace"), (400, "lib", 2, "inplace")]),
        # model files in subdirectories of the package under watch and of an imported package
        ("subdir-file-edited", "", [(0, "model", 1, "inplace"), (400, "sub-file", 2, "inplace")]),
        ("subdir-file-edited-rename", "", [(0, "sub-file", 1, "rename"), (400, "sub-file", 2, "rename")]),
        ("subdir-lib-file-edited", "", [(0, "model", 1, "inplace"), (400, "lib-sub-file", 2, "inplace")]),
        # a populated subdirectory is moved out of the package (one rename event, no event for the files in it), and back
        ("subdir-moved-out", "", [(0, "model", 1, "inplace"), (400, "sub-dir-move-out", 2, "inplace")]),
        ("subdir-lib-moved-out", "", [(0, "model", 1, "inplace"), (400, "lib-sub-dir-move-out", 2, "inplace")]),
        ("subdir-moved-out-and-back", "", [(0, "sub-dir-move-out", 1, "inplace"), (500, "sub-dir-move-back", 2, "inplace")]),
        ("subdir-deep-moved-out", "", [(0, "model", 1, "rename"), (400, "sub-deep-dir-move-out", 2, "inplace")]),
        ("subdir-removed-recursively", "", [(0, "model", 1, "inplace"), (400, "sub-dir-rm", 2, "inplace")]),
        ("new-subdir-file-added", "", [(0, "model", 1, "inplace"), (400, "sub-file", 2, "inplace"), (400, "sub-file", 3, "inplace")]),
        ("new-lib-subdir-file-added", "", [(0, "model", 1, "inplace"), (400, "lib-sub-file", 2, "inplace"), (400, "lib-sub-file", 3, "rename")]),
        # the imported package becomes invalid and is repaired by saves inside the imported package only
        ("lib-broken-then-fixed-in-lib", "", [(0, "lib", 1, "inplace"), (400, "lib-invalid", 2, "inplace"), (400, "lib", 3, "inplace")]),
        ("lib-broken-twice-then-fixed-in-lib", "", [(0, "model", 1, "inplace"), (400, "lib-invalid", 2, "rename"), (300, "lib-invalid", 3, "inplace"), (400, "lib", 4, "rename")]),
        ("single-import-lib-broken-then-fixed-in-lib", "", [(0, "lib", 1, "inplace"), (400, "lib-invalid", 2, "inplace"), (400, "lib", 3, "inplace")]),
        # "dangling-": for a while an import names a directory that does not exist (the imported package is moved away, deleted, or the path in the manifest is
        # half typed) and the package is saved in that state; afterwards everything is put back and saved again
        ("dangling-import-dir-moved-away-and-back", "", [(0, "model", 1, "inplace"), (300, "lib-dir-away", 2, "inplace"), (200, "model", 3, "inplace"), (400, "lib-dir-back", 4, "inplace"), (300, "model", 5, "inplace")]),
        ("dangling-import-dir-deleted-and-recreated", "", [(0, "model", 1, "inplace"), (300, "lib-dir-delete", 2, "inplace"), (200, "model", 3, "rename"), (400, "lib-dir-recreate", 4, "inplace"), (300, "model", 5, "inplace"), (400, "lib", 6, "inplace")]),
        ("dangling-import-half-typed-path", "", [(0, "model", 1, "inplace"), (300, "manifest-half-path", 2, "inplace"), (400, "manifest-restore", 3, "inplace"), (300, "model", 4, "inplace")]),
        ("dangling-import-of-import-moved-away-and-back", "", [(0, "model", 1, "inplace"), (300, "base-dir-away", 2, "inplace"), (200, "lib", 3, "inplace"), (400, "base-dir-back", 4, "inplace"), (300, "model", 5, "rename")]),
        ("single-import-dangling-dir-moved-away-and-back", "", [(0, "model", 1, "inplace"), (300, "lib-dir-away", 2, "inplace"), (200, "model", 3, "inplace"), (400, "lib-dir-back", 4, "inplace"), (300, "model", 5, "inplace")]),
        # "override-": the watcher is started with -c overrides that differ from the manifest; the reference run gets the same overrides
        ("override-output-dir-then-saves", "", [(0, "model", 1, "inplace"), (400, "model", 2, "rename"), (400, "lib", 3, "inplace")]),
        ("override-then-invalid-then-valid", "", [(0, "model", 1, "inplace"), (300, "invalid", 2, "inplace"), (300, "model", 3, "inplace")]),
        # "first-": the saves start while the watcher's very first generation is still running (held at regen.validated#1), and nothing is saved afterwards
        ("first-generation-save", "regen.validated#1=1200", [(150, "model", 1, "inplace")]),
        ("first-generation-save-rename", "regen.validated#1=1200", [(150, "model", 1, "rename")]),
        ("first-generation-two-saves", "regen.validated#1=1200", [(150, "model", 1, "inplace"), (100, "model", 2, "inplace")]),
        ("first-generation-manifest-drop", "regen.validated#1=1200", [(150, "manifest-drop", 1, "inplace")]),
        # "versions-": a listed previous version is edited while the watcher runs; the latest model stays as it is (its compatibility code must follow)
        ("versions-predecessor-edited-last", "", [(0, "model", 1, "inplace"), (500, "v0-edit", 1, "inplace")]),
        ("versions-predecessor-edited-twice", "", [(0, "model", 2, "rename"), (500, "v0-edit", 2, "rename"), (500, "v0-edit", 10, "inplace"), (500, "v0-edit", 2, "inplace")]),
        ("versions-predecessor-then-model", "", [(0, "v0-edit", 3, "inplace"), (500, "model", 3, "inplace"), (500, "v0-edit", 3, "rename")]),
        # "prefix-": paths that begin like the path of an output directory without being inside it
        ("prefix-import-dir-named-like-output-dir-edited-last", "", [(0, "model", 1, "inplace"), (400, "lib", 2, "inplace")]),
        ("prefix-import-dir-named-like-output-dir-edited-rename", "", [(0, "lib", 1, "rename"), (400, "model", 2, "rename"), (400, "lib", 3, "rename")]),
        # a subdirectory is created and the regeneration that this triggers is held after it has read the package; the first model file of the new
        # directory is saved meanwhile, and nothing is saved afterwards
        ("forced-new-subdir-file-during-regeneration", "regen.validated#2=1200", [(0, "mkdir-sub", 1, ""), (400, "sub-file", 2, "inplace")]),
        ("forced-new-subdir-file-during-regeneration-rename", "regen.validated#2=1200", [(0, "mkdir-sub", 1, ""), (400, "sub-file", 2, "rename")]),
        ("forced-new-lib-subdir-file-during-regeneration", "regen.validated#2=1200", [(0, "mkdir-lib-sub", 1, ""), (400, "lib-sub-file", 2, "inplace")]),
        ("new-subdir-then-file-later", "", [(0, "mkdir-sub", 1, ""), (600, "sub-file", 2, "inplace")]),
        # "manifest-": what an earlier _package.yml said must not survive in the running watcher. A section is removed and the removal settles; later saves must
        # leave that section's output alone. The last import is removed (the model no longer uses it); later saves must still be regenerated
        ("manifest-section-dropped-then-saves", "", [(0, "model", 1, "inplace"), (0, "settle", 0, ""), (0, "manifest-drop", 2, "inplace"), (0, "settle", 0, ""), (0, "snap-dropped", 0, ""),
                                                     (0, "model", 3, "inplace"), (0, "settle", 0, ""), (0, "lib", 4, "inplace")]),
        ("manifest-section-dropped-then-saves-rename", "", [(0, "manifest-drop", 1, "rename"), (0, "settle", 0, ""), (0, "snap-dropped", 0, ""), (0, "model", 2, "rename"), (300, "model", 3, "rename")]),
        ("manifest-last-import-removed", "", [(0, "noimport-model", 1, "inplace"), (0, "settle", 0, ""), (0, "manifest-noimports", 2, "inplace"), (0, "settle", 0, ""), (0, "noimport-model", 3, "inplace")]),
        ("manifest-last-import-removed-fast", "", [(0, "noimport-model", 1, "inplace"), (50, "manifest-noimports", 2, "rename"), (50, "noimport-model", 3, "rename"), (400, "noimport-model", 4, "inplace")]),
        ("manifest-imports-emptied", "", [(0, "noimport-model", 1, "inplace"), (0, "settle", 0, ""), (0, "manifest-empty-imports", 2, "inplace"), (0, "settle", 0, ""), (0, "noimport-model", 3, "inplace")]),
        ("single-import-manifest-last-import-removed", "", [(0, "noimport-model", 1, "inplace"), (0, "settle", 0, ""), (0, "manifest-noimports", 2, "inplace"), (0, "settle", 0, ""), (0, "noimport-model", 3, "inplace")]),
        # the output is removed / overwritten by something else while the watcher is idle, then the package is saved again
        ("output-removed-then-save", "", [(0, "model", 1, "inplace"), (600, "rm-output", 2, "inplace"), (300, "model", 3, "inplace")]),
        ("output-removed-then-same-save", "", [(0, "model", 1, "inplace"), (600, "rm-output", 2, "inplace"), (300, "model", 1, "rename")]),
        ("output-clobbered-then-save", "", [(0, "model", 1, "inplace"), (600, "clobber-output", 2, "inplace"), (300, "model", 3, "inplace")]),
        ("output-python-removed-then-lib-save", "", [(0, "model", 1, "inplace"), (600, "rm-python-output", 2, "inplace"), (300, "lib", 3, "inplace")]),
    ]
    only = os.environ.get("VERIF_C20_ONLY")
    if only:        # experiments only: run the schedules whose name contains the text
        return [x for x in out + forced if only in x[0]]
    out += forced if quick else forced * 1 + [("forced-validated2-gap%d" % g, "regen.validated#2=1200", [(0, "model", 1, "inplace"), (g, "model", 2, "inplace")]) for g in (20, 50, 100, 300, 600, 1100, 1300)]
    return out


def run(ctx):
    yardl = common.build_yardl(race=True)
    oneshot = common.build_yardl()
    quick = ctx.tier == "quick"
    home = os.path.join(ctx.workdir, "home")
    os.makedirs(home, exist_ok=True)
    sch = schedules(quick)
    ctx.rule = ("%d schedules: seeded timed edit scripts (2-6 saves, gaps from {0,1,4,6,10,50} ms around the 5 ms debounce, in-place / rename saves, model / import / manifest "
                "edits, invalid intermediate states) and forced schedules using per-ordinal delay points (a slow regeneration #k>=2 overtaken by a later fast one; overlapping "
                "chdir windows). distinct = schedule; every schedule is non-trivial (>= 2 saves)." % len(sch))
    ctx.assumptions = ["quiescence is decided on hook events (regen.start = regen.end, no event for 300 ms), waits are only pauses; a watcher that does not become quiescent within 20 s "
                       "of wall time makes the schedule inconclusive unless it died", "the verif hook only logs / sleeps outside of any lock (there is none in the watcher)",
                       "liveness is restated as bounded progress: a regeneration starts after every save burst"]

    def one(item):
        name, delays, steps = item
        single = name.startswith("single-import")
        # "prefix-": the imported package lives in a directory whose path begins like the path of an output directory (../out/pythonlib next to ../out/python)
        libdir = "out/pythonlib" if name.startswith("prefix-") else "lib"
        root = os.path.join(ctx.workdir, "cases", name)
        shutil.rmtree(root, ignore_errors=True)
        write_tree(root, 0, single_import=single, libdir=libdir)
        # "versions-": the package lists a previous version (a sibling directory, identical to the package at first) that is edited while the watcher runs
        with_versions = name.startswith("versions-")
        v0_text = model(0)
        if with_versions:
            common.write_tree(root, {"v0/_package.yml": "namespace: Main\nimports:\n  - ../lib\n", "v0/model.yml": v0_text,
                                     "main/_package.yml": manifest() + "versions:\n  v0: ../v0\n"})
        if name.startswith("subdir-"):
            common.write_tree(root, {"main/sub/deep/extra.yml": "SubFile0: !record\n  fields:\n    z: int\n", "lib/more/extra.yml": "LibSub0: !record\n  fields:\n    z: int\n"})
        if name.startswith("startbad-lib"):
            # the watcher is started while an imported package (or the package the import imports) is invalid: the repair happens inside that package only
            common.write_tree(root, {"lib/lib.yml": LIB + "Broken: !record\n  fields:\n    q: NoSuchType\n"})
        elif name.startswith("startbad-base"):
            common.write_tree(root, {"base/base.yml": BASE + "Broken: !record\n  fields:\n    q: NoSuchType\n"})
        elif name.startswith("startbad-main"):
            common.write_tree(root, {"main/model.yml": model(0).replace("v: ", "v: Missing")})
        overrides = ["-c", "python.outputDir=../out_override/python", "-c", "cpp.generateNDJson=false", "-c", "json.outputDir=../out_override/json"] if name.startswith("override-") else []
        w = Watcher(root, os.path.join(root, "home"), yardl, delays, args=overrides)
        os.makedirs(os.path.join(root, "home"), exist_ok=True)
        verdict = {"name": name, "saves": len(steps)}
        try:
            if name.startswith("first-"):
                # do not wait for the first generation: the script starts once the hook has logged that it is under way
                t0 = time.monotonic()
                while not any(e["ev"] == "regen.validated" for e in w.events()):
                    if not w.alive():
                        ctx.violation("watcher-died:startup", "%s: watcher exited during the initial generation" % name, {"case_dir": root})
                        return verdict
                    if time.monotonic() - t0 > 30:
                        raise Inconclusive("%s: initial regeneration did not start within 30 s wall" % name)
                    time.sleep(0.01)
            elif not w.wait_quiescent_patient(1, limit_s=30):
                if not w.alive():
                    ctx.violation("watcher-died:startup", "%s: watcher exited during the initial generation" % name, {"case_dir": root})
                    return verdict
                raise Inconclusive("%s: initial regeneration did not finish within 30 s wall" % name)
            cur_outputs = ("cpp", "python", "json", "matlab")
            final_variant, lib_text, second = 0, LIB, None
            final_model_text = None
            sub = "SubFile0: !record\n  fields:\n    z: int\n" if name.startswith("subdir-") else None
            libsub = "LibSub0: !record\n  fields:\n    z: int\n" if name.startswith("subdir-") else None
            starts_before = w.counts()[0]
            invalid_seen = False
            starts_at_last_save = starts_before
            dropped_snapshot = None
            final_manifest_text = None
            for gap, kind, v, how in steps:
                time.sleep(gap / 1000.0)
                if kind not in ("settle", "snap-dropped"):
                    starts_at_last_save = w.counts()[0]
                if kind == "model":
                    save(os.path.join(root, "main/model.yml"), model(v), how)
                    final_variant = v
                    final_model_text = None
                    final_invalid = False
                elif kind == "meaning":
                    final_model_text = MEANINGS[v % len(MEANINGS)]
                    save(os.path.join(root, "main/model.yml"), final_model_text, how)
                    final_invalid = False
                elif kind == "invalid":
                    save(os.path.join(root, "main/model.yml"), model(v).replace("v: ", "v: Missing"), how)
                    invalid_seen = True
                    final_invalid = True
                elif kind == "lib":
                    lib_text = (LIB_ALONE if single else LIB) + "LibExtra%d: !record\n  fields:\n    q: int\n" % v
                    save(os.path.join(root, libdir, "lib.yml"), lib_text, how)
                elif kind == "base-good":
                    save(os.path.join(root, "base/base.yml"), BASE, how)
                elif kind == "lib-invalid":
                    save(os.path.join(root, "lib/lib.yml"), (LIB_ALONE if single else LIB) + "LibBroken%d: !record\n  fields:\n    q: NoSuchType\n" % v, how)
                    invalid_seen = True
                elif kind == "lib-bad-import":
                    save(os.path.join(root, "lib/_package.yml"), "namespace: Lib\nimports:\n  - htps://example.invalid/base\n", how)
                    invalid_seen = True
                elif kind == "lib-good-import":
                    save(os.path.join(root, "lib/_package.yml"), "namespace: Lib\nimports:\n  - ../base\n", how)
                elif kind in ("lib-dir-away", "base-dir-away"):
                    d = kind.split("-")[0]
                    os.rename(os.path.join(root, d), os.path.join(root, d + "_moved_away"))
                    invalid_seen = True
                elif kind in ("lib-dir-back", "base-dir-back"):
                    d = kind.split("-")[0]
                    os.rename(os.path.join(root, d + "_moved_away"), os.path.join(root, d))
                elif kind == "lib-dir-delete":
                    shutil.rmtree(os.path.join(root, "lib"))
                    invalid_seen = True
                elif kind == "lib-dir-recreate":
                    common.write_tree(root, {"lib/_package.yml": "namespace: Lib\n" + ("" if single else "imports:\n  - ../base\n"), "lib/lib.yml": lib_text if lib_text != LIB or not single else LIB_ALONE})
                elif kind == "manifest-half-path":
                    save(os.path.join(root, "main/_package.yml"), manifest(cur_outputs).replace("../lib", "../li"), how)
                    invalid_seen = True
                elif kind == "add-file":
                    save(os.path.join(root, "main/second.yml"), "SecondFile%d: !record\n  fields:\n    z: int\n" % v, how)
                    second = "SecondFile%d: !record\n  fields:\n    z: int\n" % v
                elif kind == "delete-file":
                    if os.path.exists(os.path.join(root, "main/second.yml")):
                        os.unlink(os.path.join(root, "main/second.yml"))
                    second = None
                elif kind == "move-file-out":
                    if os.path.exists(os.path.join(root, "main/second.yml")):
                        os.replace(os.path.join(root, "main/second.yml"), os.path.join(root, "moved_out_%d.yml" % v))
                    second = None
                elif kind == "sub-file":
                    # a model file in a subdirectory of the package (existing from the start for 'subdir-' schedules, otherwise created here)
                    sub = "SubFile%d: !record\n  fields:\n    z: int\n" % v
                    os.makedirs(os.path.join(root, "main/sub/deep"), exist_ok=True)
                    save(os.path.join(root, "main/sub/deep/extra.yml"), sub, how)
                elif kind == "lib-sub-file":
                    libsub = "LibSub%d: !record\n  fields:\n    z: int\n" % v
                    os.makedirs(os.path.join(root, "lib/more"), exist_ok=True)
                    save(os.path.join(root, "lib/more/extra.yml"), libsub, how)
                elif kind == "v0-edit":
                    # the previous version becomes the model of variant v with another (convertible) type for the field `v`: what the latest version
                    # has to convert from changes, the latest model itself does not
                    v0_text = model(v, field_type="int64" if v % 8 == 0 else "int")
                    save(os.path.join(root, "v0/model.yml"), v0_text, how)
                elif kind == "mkdir-sub":
                    # an empty subdirectory appears in the package (the file in it follows in a later step)
                    os.makedirs(os.path.join(root, "main/sub/deep"), exist_ok=True)
                elif kind == "mkdir-lib-sub":
                    os.makedirs(os.path.join(root, "lib/more"), exist_ok=True)
                elif kind == "sub-dir-move-out":
                    os.rename(os.path.join(root, "main/sub"), os.path.join(root, "parked_sub"))
                    sub_saved, sub = sub, None
                elif kind == "sub-dir-move-back":
                    os.rename(os.path.join(root, "parked_sub"), os.path.join(root, "main/sub"))
                    sub = sub_saved
                elif kind == "sub-deep-dir-move-out":
                    os.rename(os.path.join(root, "main/sub/deep"), os.path.join(root, "parked_deep"))
                    sub = None
                elif kind == "sub-dir-rm":
                    shutil.rmtree(os.path.join(root, "main/sub"))
                    sub = None
                elif kind == "lib-sub-dir-move-out":
                    os.rename(os.path.join(root, "lib/more"), os.path.join(root, "parked_more"))
                    libsub = None
                elif kind == "rm-output":
                    shutil.rmtree(os.path.join(root, "out"), ignore_errors=True)
                elif kind == "rm-python-output":
                    shutil.rmtree(os.path.join(root, "out", "python"), ignore_errors=True)
                elif kind == "clobber-output":
                    for dp, _, fs in os.walk(os.path.join(root, "out")):
                        for fn in sorted(fs)[::2]:
                            with open(os.path.join(dp, fn), "w") as f:
                                f.write("overwritten by another tool\n")
                elif kind == "manifest-drop":
                    cur_outputs = ("cpp", "json")
                    save(os.path.join(root, "main/_package.yml"), manifest(cur_outputs), how)
                elif kind == "manifest-restore":
                    cur_outputs = ("cpp", "python", "json", "matlab")
                    save(os.path.join(root, "main/_package.yml"), manifest(cur_outputs), how)
                elif kind == "settle":
                    # not a save: the script waits until the watcher has dealt with everything saved so far
                    if not w.wait_quiescent_patient(starts_at_last_save + 1, limit_s=25):
                        if not w.alive():
                            break
                        raise Inconclusive("%s: watcher not quiescent within 25 s wall in the middle of the script" % name)
                    continue
                elif kind == "snap-dropped":
                    # the sections dropped from the manifest are settled: from here on nothing may write below their output directories
                    dropped_snapshot = {k: x[3] for k, x in fsmon.snapshot(os.path.join(root, "out")).items()
                                        if x[0] == "file" and k.split("/")[0] not in cur_outputs}
                    continue
                elif kind == "noimport-model":
                    final_model_text = model(v).replace("    lib: Lib.LibRec?\n", "")
                    save(os.path.join(root, "main/model.yml"), final_model_text, how)
                    final_invalid = False
                elif kind == "manifest-noimports":
                    final_manifest_text = manifest(cur_outputs).replace("imports:\n  - ../lib\n", "")
                    save(os.path.join(root, "main/_package.yml"), final_manifest_text, how)
                elif kind == "manifest-empty-imports":
                    final_manifest_text = manifest(cur_outputs).replace("imports:\n  - ../lib\n", "imports: []\n")
                    save(os.path.join(root, "main/_package.yml"), final_manifest_text, how)
            ok = w.wait_quiescent_patient(starts_before + 1, limit_s=25)
            s, e, n = w.counts()
            verdict.update(regenerations=s, events=n)
            ctx.ev()
            ctx.count("regenerations", s)
            if not w.alive():
                ctx.violation("watcher-died", "%s: the watcher process exited (rc=%s) during the edit script" % (name, w.p.poll()), {"case_dir": root, "tail": open(os.path.join(root, "watch.out"), errors="replace").read()[-1500:]})
                return verdict
            if not ok:
                if s <= starts_before:
                    ctx.violation("no-regeneration", "%s: no regeneration started after the save burst (bounded progress)" % name, {"case_dir": root})
                    return verdict
                raise Inconclusive("%s: watcher not quiescent within 25 s wall (starts=%d ends=%d)" % (name, s, e))
            # reference: one-shot generate of the final contents in a fresh tree
            ref = os.path.join(root, "ref")
            shutil.rmtree(ref, ignore_errors=True)
            write_tree(ref, final_variant, cur_outputs, lib_text, single_import=single, libdir=libdir)
            if final_model_text is not None:
                common.write_tree(ref, {"main/model.yml": final_model_text})
            if final_manifest_text is not None:
                common.write_tree(ref, {"main/_package.yml": final_manifest_text})
            if with_versions:
                common.write_tree(ref, {"v0/_package.yml": "namespace: Main\nimports:\n  - ../lib\n", "v0/model.yml": v0_text, "main/_package.yml": manifest(cur_outputs) + "versions:\n  v0: ../v0\n"})
            if second is not None:
                common.write_tree(ref, {"main/second.yml": second})
            if sub is not None:
                common.write_tree(ref, {"main/sub/deep/extra.yml": sub})
            if libsub is not None:
                common.write_tree(ref, {"lib/more/extra.yml": libsub})
            p = cli.run_cli("generate", os.path.join(ref, "main"), home, overrides)
            if p.rc != 0:
                raise Inconclusive("%s: reference one-shot generate failed: %s" % (name, cli.clean(p.stderr)[:300]))
            want = {k: v[3] for k, v in fsmon.snapshot(os.path.join(ref, "out")).items() if v[0] == "file"}
            have = {k: v[3] for k, v in fsmon.snapshot(os.path.join(root, "out")).items() if v[0] == "file"}
            if overrides:
                want.update({"override/" + k: v[3] for k, v in fsmon.snapshot(os.path.join(ref, "out_override")).items() if v[0] == "file"})
                if os.path.isdir(os.path.join(root, "out_override")):
                    have.update({"override/" + k: v[3] for k, v in fsmon.snapshot(os.path.join(root, "out_override")).items() if v[0] == "file"})
                extra = sorted(k for k in have if k not in want and not k.startswith("override/"))
                if extra:
                    # output that only exists because the overrides were dropped at some point
                    want.update({k: None for k in extra[:20]})
            stale = sorted(k for k in want if have.get(k) != want[k])
            # on a heavily loaded machine the watcher may not yet have *started* the regeneration for the last save when the event log has been
            # quiet for a moment: before an output is called stale, the watcher gets more time, as long as new events keep arriving
            for _ in range(4):
                if not stale:
                    break
                n_before = w.counts()[2]
                time.sleep(2.0)
                if w.counts()[2] == n_before:
                    break
                w.wait_quiescent(starts_before + 1, limit_s=25)
                have = {k: v[3] for k, v in fsmon.snapshot(os.path.join(root, "out")).items() if v[0] == "file"}
                if overrides and os.path.isdir(os.path.join(root, "out_override")):
                    have.update({"override/" + k: v[3] for k, v in fsmon.snapshot(os.path.join(root, "out_override")).items() if v[0] == "file"})
                stale = sorted(k for k in want if have.get(k) != want[k])
            ctx.case(name)
            ctx.count("kind." + name.split("-")[0])
            if dropped_snapshot is not None:
                # a one-shot generate of the final contents does not touch the output directories of sections that are no longer in the manifest
                now = {k: x[3] for k, x in fsmon.snapshot(os.path.join(root, "out")).items() if x[0] == "file" and k.split("/")[0] not in cur_outputs}
                touched = sorted(k for k in set(now) | set(dropped_snapshot) if now.get(k) != dropped_snapshot.get(k))
                ctx.count("dropped-section-files-watched", len(dropped_snapshot))
                if touched:
                    ctx.violation("dropped-section-still-generated",
                                  "%s: %d file(s) below the output directory of a section that had been removed from _package.yml (and the removal settled) were rewritten by a later regeneration (e.g. %s); a one-shot generate of the final contents does not touch them" % (name, len(touched), touched[:3]),
                                  {"case_dir": root, "steps": steps, "touched": touched[:40]})
            if stale:
                missing = [k for k in stale if k not in have]
                ctx.violation("stale-output:%s" % ("forced" if name.startswith("forced") else "timed"),
                              "%s: after quiescence %d generated file(s) differ from a one-shot generate of the final contents (e.g. %s%s); regenerations=%d" % (
                                  name, len(stale), stale[:3], "; missing: %s" % missing[:2] if missing else "", s),
                              {"case_dir": root, "delays": delays, "steps": steps, "stale": stale[:40]})
            else:
                # idempotence of a one-shot run in place
                before = fsmon.snapshot(os.path.join(root, "out"))
                p2 = cli.run_cli("generate", os.path.join(root, "main"), home, overrides)
                after = fsmon.snapshot(os.path.join(root, "out"))
                d = fsmon.diff(before, after, content_only=True)
                if p2.rc == 0 and d:
                    ctx.violation("not-converged", "%s: a one-shot generate after quiescence still changes files: %s" % (name, d[:4]), {"case_dir": root})
            races = w.race_reports()
            verdict["race_reports"] = len(races)
            for rr in sorted(set(races)):
                ctx.violation("data-race:%s" % rr.split(" | ")[0], "%s: Go race detector report with yardl frames: %s" % (name, rr), {"case_dir": root})
            ctx.count("race-reports", len(races))
        finally:
            w.stop()
        if not ctx.violations:
            shutil.rmtree(root, ignore_errors=True)
        return verdict

    res = pmap(one, sch, workers=6)
    for v in [x for x in res if x][:4] + [x for x in res if x and x["name"].startswith("forced")][:4]:
        ctx.sample(v)


def replay(ctx, path):
    print(json.dumps(json.load(open(path)), indent=1, default=str)[:3000])
    run(ctx)
