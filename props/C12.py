"""C12 - output is a deterministic, idempotent function of the package.

Workload: valid and invalid packages that populate every map yardl ranges over with many entries (many types,
unions of several arities, generics, imports, several previous versions with many changed definitions, many
simultaneous errors and warnings). Each package: N fresh processes (Go randomises map iteration order per
process) into an emptied output tree, then one more run into the populated tree.
Monitor: sha256 of every output file, stdout, stderr, exit status per run; mtime_ns / inode across the re-run;
file.write{changed} events.
Oracle: all N runs identical in every observable; the re-run touches nothing and logs no changed=true write."""
from __future__ import annotations

import os
import shutil

from vlib import cli, common, corpus, emit, evo, fsmon, modelgen
from vlib.common import pmap, rng, Inconclusive
from vlib.model import *  # noqa
from props import C09

LEVEL = "exploration"
FLOOR = {"quick": 100, "thorough": 2000}


def invalid_bundle(r, k):
    """several independent rule violations at once -> many diagnostics whose order must be stable"""
    defs = []
    picks = r.sample(C09.DEF_RULES, min(k, len(C09.DEF_RULES)))
    seen = set()
    for i, (rid, _, d) in enumerate(picks):
        if "---" in d:
            continue
        # rename definitions so that the snippets do not collide with each other
        d2 = d
        for nm in ("R1", "E1", "P1", "C1", "C2", "G1", "U1", "F1", "S1", "PX", "CG", "Dup1", "Dup2"):
            d2 = d2.replace(nm, "%sx%d" % (nm, i))
        defs.append(d2)
    for i in range(k):
        defs.append("Mk%d: !record\n  fields:\n    a: Missing%d\n    b: 'int[x:2, y]'\n    c: [int, int]\n" % (i, i))
    # unknown names that are equally close to several known names (whatever a diagnostic says about them must not vary between runs)
    defs.append("Point2D: !record\n  fields:\n    x: float\nPoint3D: !record\n  fields:\n    x: float\nRec1: int\nRec2: int\nRec4: int\nSampleA: string\nSampleB: string\nSampleC: string\n"
                "Near: !record\n  fields:\n    a: Point4D\n    b: Rec3\n    c: float16\n    d: SampleD\n    e: Point1D\n    f: uint12\n    g: Rec5\n    h: strin\n    i: SampleE*\n    j: Rec3->Rec6\n")
    return "\n".join(defs)


def run(ctx):
    common.build_yardl()
    quick = ctx.tier == "quick"
    N = 5 if quick else 25
    home = os.path.join(ctx.workdir, "home")
    os.makedirs(home, exist_ok=True)
    ctx.rule = ("packages: large seeded corpus models (12-25 definitions, imports), evolution chains with many changed definitions (warnings), "
                "invalid bundles (6-20 simultaneous violations), repository models; each run %d times in fresh processes + 1 re-run. "
                "distinct = package; evaluations = process executions. With N two-outcome order dependence escapes with probability 2^-(N-1)." % N)
    ctx.assumptions = ["runs of one package use the same absolute paths (outputs are deleted between runs) so that diagnostics are comparable byte for byte"]
    cases = []
    for i in range(8 if quick else 40):
        cases.append(("valid-big", i))
    for i in range(7 if quick else 30):
        cases.append(("evolution", i))
    for i in range(8 if quick else 40):
        cases.append(("invalid", i))
    for i in range(3 if quick else 20):
        cases.append(("removed-protocols", i))
    for name in ["test", "evolution/model_v2", "image", "tuples", "sandbox"]:
        cases.append(("repo", name))
    for i in range(3 if quick else 12):
        cases.append(("many-errors", i))
    for i in range(2 if quick else 8):
        cases.append(("similar-labels", i))
    # one group of diagnostics that yardl produces while ranging over a map, preceded by 0..11 diagnostics with a fixed order: wherever a limit, a
    # truncation or a "first N" rule might cut, the cut falls inside the map-ordered group
    for gi, group in enumerate(("enum-shared-values", "flags-shared-values", "unused-type-parameters", "breaking-steps")):
        for lead in ((0, 5, 9) if quick else (0, 1, 3, 5, 7, 9, 11, 15, 19)):
            cases.append(("map-ordered-group", "%s/%d" % (group, lead)))

    def one(case):
        kind, i = case
        base = os.path.join(ctx.workdir, "cases", "%s_%s" % (kind, str(i).replace("/", "_")))
        shutil.rmtree(base, ignore_errors=True)
        r = rng("C12", kind, i)
        outs = emit.default_outputs("../out", matlab=True, json=True, cpp_opts={"generateHDF5": True, "generateCMakeLists": True})
        if kind == "valid-big":
            pkg = modelgen.gen_corpus_package("c12v%d_%d" % (common.seed(), i), modelgen.GenOpts(max_depth=3, n_defs=(12, 25), n_protocols=(2, 5)), with_import=True)
            common.write_tree(base, emit.package_files(pkg, corpus.style_for("c12%d" % i), outs))
            pkgdir = os.path.join(base, pkg.dir)
        elif kind == "evolution":
            chain = evo.gen_chain("c12e%d_%d" % (common.seed(), i), length=3, edits_per_step=r.randint(3, 8))
            files = evo.chain_files(chain, outs)
            common.write_tree(base, files)
            pkgdir = os.path.join(base, chain[-1].dir)
        elif kind == "removed-protocols":
            # several protocols removed since the previous version: all "Removed protocol" warnings share one source position
            n = r.randint(3, 8)
            old = "Keep: !protocol\n  sequence:\n    a: int\n" + "".join("Gone%d: !protocol\n  sequence:\n    x: int\n    y: string\n" % j for j in range(n)) + "R: !record\n  fields:\n    f: int\n    g: float\n"
            new = "Keep: !protocol\n  sequence:\n    a: long\n    added: int*\nR: !record\n  fields:\n    g: double\n    f: long\n"
            common.write_tree(base, {"v0/_package.yml": "namespace: Rp\n", "v0/m.yml": old,
                                     "new/_package.yml": "namespace: Rp\nversions:\n  v0: ../v0\njson:\n  outputDir: ../out/json\npython:\n  outputDir: ../out/python\n", "new/m.yml": new})
            pkgdir = os.path.join(base, "new")
        elif kind == "many-errors":
            # more diagnostics than any plausible display limit, many of them produced while ranging over maps (symbols sharing an enum value,
            # unused type parameters, per-protocol evolution errors)
            nf = 15 + 4 * i
            bad = "Wide: !record\n  fields:\n" + "".join("    Bad_Field%d: int\n" % j for j in range(nf))
            bad += "Shared: !enum\n  values:\n" + "".join("    a%d: %d\n    b%d: %d\n" % (j, j, j, j) for j in range(6 + i))
            bad += "SharedF: !flags\n  values:\n" + "".join("    fa%d: %d\n    fb%d: %d\n" % (j, 1 << j, j, 1 << j) for j in range(5))
            bad += '"Unused<%s>": !record\n  fields:\n    x: int\n' % ", ".join("T%d" % j for j in range(8 + i))
            bad += "".join("Pm%d: !protocol\n  sequence:\n    a: %s\n" % (j, "string") for j in range(8))
            old = "".join("Pm%d: !protocol\n  sequence:\n    a: %s\n" % (j, "int") for j in range(8))
            common.write_tree(base, {"v0/_package.yml": "namespace: Many\n", "v0/m.yml": old,
                                     "new/_package.yml": "namespace: Many\nversions:\n  v0: ../v0\njson:\n  outputDir: ../out/json\n", "new/m.yml": bad if i % 3 != 2 else old.replace("int", "string").replace("a:", "a:") + "Other: int\n"})
            pkgdir = os.path.join(base, "new")
        elif kind == "map-ordered-group":
            group, lead = i.split("/")
            lead = int(lead)
            new = "Lead: !record\n  fields:\n    ok: int\n" + "".join("    Bad_Lead%d: int\n" % j for j in range(lead))
            old = "Keep: !protocol\n  sequence:\n    a: int\n"
            new_protos = old
            if group == "enum-shared-values":
                new += "Shared: !enum\n  values:\n" + "".join("    a%d: %d\n    b%d: %d\n    c%d: %d\n" % (j, j, j, j, j, j) for j in range(14))
            elif group == "flags-shared-values":
                new += "SharedF: !flags\n  base: uint64\n  values:\n" + "".join("    fa%d: %d\n    fb%d: %d\n" % (j, 1 << j, j, 1 << j) for j in range(14))
            elif group == "unused-type-parameters":
                new += "".join('"Unused%d<%s>": !record\n  fields:\n    x: int\n' % (k, ", ".join("T%d" % j for j in range(9))) for k in range(3))
            else:
                old += "".join("Pm%d: !protocol\n  sequence:\n    a: int\n    b: int\n    c: string\n" % j for j in range(12))
                new_protos += "".join("Pm%d: !protocol\n  sequence:\n    a: string*\n    b: int*\n    c: int->int\n" % j for j in range(12))
                new = "Lead: !record\n  fields:\n    ok: int\n"      # evolution is only checked when the model itself validates
            common.write_tree(base, {"v0/_package.yml": "namespace: Mo\n", "v0/m.yml": old,
                                     "new/_package.yml": "namespace: Mo\nversions:\n  v0: ../v0\njson:\n  outputDir: ../out/json\n", "new/m.yml": new + new_protos})
            pkgdir = os.path.join(base, "new")
        elif kind == "similar-labels":
            # previous versions whose labels differ only in leading zeros / digit grouping, each with its own change of the same steps
            labels = [["v1", "v01", "v001"], ["v1_2", "v1_02", "v01_2", "v1_002"], ["r2", "r02", "r10", "r010"], ["a1b2", "a01b2", "a1b02"]][i % 4]
            types = ["int", "long", "float", "uint", "ulong", "int16", "uint8"]
            proto = "Steps: !protocol\n  sequence:\n    a: %s\n    b: %s\n    s: !stream\n      items: %s\nRec: !record\n  fields:\n    f: %s\nUses: !protocol\n  sequence:\n    r: Rec\n"
            files = {"new/_package.yml": "namespace: Lbl\nversions:\n" + "".join("  %s: ../%s\n" % (l, l) for l in labels) +
                     "cpp:\n  sourcesOutputDir: ../out/cpp\n  generateCMakeLists: false\npython:\n  outputDir: ../out/python\n", "new/m.yml": proto % ("double", "double", "double", "double")}
            for j, l in enumerate(labels):
                files["%s/_package.yml" % l] = "namespace: Lbl\n"
                files["%s/m.yml" % l] = proto % (types[j % 7], types[(j + 1) % 7], types[(j + 2) % 7], types[(j + 3) % 7])
            common.write_tree(base, files)
            pkgdir = os.path.join(base, "new")
        elif kind == "invalid":
            pkg = modelgen.gen_corpus_package("c12i%d_%d" % (common.seed(), i), modelgen.GenOpts(max_depth=2, n_defs=(4, 8)), with_import=(i % 2 == 0))
            files = emit.package_files(pkg, None, outs)
            files[pkg.dir + "/zz_bad.yml"] = invalid_bundle(r, r.randint(6, 20))
            common.write_tree(base, files)
            pkgdir = os.path.join(base, pkg.dir)
        else:
            src = os.path.join(common.REPO, "models")
            shutil.copytree(src, os.path.join(base, "models"))
            pkgdir = os.path.join(base, "models", i)
            man = open(os.path.join(pkgdir, "_package.yml")).read()
            # redirect the repository's output directories into the case tree
            import re
            man = re.sub(r"(sourcesOutputDir|outputDir):\s*\S+", lambda m: "%s: %s" % (m.group(1), os.path.join(base, "out", m.group(1) + str(abs(hash(m.group(0))) % 1000))), man)
            open(os.path.join(pkgdir, "_package.yml"), "w").write(man)
        obs = []
        outroot = None
        for n in range(N):
            before = set(os.listdir(base))
            evlog = os.path.join(base + ".ev")
            p = cli.run_cli("generate", pkgdir, home, ["--verbose"] if n % 2 == 5 else [])
            ctx.ev()
            if p.timed_out:
                raise Inconclusive("watchdog")
            created = sorted(set(os.listdir(base)) - before)
            snap = fsmon.snapshot(base)
            files = {k: v[:4] for k, v in snap.items() if k.split(os.sep)[0] in ("out",) or k.split(os.sep)[0] in created}
            obs.append({"rc": p.rc, "sig": p.sig, "stdout": p.stdout, "stderr": p.stderr, "files": files})
            if n < N - 1:
                for c in created + ["out"]:
                    shutil.rmtree(os.path.join(base, c), ignore_errors=True)
        first = obs[0]
        ok = True
        if kind == "similar-labels" and first["rc"] != 0:
            raise Inconclusive("the similar-labels package is rejected: %s" % first["stderr"][-300:])
        site = cli.panic_site(first["stderr"])
        if site:
            ctx.violation("panic@%s" % site, "%s %s: crash" % (kind, i), {"case_dir": base, "stderr": first["stderr"][-2000:]})
            ok = False
        for n, o in enumerate(obs[1:], 1):
            for key in ("rc", "sig", "stdout", "stderr", "files"):
                if o[key] != first[key]:
                    detail = diff_detail(first[key], o[key])
                    ctx.violation("nondeterministic:%s:%s" % (kind if kind != "repo" else "repo", key),
                                  "%s %s: run %d differs from run 0 in %s: %s" % (kind, i, n, key, detail),
                                  {"case_dir": base, "run": n, "key": key, "detail": detail})
                    ok = False
                    break
            if not ok:
                break
        # idempotence: one more run into the populated tree
        if first["rc"] == 0:
            before = fsmon.snapshot(base)
            evlog = os.path.join(ctx.workdir, "ev_%s_%s.log" % (kind, str(i).replace("/", "_")))
            if os.path.exists(evlog):
                os.unlink(evlog)
            p = cli.run_cli("generate", pkgdir, home, event_log=evlog)
            ctx.ev()
            after = fsmon.snapshot(base)
            d = fsmon.diff(before, after)
            changed = [e for e in common.read_events(evlog) if e.get("ev") == "file.write" and e.get("kv", {}).get("changed") == "true"]
            nwrites = len([e for e in common.read_events(evlog) if e.get("ev") == "file.write"])
            ctx.count("rerun.write_events", nwrites)
            if os.path.exists(evlog):
                os.unlink(evlog)
            if d:
                ctx.violation("not-idempotent:%s" % d[0][0], "%s %s: regenerating an unchanged package changed the output tree: %s" % (kind, i, d[:5]),
                              {"case_dir": base, "diff": d[:40]})
                ok = False
            elif changed:
                ctx.violation("not-idempotent:write-event", "%s %s: re-run rewrote %d files (first %s)" % (kind, i, len(changed), changed[0]), {"case_dir": base})
                ok = False
            if p.stdout != first["stdout"] or p.stderr != first["stderr"] or p.rc != first["rc"]:
                ctx.violation("rerun-output-differs", "%s %s: diagnostics / exit of the re-run differ from the first run" % (kind, i), {"case_dir": base})
                ok = False
        ctx.case((kind, str(i)))
        ctx.count("kind." + kind)
        ctx.count("rc.%s" % first["rc"])
        ctx.count("diag_lines", first["stderr"].count("\n"))
        ctx.count("files", len(first["files"]))
        if ok:
            shutil.rmtree(base, ignore_errors=True)
        return {"kind": kind, "id": str(i), "rc": first["rc"], "files": len(first["files"]), "stderr_lines": first["stderr"].count("\n")}

    for s in pmap(one, cases, workers=8)[:8]:
        ctx.sample(s)
    several_faulty_parts(ctx, home, quick)
    override_sets(ctx, home, quick)
    race_detector_pass(ctx, home, quick)
    history_independence(ctx, home, quick)
    over_previous_output(ctx, home, quick)


def several_faulty_parts(ctx, home, quick):
    """packages in which several independently loaded parts (previous versions, imported packages, imports of previous versions) are each broken in
    a different way: yardl stops at the first part that fails, and which one that is - hence the whole diagnostic text - must not vary between runs.
    These runs are cheap (nothing is generated), so each package is run many times, alternating validate and generate."""
    runs = 30 if quick else 120
    faults = ["a: Missing%d", "a: 'int[x:2, y%d]'", "a: [int, int, string%d]", "a: !map {keys: Rec%d, values: int}", "Bad_%d: int", "a: Other%d<int>", "a: Re%d", "a: float1%d"]
    good = "Rec: !record\n  fields:\n    a: int\nP: !protocol\n  sequence:\n    r: Rec\n"

    def broken(j):
        f = faults[j % len(faults)] % j
        return "Rec: !record\n  fields:\n    a: int\nBroken%d: !record\n  fields:\n    %s\nP: !protocol\n  sequence:\n    r: Rec\n" % (j, f)
    layouts = []
    for nv in (2, 3, 4, 6):
        layouts.append(("versions-%d" % nv, ["v%d" % j for j in range(nv)], [], []))
    for ni in (2, 3, 5):
        layouts.append(("imports-%d" % ni, [], ["lib%d" % j for j in range(ni)], []))
    layouts.append(("versions-2-imports-2", ["v0", "v1"], ["lib0", "lib1"], []))
    layouts.append(("imports-of-versions", ["v0", "v1", "v2"], [], ["v0", "v1", "v2"]))
    if quick:
        layouts = [l for l in layouts if l[0] in ("versions-2", "versions-4", "imports-3", "versions-2-imports-2", "imports-of-versions")]

    def one(layout):
        name, versions, imports, vimports = layout
        base = os.path.join(ctx.workdir, "cases", "faulty_" + name)
        shutil.rmtree(base, ignore_errors=True)
        files = {"new/_package.yml": "namespace: Fp\n" + ("imports:\n" + "".join("  - ../%s\n" % l for l in imports) if imports else "") +
                 ("versions:\n" + "".join("  %s: ../%s\n" % (v, v) for v in versions) if versions else "") + "json:\n  outputDir: ../out/json\n",
                 "new/m.yml": good}
        k = 0
        for v in versions:
            if v in vimports:
                files["%s/_package.yml" % v] = "namespace: Fp\nimports:\n  - ../dep_%s\n" % v
                files["%s/m.yml" % v] = good
                files["dep_%s/_package.yml" % v] = "namespace: Dep\n"
                files["dep_%s/m.yml" % v] = broken(k)
            else:
                files["%s/_package.yml" % v] = "namespace: Fp\n"
                files["%s/m.yml" % v] = broken(k)
            k += 1
        for l in imports:
            files["%s/_package.yml" % l] = "namespace: L%s\n" % l[3:]
            files["%s/m.yml" % l] = broken(k)
            k += 1
        common.write_tree(base, files)
        pkgdir = os.path.join(base, "new")
        obs = []
        for n in range(runs):
            p = cli.run_cli("validate" if n % 2 else "generate", pkgdir, home)
            ctx.ev()
            if p.timed_out:
                raise Inconclusive("watchdog")
            obs.append((p.rc, p.stdout, p.stderr, os.path.exists(os.path.join(base, "out"))))
        ctx.case(("several-faulty-parts", name))
        ctx.count("kind.several-faulty-parts")
        ctx.count("faulty-parts.runs", runs)
        first = obs[0]
        if first[0] != 1:
            raise Inconclusive("faulty-parts package %s is not rejected: rc=%s %s" % (name, first[0], first[2][-300:]))
        for n, o in enumerate(obs[1:], 1):
            if o != first:
                key = ["rc", "stdout", "stderr", "output-exists"][[a != b for a, b in zip(o, first)].index(True)]
                ctx.violation("nondeterministic:several-faulty-parts:%s" % key, "package with %s broken in different ways: run %d differs from run 0 in %s: %s" % (
                    name, n, key, diff_detail(first[2], o[2]) if key == "stderr" else (first[0], o[0])), {"case_dir": base, "run": n})
                return
        shutil.rmtree(base, ignore_errors=True)

    pmap(one, layouts, workers=4)


def override_sets(ctx, home, quick):
    """the command line is part of what the output depends on: sets of `-c key=value` overrides of which several are wrong in different ways (unknown keys, a
    value of the wrong type, an empty output directory, an invalid namespace) next to valid ones. Which one is reported - hence the diagnostic text - and
    whether anything is written must not vary between runs; sets in which every override is valid must produce the same tree every time."""
    runs = 24 if quick else 100
    good = "Rec: !record\n  fields:\n    a: int\nP: !protocol\n  sequence:\n    r: Rec\n"
    manifest = ("namespace: Ov\ncpp:\n  sourcesOutputDir: ../out/cpp\n  generateHDF5: false\n  generateCMakeLists: false\npython:\n  outputDir: ../out/python\n"
                "json:\n  outputDir: ../out/json\nmatlab:\n  outputDir: ../out/matlab\n")
    unknown = ["nosuch.alpha=1", "nosuch.beta=2", "cpp.nosuch=3", "python.outputdir=x", "Json.outputDir=y", "zz=1", "matlab.nosuch.deep=1", "aa.bb=2"]
    wrong = ["python.outputDir=", "json.outputDir=", "namespace=9x", "namespace=", "cpp.generateHDF5=maybe", "cpp.sourcesOutputDir="]
    valid = ["python.outputDir=../out/py2", "json.outputDir=../out/json2", "cpp.generateNDJson=false", "matlab.outputDir=../out/m2", "namespace=Other", "python.internalSymlinkStaticFiles=false"]
    sets = [("two-unknown", unknown[:2]), ("three-unknown", unknown[2:5]), ("eight-unknown", unknown), ("unknown-among-valid", valid[:3] + unknown[5:7] + valid[3:5]),
            ("two-wrong-values", wrong[:2]), ("wrong-values-and-unknown", [wrong[2], unknown[0], wrong[4], unknown[3]]), ("all-wrong", wrong + unknown[:3]),
            ("all-valid", valid), ("valid-pair", valid[:2])]
    if quick:
        sets = [x for x in sets if x[0] in ("two-unknown", "eight-unknown", "unknown-among-valid", "wrong-values-and-unknown", "all-valid")]

    def one(item):
        name, overrides = item
        base = os.path.join(ctx.workdir, "cases", "overrides_" + name)
        shutil.rmtree(base, ignore_errors=True)
        common.write_tree(base, {"pkg/_package.yml": manifest, "pkg/m.yml": good})
        pkgdir = os.path.join(base, "pkg")
        extra = []
        for o in overrides:
            extra += ["-c", o]
        obs = []
        for n in range(runs):
            shutil.rmtree(os.path.join(base, "out"), ignore_errors=True)
            p = cli.run_cli("validate" if n % 2 and not name.startswith("all-valid") else "generate", pkgdir, home, extra)
            ctx.ev()
            if p.timed_out:
                raise Inconclusive("watchdog")
            tree = {k: v[3] for k, v in fsmon.snapshot(os.path.join(base, "out")).items() if v[0] == "file"} if os.path.isdir(os.path.join(base, "out")) else {}
            obs.append((p.rc, p.stdout if n % 2 == 0 or name.startswith("all-valid") else "", p.stderr, tree if n % 2 == 0 or name.startswith("all-valid") else None))
        ctx.case(("override-sets", name))
        ctx.count("kind.override-sets")
        ctx.count("override-sets.runs", runs)
        ctx.count("override-sets.rc%d" % obs[0][0])
        first_gen = obs[0]
        for n, o in enumerate(obs[1:], 1):
            ref = first_gen if n % 2 == 0 or name.startswith("all-valid") else obs[1]
            if o != ref:
                key = ["rc", "stdout", "stderr", "output-tree"][[a != b for a, b in zip(o, ref)].index(True)]
                ctx.violation("nondeterministic:override-sets:%s" % key, "overrides %s: run %d differs from an earlier identical run in %s: %s" % (
                    " ".join(extra), n, key, diff_detail(ref[2], o[2]) if key == "stderr" else (ref[0], o[0])), {"case_dir": base, "run": n, "overrides": overrides})
                return
        shutil.rmtree(base, ignore_errors=True)

    pmap(one, sets, workers=4)


def history_independence(ctx, home, quick):
    """the output for a package must not depend on what the same process generated before: a long-running `generate --watch` is taken through a
    sequence of saves in which the same definition names change their meaning, and after each save (once the regeneration has ended) the tree on
    disk is compared with a one-shot generation of the same contents in a fresh process and directory."""
    import time
    from props import C20
    y = common.build_yardl()
    seqs = [[0, 1, 0, 2], [4, 3, 1]] if quick else [[0, 1, 0, 2, 3, 4, 0], [4, 3, 1, 0, 1], [2, 4, 2, 1, 3], [1, 0, 1, 0]]
    for si, seq in enumerate(seqs):
        root = os.path.join(ctx.workdir, "cases", "history_%d" % si)
        shutil.rmtree(root, ignore_errors=True)
        C20.write_tree(root, 0)
        os.makedirs(os.path.join(root, "home"), exist_ok=True)
        w = C20.Watcher(root, os.path.join(root, "home"), y)
        bad = False
        try:
            if not w.wait_quiescent_patient(1, limit_s=30):
                raise Inconclusive("history %d: the watcher's first generation did not finish within 30 s wall" % si)
            for step, mi in enumerate(seq):
                starts = w.counts()[0]
                C20.save(os.path.join(root, "main/model.yml"), C20.MEANINGS[mi], "inplace")
                if not w.wait_quiescent_patient(starts + 1, limit_s=25):
                    raise Inconclusive("history %d: no finished regeneration within 25 s wall after save %d" % (si, step))
                ref = os.path.join(root, "ref%d" % step)
                C20.write_tree(ref, 0)
                common.write_tree(ref, {"main/model.yml": C20.MEANINGS[mi]})
                p = cli.run_cli("generate", os.path.join(ref, "main"), home)
                ctx.ev(2)
                if p.rc != 0:
                    raise Inconclusive("history %d: reference generation failed: %s" % (si, cli.clean(p.stderr)[:300]))
                want = {k: v[3] for k, v in fsmon.snapshot(os.path.join(ref, "out")).items() if v[0] == "file"}
                have = {k: v[3] for k, v in fsmon.snapshot(os.path.join(root, "out")).items() if v[0] == "file"}
                diff = sorted(k for k in want if have.get(k) != want[k])
                ctx.case(("history", si, step))
                ctx.count("history.compared")
                if diff:
                    ctx.violation("depends-on-history", "contents #%d generated by a process that had generated %s before differ from a fresh process in %d file(s), e.g. %s" % (
                        mi, seq[:step], len(diff), diff[:3]), {"case_dir": root, "sequence": seq, "step": step})
                    bad = True
                    break
                shutil.rmtree(ref, ignore_errors=True)
        finally:
            w.stop()
        if not bad:
            shutil.rmtree(root, ignore_errors=True)


def over_previous_output(ctx, home, quick):
    """the output for package contents B must not depend on what was in the output directory before: B generated over the output of A (an edit
    that replaces one type name by another of the same length, or by a longer / shorter one) equals B generated into an empty directory"""
    tmpl = ("Cal: !record\n  fields:\n    gain: %s\n    offset: float32\nTrace: !protocol\n  sequence:\n    cal: Cal\n    samples: !stream\n      items: %s\n    n: uint32\n")
    man = "namespace: Ovr\ncpp:\n  sourcesOutputDir: ../out/cpp\n  generateCMakeLists: false\npython:\n  outputDir: ../out/python\nmatlab:\n  outputDir: ../out/matlab\njson:\n  outputDir: ../out/json\n"
    pairs = [("float32", "float64"), ("int32", "int64"), ("uint8", "int16"), ("float32", "complexfloat64"), ("string", "bool"), ("uint16", "uint32")]
    for ta, tb in (pairs[:4] if quick else pairs):
        base = os.path.join(ctx.workdir, "cases", "over_%s_%s" % (ta, tb))
        shutil.rmtree(base, ignore_errors=True)
        common.write_tree(base, {"p/_package.yml": man, "p/m.yml": tmpl % (ta, ta), "fresh/p/_package.yml": man, "fresh/p/m.yml": tmpl % (tb, tb)})
        p1 = cli.run_cli("generate", os.path.join(base, "p"), home)
        open(os.path.join(base, "p/m.yml"), "w").write(tmpl % (tb, tb))
        p2 = cli.run_cli("generate", os.path.join(base, "p"), home)
        p3 = cli.run_cli("generate", os.path.join(base, "fresh/p"), home)
        ctx.ev(3)
        if p1.rc or p2.rc or p3.rc:
            raise Inconclusive("over-previous-output model rejected: %s" % cli.clean(p1.stderr + p2.stderr + p3.stderr)[:300])
        have = {k: v[3] for k, v in fsmon.snapshot(os.path.join(base, "out")).items() if v[0] == "file"}
        want = {k: v[3] for k, v in fsmon.snapshot(os.path.join(base, "fresh/out")).items() if v[0] == "file"}
        ctx.case(("over-previous-output", ta, tb))
        ctx.count("over-previous-output")
        diff = sorted(k for k in set(have) | set(want) if have.get(k) != want.get(k))
        if diff:
            ctx.violation("depends-on-previous-output:%s" % ("same-length" if len(ta) == len(tb) else "other-length"),
                          "`%s` -> `%s` generated over the output of the earlier contents differs from a generation into an empty directory in %d file(s), e.g. %s" % (ta, tb, len(diff), diff[:4]),
                          {"case_dir": base, "diff": diff[:40]})
        else:
            shutil.rmtree(base, ignore_errors=True)


def race_detector_pass(ctx, home, quick):
    """one-shot `validate` and `generate` of packages with several previous versions and imports (valid, and with several broken parts) under the Go race
    detector: two goroutines that touch the same diagnostics / model state without synchronisation are a source of run-to-run differences that N
    repetitions may not happen to show. Every report with a yardl frame is a violation."""
    import re
    yr = common.build_yardl(race=True)
    good = "Rec: !record\n  fields:\n    a: int\n    b: string*\nP: !protocol\n  sequence:\n    r: Rec\n    s: !stream\n      items: Rec\n"
    cases = []
    for broken in (False, True):
        files = {"new/_package.yml": "namespace: Rd\nimports:\n  - ../lib0\n  - ../lib1\nversions:\n" + "".join("  v%d: ../v%d\n" % (j, j) for j in range(4)) +
                 "json:\n  outputDir: ../out/json\npython:\n  outputDir: ../out/python\ncpp:\n  sourcesOutputDir: ../out/cpp\n  generateCMakeLists: false\nmatlab:\n  outputDir: ../out/matlab\n",
                 "new/m.yml": good.replace("a: int", "a: long") + "U: !record\n  fields:\n    x: L0.LibRec0\n    y: L1.LibRec1\n"}
        for j in range(4):
            files["v%d/_package.yml" % j] = "namespace: Rd\nimports:\n  - ../lib0\n  - ../lib1\n"
            files["v%d/m.yml" % j] = (good if not broken else good + "Broken%d: !record\n  fields:\n    q: Missing%d\n" % (j, j)) + "U: !record\n  fields:\n    x: L0.LibRec0\n    y: L1.LibRec1\n"
        for j in range(2):
            files["lib%d/_package.yml" % j] = "namespace: L%d\n" % j
            files["lib%d/m.yml" % j] = "LibRec%d: !record\n  fields:\n    z: int\n" % j
        cases.append(("broken-versions" if broken else "valid", files))
    for name, files in cases:
        base = os.path.join(ctx.workdir, "cases", "race_" + name)
        shutil.rmtree(base, ignore_errors=True)
        common.write_tree(base, files)
        reports = set()
        for n in range(4 if quick else 20):
            for cmd in ("validate", "generate"):
                logp = os.path.join(base, "race_%s_%d" % (cmd, n))
                p = common.run([yr, cmd], cwd=os.path.join(base, "new"), env=common.yardl_env(home, None, {"GORACE": "halt_on_error=0 log_path=%s" % logp}), cpu_s=120)
                ctx.ev()
                ctx.count("race-detector.runs")
                if p.timed_out:
                    raise Inconclusive("watchdog")
                for f in os.listdir(base):
                    if f.startswith("race_%s_%d." % (cmd, n)):
                        txt = open(os.path.join(base, f), errors="replace").read()
                        for block in txt.split("WARNING: DATA RACE")[1:]:
                            frames = [x for x in re.findall(r"^\s+(github\.com/microsoft/yardl/tooling/[^\s(]+)", block, re.M) if "verifhook" not in x]
                            if frames:
                                reports.add(frames[0].split("tooling/")[1] + " | " + frames[-1].split("tooling/")[1])
            shutil.rmtree(os.path.join(base, "out"), ignore_errors=True)
        ctx.case(("race-detector", name))
        ctx.count("race-detector.reports", len(reports))
        for rr in sorted(reports):
            ctx.violation("data-race:%s" % rr.split(" | ")[0], "one-shot run of a package with four previous versions and two imports (%s): Go race detector report with yardl frames: %s" % (name, rr), {"case_dir": base})
        if not reports:
            shutil.rmtree(base, ignore_errors=True)


def diff_detail(a, b):
    if isinstance(a, dict):
        ks = [k for k in sorted(set(a) | set(b)) if a.get(k) != b.get(k)]
        return "files differ: %s" % ks[:5]
    if isinstance(a, str):
        la, lb = a.split("\n"), b.split("\n")
        for i, (x, y) in enumerate(zip(la, lb)):
            if x != y:
                return "line %d: %r vs %r" % (i + 1, x[:160], y[:160])
        return "length %d vs %d lines" % (len(la), len(lb))
    return "%r vs %r" % (a, b)


def replay(ctx, path):
    import json
    print(json.dumps(json.load(open(path)), indent=1)[:3000])
    run(ctx)
