"""C18 - package imports resolve correctly for every import graph.

Workload: every directed graph (incl. self loops) on <= 3 packages, sampled graphs on 4 (all of them in the thorough
tier), root = node 0, every permutation of every import list; special layouts: a namespace claimed by two directories,
one directory reached through two spellings and through a symlink, chains of 9..12 packages around the nesting limit,
diamonds whose long arm exceeds the limit while a short arm does not.
Monitor: exit status, stderr, --verbose log ("Parsed namespace X"), JSON model dump, CPU time.
Oracle (reference resolver, written from the property text): cycle reachable from the root => error; namespace conflict
=> error; every path from the root within the limit => exit 0 with each reachable namespace parsed exactly once and all
cross-package references resolved; verdict, namespace set and normalised model dump invariant under import order."""
from __future__ import annotations

import itertools
import json
import os
import re
import shutil
import subprocess

from vlib import cli, common, cxx
from vlib.common import pmap, rng, Inconclusive

LEVEL = "exploration"
FLOOR = {"quick": 1500, "thorough": 20000}
LIMIT = 10   # the tool's fixed nesting limit (packaging.MaxImportRecursionDepth), read from the documentation of the property


def reach(adj, root=0):
    seen, st = set(), [root]
    while st:
        u = st.pop()
        if u in seen:
            continue
        seen.add(u)
        st.extend(adj.get(u, []))
    return seen


def has_reachable_cycle(adj, root=0):
    color = {}

    def dfs(u):
        color[u] = 1
        for v in adj.get(u, []):
            if color.get(v) == 1:
                return True
            if color.get(v) is None and dfs(v):
                return True
        color[u] = 2
        return False
    return dfs(root)


def longest_path(adj, root=0):
    """longest simple path (edges) from the root in an acyclic reachable sub graph"""
    memo = {}

    def lp(u):
        if u not in memo:
            memo[u] = 0 if not adj.get(u) else 1 + max(lp(v) for v in adj[u])
        return memo[u]
    return lp(root)


def shortest_depths(adj, root=0):
    d = {root: 0}
    q = [root]
    while q:
        u = q.pop(0)
        for v in adj.get(u, []):
            if v not in d:
                d[v] = d[u] + 1
                q.append(v)
    return d


def write_graph(base, n, adj_ordered, ns_of=None, dir_of=None, import_path=None, no_refs_to=(), empty=()):
    """adj_ordered: {u: [v...]} in the order the imports are listed."""
    ns_of = ns_of or (lambda i: "P%d" % i)
    dir_of = dir_of or (lambda i: "p%d" % i)
    files = {}
    for i in range(n):
        imps = adj_ordered.get(i, [])
        man = "namespace: %s\n" % ns_of(i)
        if imps:
            man += "imports:\n" + "".join("  - %s\n" % (import_path(i, j) if import_path else "../" + dir_of(j)) for j in imps)
        if i == 0:
            man += "json:\n  outputDir: ../out/json\npython:\n  outputDir: ../out/py\ncpp:\n  sourcesOutputDir: ../out/cpp\n  generateCMakeLists: false\n  generateHDF5: false\n  generateNDJson: false\n  overrideArrayHeader: %s\n" % cxx.ARRAY_HEADER
        fields = "    own: int\n" + "".join("    f%d: %s.R%d?\n" % (j, ns_of(j), j) for j in sorted(set(imps)) if j != i and j not in no_refs_to)
        model = "R%d: !record\n  fields:\n%s" % (i, fields)
        if i == 0:
            model += "Root: !protocol\n  sequence:\n    r: R0\n"
        files[dir_of(i) + "/_package.yml"] = man
        if i in empty:
            # a package that defines nothing itself (it only groups imports): no model file, or one that holds a comment only
            if i % 2:
                files[dir_of(i) + "/model.yml"] = "# nothing defined here\n"
            continue
        files[dir_of(i) + "/model.yml"] = model
    common.write_tree(base, files)
    return os.path.join(base, dir_of(0))


def cpp_types_compile(ctx, base) -> bool:
    """g++ -fsyntax-only of the generated types.cc (all namespaces of the graph are emitted into one types.h, dependencies first)"""
    cpp_dir = os.path.join(base, "out", "cpp")
    with cxx._cc_sem:
        pr = subprocess.run(cxx.compile_cmd("syntax", os.path.join(cpp_dir, "types.cc"), None, cpp_dir), capture_output=True, text=True)
    ctx.ev()
    ctx.count("cpp-types-compiled")
    return pr.returncode == 0


def observe(pkgdir, home):
    p = cli.run_cli("generate", pkgdir, home, ["--verbose"])
    parsed = re.findall(r"Parsed namespace (\w+)", cli.clean(p.stderr) + cli.clean(p.stdout))
    dump = None
    jp = os.path.join(os.path.dirname(pkgdir), "out", "json", "model.json")
    if p.rc == 0 and os.path.exists(jp):
        try:
            j = json.load(open(jp))
            dump = normalise_dump(j)
        except ValueError:
            dump = "unparsable"
    return p, parsed, dump


def normalise_dump(j):
    """order-normalised model dump: namespaces sorted by name; file paths dropped"""
    def strip(x):
        if isinstance(x, dict):
            return {k: strip(v) for k, v in sorted(x.items()) if k not in ("file", "line", "column")}
        if isinstance(x, list):
            return [strip(v) for v in x]
        return x
    j = strip(j)
    if isinstance(j, dict) and isinstance(j.get("namespaces"), list):
        j["namespaces"] = sorted(j["namespaces"], key=lambda n: json.dumps(n.get("name") if isinstance(n, dict) else n))
    return json.dumps(j, sort_keys=True)


def expected(adj, n):
    """-> ("error", reason) | ("ok", reachable set) | ("dontcare", reason)"""
    if has_reachable_cycle(adj):
        return ("error", "cycle")
    lp = longest_path(adj)
    if lp >= LIMIT:
        # a path of LIMIT imports is a chain of LIMIT + 1 packages, i.e. LIMIT + 1 nested loads: one more than the tool's
        # MaxImportRecursionDepth = 10. (An earlier version of this check treated exactly LIMIT imports as don't-care; the constant is a
        # *recursion depth*, which counts packages, so the boundary is pinned: 10 packages in a line load, 11 do not.)
        sd = shortest_depths(adj)
        return ("error", "depth") if max(sd.values()) >= LIMIT else ("error-or-order", "depth via long arm only")
    return ("ok", reach(adj))


def run(ctx):
    common.build_yardl()
    quick = ctx.tier == "quick"
    home = os.path.join(ctx.workdir, "home")
    os.makedirs(home, exist_ok=True)
    ctx.rule = ("all digraphs with self loops on 1-3 packages (2^(n*n) edge sets), %s on 4; for each graph every combination of permutations of the import "
                "lists; special layouts (conflicts, spellings, symlink, chains 9-12, diamonds around the limit). distinct = (graph, permutation) / layout."
                % ("500 seeded samples" if quick else "all 65536"))
    ctx.assumptions = ["nesting limit = 10 imports below the root (the documented fixed limit)", "local directory imports only (no network)"]
    graphs = []
    for n in (1, 2, 3):
        pairs = [(i, j) for i in range(n) for j in range(n)]
        for mask in range(1 << len(pairs)):
            adj = {}
            for k, (i, j) in enumerate(pairs):
                if mask >> k & 1:
                    adj.setdefault(i, []).append(j)
            graphs.append((n, adj))
    pairs4 = [(i, j) for i in range(4) for j in range(4) if i != j]
    if quick:
        r = rng("C18g4")
        masks = sorted(set(r.getrandbits(12) for _ in range(500)))
    else:
        masks = range(1 << 12)
    for mask in masks:
        adj = {}
        for k, (i, j) in enumerate(pairs4):
            if mask >> k & 1:
                adj.setdefault(i, []).append(j)
        graphs.append((4, adj))

    def one(g):
        gi, (n, adj) = g
        exp = expected(adj, n)
        nodes = sorted(adj)
        perm_sets = [list(itertools.permutations(adj[u])) for u in nodes]
        combos = list(itertools.product(*perm_sets)) if nodes else [()]
        if len(combos) > 12:
            rr = rng("C18perm", gi)
            combos = [combos[0]] + rr.sample(combos[1:], 11)
        results = []
        for ci, combo in enumerate(combos):
            ordered = {u: list(p) for u, p in zip(nodes, combo)}
            base = os.path.join(ctx.workdir, "cases", "g%d_%d" % (gi, ci))
            shutil.rmtree(base, ignore_errors=True)
            pkgdir = write_graph(base, n, ordered)
            p, parsed, dump = observe(pkgdir, home)
            ctx.ev()
            ctx.case((n, tuple(sorted((u, tuple(v)) for u, v in ordered.items()))))
            results.append((ordered, p, parsed, dump, base))
            if p.timed_out:
                raise Inconclusive("watchdog")
        ok = True
        desc = "graph n=%d %s" % (n, {u: v for u, v in sorted(adj.items())})
        for ordered, p, parsed, dump, base in results:
            case = {"case_dir": base, "graph": adj, "order": ordered, "stderr": cli.clean(p.stderr)[-1200:]}
            site = cli.panic_site(p.stderr)
            if site:
                ctx.violation("panic@%s" % site, "%s order %s: crash" % (desc, ordered), case); ok = False
            elif p.cpu_exceeded:
                ctx.violation("hang", "%s: loading does not terminate (CPU bound)" % desc, case); ok = False
            elif exp[0] == "error" and p.rc != 1:
                ctx.violation("accepted:%s" % exp[1], "%s order %s: %s must be reported, got rc=%s" % (desc, ordered, exp[1], p.rc), case); ok = False
            elif exp[0] == "ok":
                if p.rc != 0:
                    ctx.violation("rejected-valid-graph", "%s order %s: valid import graph rejected: %s" % (desc, ordered, cli.clean(p.stderr)[:300]), case); ok = False
                else:
                    want = sorted("P%d" % i for i in exp[1])
                    indeg = {}
                    for u, vs in adj.items():
                        for v in set(vs):
                            if u in exp[1]:
                                indeg[v] = indeg.get(v, 0) + 1
                    if any(c >= 2 for c in indeg.values()) and (n <= 3 or gi % 7 == 0):
                        # a package reached through two importers: every importer must be able to use its types in the generated code
                        pyd = os.path.join(base, "out", "py")
                        pr = common.run([common.PY, "-c", "import sys; sys.path.insert(0, %r); import p0" % pyd], cpu_s=60)
                        ctx.ev()
                        ctx.count("python-import-checked")
                        if pr.rc != 0:
                            ctx.violation("python-import-failed:shared-import", "%s order %s: the generated Python package does not import: %s" % (desc, ordered, pr.stderr[-300:]), case); ok = False
                        if not cpp_types_compile(ctx, base):
                            ctx.violation("cpp-compile-failed:shared-import", "%s order %s: the generated C++ types.cc does not compile (a namespace is used before it is declared?)" % (desc, ordered), case); ok = False
                    if sorted(parsed) != want:
                        ctx.violation("load-count", "%s order %s: namespaces parsed %s, expected each of %s exactly once" % (desc, ordered, sorted(parsed), want), case); ok = False
        first = results[0]
        for ordered, p, parsed, dump, base in results[1:]:
            if (p.rc, sorted(set(parsed)) if p.rc == 0 else None, dump) != (first[1].rc, sorted(set(first[2])) if first[1].rc == 0 else None, first[3]):
                what = "exit" if p.rc != first[1].rc else ("namespaces" if sorted(set(parsed)) != sorted(set(first[2])) else "model dump")
                ctx.violation("order-dependent:%s" % what, "%s: result depends on the order of the import lists (%s vs %s): %s differs" % (desc, first[0], ordered, what),
                              {"case_dir": base, "graph": adj, "a": first[0], "b": ordered}); ok = False
                break
        ctx.count("expect." + exp[0])
        ctx.count("n%d" % n)
        if ok:
            for _, _, _, _, base in results:
                shutil.rmtree(base, ignore_errors=True)
        return (n, adj, exp[0], results[0][1].rc)

    res = pmap(one, list(enumerate(graphs)))
    shared_namespaces(ctx, home, graphs, quick)
    foreign_use(ctx, home, graphs, quick)
    empty_packages(ctx, home, graphs, quick)
    for x in res[5:9] + res[-3:]:
        ctx.sample({"packages": x[0], "imports": {str(k): v for k, v in x[1].items()}, "expected": x[2], "exit": x[3]})
    special(ctx, home)
    directory_names(ctx, home, quick)
    symlinked_ancestors(ctx, home)
    git_imports(ctx)


def shared_namespaces(ctx, home, graphs, quick):
    """the same graphs with one namespace claimed by two of the directories: for every loop-free graph and every pair of packages (a, b), a and b both
    call themselves `Dup`. Both reachable from the root => an error, wherever the two sit relative to each other (siblings, one below the other, the root
    itself and a package below it) and in whatever order the imports are listed; only one of them reachable => the graph loads as before."""
    jobs = []
    for gi, (n, adj) in enumerate(graphs):
        if n < 2 or has_reachable_cycle(adj) or any(u in vs for u, vs in adj.items()):
            continue
        if quick and n == 4 and gi % 5:
            continue
        for a in range(n):
            for b in range(a + 1, n):
                jobs.append((gi, n, adj, a, b))

    def one(job):
        gi, n, adj, a, b = job
        rset = reach(adj)
        both = a in rset and b in rset
        nodes = sorted(adj)
        orders = [{u: list(adj[u]) for u in nodes}, {u: list(reversed(adj[u])) for u in nodes}]
        if orders[0] == orders[1]:
            orders = orders[:1]
        ns_of = lambda i: "Dup" if i in (a, b) else "P%d" % i
        for oi, ordered in enumerate(orders):
            base = os.path.join(ctx.workdir, "cases", "dup%d_%d_%d_%d" % (gi, a, b, oi))
            shutil.rmtree(base, ignore_errors=True)
            # nobody refers to the types of the two claimants: apart from the doubly claimed namespace the packages are valid, so that an exit
            # status of 1 can only come from the conflict itself
            pkgdir = write_graph(base, n, ordered, ns_of=ns_of, no_refs_to=(a, b))
            p, parsed, dump = observe(pkgdir, home)
            ctx.ev()
            ctx.case(("shared-namespace", n, tuple(sorted((u, tuple(v)) for u, v in ordered.items())), a, b))
            ctx.count("shared-namespace.%s" % ("both-reachable" if both else "one-reachable"))
            desc = "graph n=%d %s order %s with packages %d and %d both claiming namespace Dup" % (n, {u: v for u, v in sorted(adj.items())}, ordered, a, b)
            case = {"case_dir": base, "graph": adj, "order": ordered, "dup": [a, b], "stderr": cli.clean(p.stderr)[-1200:]}
            site = cli.panic_site(p.stderr)
            if p.timed_out:
                raise Inconclusive("watchdog")
            if site:
                ctx.violation("panic@%s" % site, "%s: crash" % desc, case)
            elif p.cpu_exceeded:
                ctx.violation("hang", "%s: loading does not terminate" % desc, case)
            elif both and p.rc != 1:
                rel = "root-and-below" if 0 in (a, b) else ("one-below-the-other" if (b in reach(adj, a) or a in reach(adj, b)) else "separate-branches")
                ctx.violation("accepted:conflict:%s" % rel, "%s: a namespace claimed by two reachable directories must be an error, got rc=%s" % (desc, p.rc), case)
            elif not both and p.rc != 0 and longest_path(adj) < LIMIT:
                ctx.violation("rejected-valid-graph:unreachable-claimant", "%s: only one of the two is reachable from the root, yet the package is rejected: %s" % (desc, cli.clean(p.stderr)[:300]), case)
            else:
                shutil.rmtree(base, ignore_errors=True)

    pmap(one, jobs)


def empty_packages(ctx, home, graphs, quick):
    """the same graphs with one package (not the root) that defines nothing itself and only passes its imports on: everything reachable through it is
    still loaded, exactly once, and its importers can use the types of the packages behind it (they are its indirect imports)"""
    jobs = []
    for gi, (n, adj) in enumerate(graphs):
        if n < 3 or has_reachable_cycle(adj) or any(u in vs for u, vs in adj.items()) or longest_path(adj) >= LIMIT:
            continue
        if quick and n == 4 and gi % 5:
            continue
        rset = reach(adj)
        for e in sorted(rset):
            if e != 0 and adj.get(e):
                jobs.append((gi, n, adj, e))

    def one(job):
        gi, n, adj, e = job
        nodes = sorted(adj)
        orders = [{x: list(adj[x]) for x in nodes}, {x: list(reversed(adj[x])) for x in nodes}]
        if orders[0] == orders[1]:
            orders = orders[:1]
        want = sorted("P%d" % i for i in reach(adj))
        behind = sorted(v for v in reach(adj, e) if v != e)
        for oi, ordered in enumerate(orders):
            base = os.path.join(ctx.workdir, "cases", "empty%d_%d_%d" % (gi, e, oi))
            shutil.rmtree(base, ignore_errors=True)
            pkgdir = write_graph(base, n, ordered, no_refs_to=(e,), empty=(e,))
            # every importer of the empty package uses a type of a package behind it
            for u in nodes:
                if e in adj.get(u, []) and behind:
                    with open(os.path.join(base, "p%d" % u, "model.yml"), "a") as f:
                        f.write("Through%d: !record\n  fields:\n    x: P%d.R%d\n" % (u, behind[0], behind[0]))
            p, parsed, dump = observe(pkgdir, home)
            ctx.ev()
            ctx.case(("empty-package", n, tuple(sorted((a, tuple(b)) for a, b in ordered.items())), e))
            ctx.count("empty-package")
            desc = "graph n=%d %s order %s with package %d defining nothing" % (n, {a: b for a, b in sorted(adj.items())}, ordered, e)
            case = {"case_dir": base, "graph": adj, "order": ordered, "empty": e, "stderr": cli.clean(p.stderr)[-1200:]}
            site = cli.panic_site(p.stderr)
            if p.timed_out:
                raise Inconclusive("watchdog")
            if site:
                ctx.violation("panic@%s" % site, "%s: crash" % desc, case)
            elif p.rc != 0:
                ctx.violation("rejected-valid-graph:empty-package", "%s: valid import graph rejected: %s" % (desc, cli.clean(p.stderr)[:300]), case)
            elif sorted(parsed) != want:
                ctx.violation("load-count:empty-package", "%s: namespaces parsed %s, expected each of %s exactly once" % (desc, sorted(parsed), want), case)
            else:
                names = set(re.findall(r'"name": "(P\d+)"', dump or ""))
                missing = [w for w in want if w not in names and w != "P%d" % e]
                if missing:
                    ctx.violation("missing-namespace:empty-package", "%s: the model dump lacks the namespaces %s" % (desc, missing), case)
                else:
                    shutil.rmtree(base, ignore_errors=True)

    pmap(one, jobs)


def foreign_use(ctx, home, graphs, quick):
    """a package refers to a type of a package that is part of the same load but that it does not import, neither directly nor through its own imports
    (the root imports both): on its own that package does not validate ('type not recognized'), so the load must fail and name that package's file -
    the types of a namespace are usable from the packages that import it, not from everybody who happens to be loaded together with it."""
    jobs = []
    for gi, (n, adj) in enumerate(graphs):
        if n < 3 or has_reachable_cycle(adj) or any(u in vs for u, vs in adj.items()) or longest_path(adj) >= LIMIT:
            continue
        if quick and n == 4 and gi % 7:
            continue
        rset = reach(adj)
        for u in sorted(rset):
            for v in sorted(rset):
                if u != v and u != 0 and v not in reach(adj, u):
                    jobs.append((gi, n, adj, u, v))

    def one(job):
        gi, n, adj, u, v = job
        nodes = sorted(adj)
        orders = [{x: list(adj[x]) for x in nodes}, {x: list(reversed(adj[x])) for x in nodes}]
        if orders[0] == orders[1]:
            orders = orders[:1]
        for oi, ordered in enumerate(orders):
            base = os.path.join(ctx.workdir, "cases", "foreign%d_%d_%d_%d" % (gi, u, v, oi))
            shutil.rmtree(base, ignore_errors=True)
            pkgdir = write_graph(base, n, ordered)
            with open(os.path.join(base, "p%d" % u, "model.yml"), "a") as f:
                f.write("Foreign%d: !record\n  fields:\n    x: P%d.R%d\n" % (u, v, v))
            p, parsed, dump = observe(pkgdir, home)
            ctx.ev()
            ctx.case(("foreign-use", n, tuple(sorted((a, tuple(b)) for a, b in ordered.items())), u, v))
            ctx.count("foreign-use")
            desc = "graph n=%d %s order %s: package %d uses P%d.R%d although neither it nor any of its imports imports package %d" % (n, {a: b for a, b in sorted(adj.items())}, ordered, u, v, v, v)
            case = {"case_dir": base, "graph": adj, "order": ordered, "user": u, "used": v, "stderr": cli.clean(p.stderr)[-1200:]}
            site = cli.panic_site(p.stderr)
            if p.timed_out:
                raise Inconclusive("watchdog")
            if site:
                ctx.violation("panic@%s" % site, "%s: crash" % desc, case)
            elif p.rc == 0:
                ctx.violation("accepted:use-of-a-package-that-is-not-imported", "%s: accepted (validating package %d alone rejects it)" % (desc, u), case)
            elif ("p%d/model.yml" % u) not in cli.clean(p.stderr):
                ctx.violation("rejected-without-naming-the-file:foreign-use", "%s: rejected, but no diagnostic names p%d/model.yml: %s" % (desc, u, cli.clean(p.stderr)[:300]), case)
            else:
                shutil.rmtree(base, ignore_errors=True)

    pmap(one, jobs)


HOSTILE_DIR_NAMES = [".common", ".p", "..p", "a b", "p.yml", "p.yaml", "model.yml", "UPPER", "\u00fcn\u00ef", "-dash", "p:1", "p'q", "nested/deeper/p", ".hidden/inner/p",
                     "vendor/.cache/p", "_package", "out", "p,q", "{p}", "[p]", "p&q", "~p", "p$HOME", "p+q", "p@1", "p=q", "p!", "p;q"]
# not in the list: names with '#', '?' or '%xx' - an import entry is a URL (packaging/cache.go parses it with url.Parse), so those characters
# carry URL meaning there and a directory so named has to be percent-escaped by the author; demanding otherwise was a false alarm of this check.


def directory_names(ctx, home, quick):
    """The directory a package lives in is not part of the model: the same import graph laid out in directories with hostile names (hidden, nested below
    hidden directories, spaces, yaml-looking, non-ASCII, names of things the tool itself creates) loads the same namespaces and gives the same model dump
    as the plain layout p0, p1, ..."""
    shapes = [("chain", 3, {0: [1], 1: [2]}), ("diamond", 4, {0: [1, 2], 1: [3], 2: [3]}), ("fan", 3, {0: [1, 2]}), ("single", 1, {})]
    jobs = []
    for sname, n, adj in shapes:
        for hn in HOSTILE_DIR_NAMES + ["@symlink"]:
            for pos in (["all"] + list(range(n))):
                if quick and pos not in ("all", 0, n - 1):
                    continue
                if hn == "@symlink" and (pos == 0 or n == 1):
                    continue
                if pos in ("all", 0) and "/" in hn:
                    continue            # the root keeps one path component (the output directories sit next to it)
                jobs.append((sname, n, adj, hn, pos))

    plain = {}
    for sname, n, adj in shapes:
        base = os.path.join(ctx.workdir, "cases", "dn_%s_plain" % sname)
        shutil.rmtree(base, ignore_errors=True)
        p, parsed, dump = observe(write_graph(base, n, adj), home)
        if p.rc != 0:
            raise Inconclusive("plain layout of %s rejected: %s" % (sname, cli.clean(p.stderr)[:300]))
        plain[sname] = (sorted(parsed), dump)
        shutil.rmtree(base, ignore_errors=True)

    def one(job):
        k, (sname, n, adj, hn, pos) = job

        def dir_of(i):
            if pos == "all":
                return hn if i == 0 else (hn + str(i) if "/" not in hn else hn + str(i))
            return hn if i == pos else "p%d" % i
        base = os.path.join(ctx.workdir, "cases", "dn_%d" % k)
        shutil.rmtree(base, ignore_errors=True)
        if hn == "@symlink":
            # the package directories are symbolic links to directories that live elsewhere (a vendored / shared checkout): written under real/, linked by name
            def dir_of(i):
                return "p%d" % i
            write_graph(os.path.join(base, "real"), n, adj)
            for i in range(n):
                if i != 0 and (pos == "all" or i == pos):      # the root stays a real directory: its output paths are relative to it
                    os.symlink(os.path.join("real", "p%d" % i), os.path.join(base, "p%d" % i))
                else:
                    os.rename(os.path.join(base, "real", "p%d" % i), os.path.join(base, "p%d" % i))
            pkgdir = os.path.join(base, "p0")
        else:
            pkgdir = write_graph(base, n, adj, dir_of=dir_of, import_path=lambda i, j: os.path.relpath(dir_of(j), dir_of(i)))
        p, parsed, dump = observe(pkgdir, home)
        ctx.ev()
        ctx.count("directory-names")
        ctx.case(("dirname", sname, hn, pos))
        case = {"case_dir": base, "graph": adj, "directory_name": hn, "position": pos, "stderr": cli.clean(p.stderr)[-1200:]}
        site = cli.panic_site(p.stderr)
        desc = "%s graph with package %s in a directory called %r" % (sname, pos, hn)
        if p.timed_out:
            raise Inconclusive("watchdog")
        if site:
            ctx.violation("panic@%s" % site, "%s: crash" % desc, case)
        elif p.rc != 0:
            ctx.violation("directory-name:rejected", "%s: rejected although the same graph in plain directories loads: %s" % (desc, cli.clean(p.stderr)[:300]), case)
        elif sorted(parsed) != plain[sname][0]:
            ctx.violation("directory-name:load-count", "%s: namespaces parsed %s, in plain directories %s" % (desc, sorted(parsed), plain[sname][0]), case)
        elif dump != plain[sname][1]:
            ctx.violation("directory-name:model-differs", "%s: the model dump differs from the one of the plain layout (definitions lost?)" % desc, case)
        else:
            shutil.rmtree(base, ignore_errors=True)

    pmap(one, list(enumerate(jobs)))


def symlinked_ancestors(ctx, home):
    """a package reached through a path with a symbolic link in a *directory component*, whose own relative import climbs out of the linked directory:
    `..` is relative to where the importing _package.yml really is (docs: "relative to the manifest"). With nothing, and with a decoy package of the same
    namespace, at the place a lexical reading of the path would give; as a chain and as a diamond (the root importing the real directory as well)."""
    dirs = {0: "proj/app", 1: "libs/ext/mid", 2: "libs/base"}
    for shape, adj in (("chain", {0: [1], 1: [2]}), ("diamond", {0: [1, 2], 1: [2]}), ("diamond-direct-first", {0: [2, 1], 1: [2]})):
        plain_base = os.path.join(ctx.workdir, "cases", "sa_%s_plain" % shape)
        shutil.rmtree(plain_base, ignore_errors=True)
        p0, parsed0, dump0 = observe(write_graph(plain_base, 3, adj), home)
        if p0.rc != 0:
            raise Inconclusive("plain %s rejected" % shape)
        shutil.rmtree(plain_base, ignore_errors=True)
        for decoy in (None, "same-namespace", "other-namespace"):
            base = os.path.join(ctx.workdir, "cases", "sa_%s_%s" % (shape, decoy or "nodecoy"))
            shutil.rmtree(base, ignore_errors=True)

            def imp(i, j):
                return {(0, 1): "../ext/mid", (1, 2): "../../base", (0, 2): "../../libs/base"}[(i, j)]
            pkgdir = write_graph(base, 3, adj, dir_of=lambda i: dirs[i], import_path=imp)
            os.symlink(os.path.join("..", "libs", "ext"), os.path.join(base, "proj", "ext"))
            if decoy:
                common.write_tree(base, {"proj/base/_package.yml": "namespace: %s\n" % ("P2" if decoy == "same-namespace" else "Decoy"),
                                         "proj/base/model.yml": "R2: !record\n  fields:\n    decoy: string\n    other: float\n"})
            p, parsed, dump = observe(pkgdir, home)
            ctx.ev()
            ctx.count("symlinked-ancestor")
            ctx.case(("symlinked-ancestor", shape, decoy))
            desc = "%s with the middle package reached through a linked directory (%s at the lexical place)" % (shape, decoy or "nothing")
            case = {"case_dir": base, "stderr": cli.clean(p.stderr)[-1200:]}
            site = cli.panic_site(p.stderr)
            if site:
                ctx.violation("panic@%s" % site, "%s: crash" % desc, case)
            elif p.rc != 0:
                ctx.violation("symlinked-ancestor:rejected", "%s: a valid graph is rejected: %s" % (desc, cli.clean(p.stderr)[:300]), case)
            elif sorted(parsed) != sorted(parsed0):
                ctx.violation("symlinked-ancestor:load-count", "%s: namespaces parsed %s, in plain directories %s" % (desc, sorted(parsed), sorted(parsed0)), case)
            elif dump != dump0:
                ctx.violation("symlinked-ancestor:model-differs", "%s: the model differs from the one of the plain layout (another directory was loaded?)" % desc, case)
            else:
                shutil.rmtree(base, ignore_errors=True)


def git_imports(ctx):
    """import graphs whose edges are git imports (`https://host/repo?ref=<commit>&dir=<sub>`), served offline: a scratch HOME whose .gitconfig rewrites
    https://yardl.invalid/ to a local directory of repositories. One repository holds three packages at three commits; every package changes between the
    commits, so *which* commit was loaded is visible in the model dump. Oracle: every import resolves to the commit it names (whatever else the same load
    imports from that repository, in whatever order, with a cold or a warm cache); two different commits of one package reached in one load are two
    directories claiming one namespace (error); the same commit reached twice is one package."""
    W = os.path.join(ctx.workdir, "cases", "git")
    shutil.rmtree(W, ignore_errors=True)
    remotes = os.path.join(W, "remotes")
    repo = os.path.join(remotes, "mono")
    genv = {"PATH": os.environ.get("PATH", "/usr/bin:/bin"), "HOME": os.path.join(W, "githome"), "GIT_CONFIG_NOSYSTEM": "1", "GIT_TERMINAL_PROMPT": "0",
            "GIT_AUTHOR_DATE": "2020-01-01T00:00:00Z", "GIT_COMMITTER_DATE": "2020-01-01T00:00:00Z"}
    os.makedirs(genv["HOME"], exist_ok=True)
    gitconfig = "[user]\n\tname = verif\n\temail = verif@example.invalid\n[init]\n\tdefaultBranch = main\n[advice]\n\tdetachedHead = false\n[url \"%s/\"]\n\tinsteadOf = https://yardl.invalid/\n" % remotes
    open(os.path.join(genv["HOME"], ".gitconfig"), "w").write(gitconfig)

    def git(*a):
        pr = subprocess.run(["git"] + list(a), cwd=repo, env=genv, capture_output=True, text=True)
        if pr.returncode != 0:
            raise Inconclusive("git %s failed: %s" % (" ".join(a), pr.stderr[-300:]))
        return pr.stdout.strip()
    os.makedirs(repo)
    git("init", "-q", ".")
    commits = []
    for c in range(3):
        files = {}
        for pk in ("x", "y", "z"):
            files["%s/_package.yml" % pk] = "namespace: %s\n" % pk.upper()
            files["%s/m.yml" % pk] = "R%s: !record\n  fields:\n" % pk.upper() + "".join("    %s%d: int\n" % (pk, k) for k in range(c + 1))
        common.write_tree(repo, files)
        git("add", "-A")
        git("commit", "-q", "-m", "commit %d" % c)
        commits.append(git("rev-parse", "--short=10", "HEAD"))
    if subprocess.run(["git", "ls-remote", "https://yardl.invalid/mono"], env=genv, capture_output=True).returncode != 0:
        raise Inconclusive("the git insteadOf rewrite does not work in this environment")
    url = lambda pk, c: "https://yardl.invalid/mono?ref=%s&dir=%s" % (commits[c], pk)

    def fields_of(dump, ns):
        j = json.loads(dump)
        for n in j.get("namespaces", []):
            if n.get("name") == ns:
                for t in n.get("types", []):
                    rec = t.get("record") if isinstance(t, dict) else None
                    if rec and rec.get("name") == "R" + ns:
                        return len(rec.get("fields", []))
        return None

    scen = []
    # (name, root imports [(pk, commit)], local package B's imports or None, expectation)
    for order in ([("x", 0), ("y", 2)], [("y", 2), ("x", 0)], [("x", 1), ("y", 0), ("z", 2)], [("z", 2), ("y", 0), ("x", 1)], [("x", 2), ("y", 2)]):
        scen.append(("fanout-" + "-".join("%s%d" % o for o in order), order, None, "ok"))
    scen.append(("same-commit-twice", [("x", 1)], [("x", 1)], "ok"))
    scen.append(("two-commits-of-one-package", [("x", 0)], [("x", 2)], "conflict"))
    scen.append(("two-commits-of-one-package-other-order", [("x", 2)], [("x", 0)], "conflict"))
    for name, imports, bimports, expect in scen:
        for cache in ("cold", "warm"):
            base = os.path.join(W, name + "_" + cache)
            home = os.path.join(W, "home_" + name) if cache == "warm" else os.path.join(base, "home")
            if cache == "warm" and not os.path.isdir(home):
                continue
            os.makedirs(home, exist_ok=True)
            open(os.path.join(home, ".gitconfig"), "w").write(gitconfig)
            man = "namespace: A\nimports:\n" + "".join('  - "%s"\n' % url(pk, c) for pk, c in imports) + ("  - ../b\n" if bimports else "") + "json:\n  outputDir: ../out/json\n"
            model = "RA: !record\n  fields:\n    own: int\n" + "".join("    f%s: %s.R%s?\n" % (pk, pk.upper(), pk.upper()) for pk, _ in imports)
            files = {"a/_package.yml": man, "a/m.yml": model + "Root: !protocol\n  sequence:\n    r: RA\n"}
            if bimports:
                files["b/_package.yml"] = "namespace: B\nimports:\n" + "".join('  - "%s"\n' % url(pk, c) for pk, c in bimports)
                files["b/m.yml"] = "RB: !record\n  fields:\n    own: int\n"
            common.write_tree(base, files)
            p, parsed, dump = observe(os.path.join(base, "a"), home)
            if cache == "cold":
                shutil.copytree(home, os.path.join(W, "home_" + name), dirs_exist_ok=True)
            ctx.ev()
            ctx.case(("git-imports", name, cache))
            ctx.count("git-imports.%s" % expect)
            what = "git imports %s (%s cache)" % (name, cache)
            case = {"case_dir": base, "stderr": cli.clean(p.stderr)[-1200:]}
            site = cli.panic_site(p.stderr)
            if p.timed_out:
                raise Inconclusive("watchdog")
            if site:
                ctx.violation("panic@%s" % site, "%s: crash" % what, case)
            elif expect == "conflict":
                if p.rc != 1:
                    ctx.violation("accepted:conflict:git", "%s: namespace X is claimed by two different checkouts, this must be an error (rc=%s)" % (what, p.rc), case)
            elif p.rc != 0:
                ctx.violation("rejected-valid-graph:git", "%s: valid graph rejected: %s" % (what, cli.clean(p.stderr)[:300]), case)
            else:
                for pk, c in imports + (bimports or []):
                    got = fields_of(dump, pk.upper())
                    if got != c + 1:
                        ctx.violation("wrong-commit-loaded", "%s: package %s was imported at commit #%d (R%s has %d fields there), the loaded model has %s fields" % (what, pk, c, pk.upper(), c + 1, got), case)
                        break
                if sorted(parsed) != sorted(set(parsed)):
                    ctx.violation("load-count", "%s: a namespace was parsed more than once: %s" % (what, parsed), case)


def special(ctx, home):
    W = ctx.workdir

    def case(name, build, expect_rc, sig, explain, once=True):
        base = os.path.join(W, "cases", "sp_" + name)
        shutil.rmtree(base, ignore_errors=True)
        pkgdir = build(base)
        p, parsed, dump = observe(pkgdir, home)
        ctx.ev()
        ctx.case(("special", name))
        ctx.count("special")
        site = cli.panic_site(p.stderr)
        if p.timed_out:
            raise Inconclusive("watchdog")
        if p.cpu_exceeded:
            ctx.violation("hang", "layout %s: loading does not terminate (CPU bound)" % name, {"case_dir": base, "stderr": cli.clean(p.stderr)[-600:]})
        elif site:
            ctx.violation("panic@%s" % site, "layout %s: crash" % name, {"case_dir": base, "stderr": cli.clean(p.stderr)[-1500:]})
        elif expect_rc is not None and p.rc != expect_rc:
            ctx.violation(sig, "layout %s: %s (rc=%s, %s)" % (name, explain, p.rc, cli.clean(p.stderr)[:300]), {"case_dir": base, "stderr": cli.clean(p.stderr)[-1500:]})
        elif once and p.rc == 0 and len(parsed) != len(set(parsed)):
            ctx.violation("load-count", "layout %s: a namespace was parsed more than once: %s" % (name, parsed), {"case_dir": base})
        else:
            shutil.rmtree(base, ignore_errors=True)
        return p

    # the same namespace claimed by two directories
    def conflict(base):
        write_graph(base, 3, {0: [1, 2]}, ns_of=lambda i: ["P0", "Same", "Same"][i])
        for f in ("p0/model.yml",):
            s = open(os.path.join(base, f)).read().replace("    f1: Same.R1?\n    f2: Same.R2?\n", "    f1: Same.R1?\n")
            open(os.path.join(base, f), "w").write(s)
        return os.path.join(base, "p0")
    case("namespace-conflict", conflict, 1, "accepted:conflict", "a namespace claimed by two directories must be an error")

    def conflict_deep(base):
        write_graph(base, 4, {0: [1, 2], 2: [3]}, ns_of=lambda i: ["P0", "Same", "P2", "Same"][i])
        s = open(os.path.join(base, "p2/model.yml")).read().replace("Same.R3", "Same.R3")
        return os.path.join(base, "p0")
    case("namespace-conflict-deep", conflict_deep, 1, "accepted:conflict", "a namespace claimed by two directories (one of them two levels down) must be an error")

    # one directory through two spellings
    def spellings(base):
        return write_graph(base, 3, {0: [1, 2], 2: [1]}, import_path=lambda i, j: ("../p0/../p%d" % j) if i == 2 else "../p%d/" % j)
    case("same-dir-two-spellings", spellings, 0, "rejected:spelling", "one directory reached through two path spellings is one package")

    def symlink(base):
        d = write_graph(base, 3, {0: [1, 2], 2: [1]}, import_path=lambda i, j: "../link1" if (i == 2 and j == 1) else "../p%d" % j)
        os.symlink("p1", os.path.join(base, "link1"))
        return d
    case("same-dir-via-symlink", symlink, 0, "rejected:symlink", "one directory reached directly and through a symlink is one package, not a namespace conflict")

    # cycles whose closing edge names a package already on the import path through a symbolic link to its directory (or to a parent of it)
    def cyc_root(base):
        d = write_graph(base, 2, {0: [1], 1: [0]}, import_path=lambda i, j: "../rootlink" if j == 0 else "../p%d" % j)
        os.symlink("p0", os.path.join(base, "rootlink"))
        return d
    case("cycle-closed-through-symlink", cyc_root, 1, "accepted:cycle-via-symlink", "root -> p1 -> (symlink to root): a cyclic import must be reported")

    def cyc_inner(base):
        d = write_graph(base, 3, {0: [1], 1: [2], 2: [1]}, import_path=lambda i, j: "../link1" if (i == 2 and j == 1) else "../p%d" % j)
        os.symlink("p1", os.path.join(base, "link1"))
        return d
    case("inner-cycle-closed-through-symlink", cyc_inner, 1, "accepted:cycle-via-symlink", "root -> p1 -> p2 -> (symlink to p1): a cyclic import must be reported")

    def cyc_parent(base):
        d = write_graph(base, 2, {0: [1], 1: [0]}, dir_of=lambda i: "tree/p%d" % i, import_path=lambda i, j: "../../mirror/p0" if j == 0 else "../p%d" % j)
        os.symlink("tree", os.path.join(base, "mirror"))
        return d
    case("cycle-closed-through-symlinked-parent", cyc_parent, 1, "accepted:cycle-via-symlink", "root -> p1 -> root reached through a symlink to the parent directory: a cyclic import must be reported")

    def self_link(base):
        d = write_graph(base, 1, {0: [0]}, import_path=lambda i, j: "../self")
        os.symlink("p0", os.path.join(base, "self"))
        return d
    case("self-import-through-symlink", self_link, 1, "accepted:cycle-via-symlink", "a package that imports a symlink to itself: a cyclic import must be reported")

    # the same *relative import text* written in packages that live in different parent directories names different directories
    def same_relative_text(base):
        files = {"ws/left/common/_package.yml": "namespace: LeftCommon\n", "ws/left/common/c.yml": "LT: !record\n  fields:\n    l: int\n",
                 "ws/right/common/_package.yml": "namespace: RightCommon\n", "ws/right/common/c.yml": "RT: !record\n  fields:\n    r: string\n",
                 "ws/left/a/_package.yml": "namespace: PkgA\nimports:\n  - ../common\n", "ws/left/a/a.yml": "AX: !record\n  fields:\n    x: LeftCommon.LT\n",
                 "ws/right/b/_package.yml": "namespace: PkgB\nimports:\n  - ../common\n", "ws/right/b/b.yml": "BY: !record\n  fields:\n    y: RightCommon.RT\n",
                 "ws/root/_package.yml": "namespace: Root\nimports:\n  - ../left/a\n  - ../right/b\njson:\n  outputDir: ../../out/json\n",
                 "ws/root/m.yml": "Top: !record\n  fields:\n    a: PkgA.AX\n    b: PkgB.BY\nP: !protocol\n  sequence:\n    t: Top\n"}
        common.write_tree(base, files)
        return os.path.join(base, "ws", "root")
    for order in ("ab", "ba"):
        def build(base, order=order):
            d = same_relative_text(base)
            if order == "ba":
                mp = os.path.join(d, "_package.yml")
                text = open(mp).read().replace("  - ../left/a\n  - ../right/b\n", "  - ../right/b\n  - ../left/a\n")
                with open(mp, "w") as f:
                    f.write(text)
            return d
        p = case("same-relative-import-text-" + order, build, 0, "rejected-valid-graph:same-relative-text",
                 "two packages in different parent directories both import '../common' (two different directories): a valid graph")

    # a package reachable from the root by two import paths of different length ("shortcut"), every listing order of the root's imports
    shortcuts = {"short-1-2": (3, {0: [1, 2], 2: [1]}), "short-1-3": (4, {0: [1, 2], 2: [3], 3: [1]}), "short-inner": (4, {0: [1], 1: [3, 2], 2: [3]}),
                 "short-two": (5, {0: [1, 2, 3], 2: [1], 3: [2, 4], 4: [1]})}
    for nm, (n, adj) in shortcuts.items():
        u = max(adj, key=lambda k: len(adj[k]))
        for oi, perm in enumerate(itertools.permutations(adj[u])):
            base = os.path.join(W, "cases", "sp_%s_%d" % (nm, oi))
            shutil.rmtree(base, ignore_errors=True)
            ordered = dict(adj)
            ordered[u] = list(perm)
            pkgdir = write_graph(base, n, ordered)
            p, parsed, dump = observe(pkgdir, home)
            ctx.ev()
            ctx.case(("special", nm, perm))
            ctx.count("special.shortcut")
            if p.rc != 0:
                ctx.violation("rejected-valid-graph:shortcut", "layout %s order %s: valid import graph rejected: %s" % (nm, ordered, cli.clean(p.stderr)[:300]), {"case_dir": base})
            elif not cpp_types_compile(ctx, base):
                ctx.violation("cpp-compile-failed:shared-import", "layout %s order %s: a package imported both directly and through another import: the generated C++ types.cc does not compile" % (nm, ordered), {"case_dir": base, "graph": adj, "order": ordered})
            else:
                shutil.rmtree(base, ignore_errors=True)

    # wide graphs: the root imports k packages that all import one base package (depth 2 whatever k is); the nesting limit is about depth, not size
    for k in (9, 10, 12, 15):
        n = k + 2
        adj = {0: list(range(1, k + 1))}
        for i in range(1, k + 1):
            adj[i] = [k + 1]
        rev = dict(adj)
        rev[0] = list(range(k, 0, -1))
        for nm, a in (("fan-%d" % k, adj), ("fan-%d-reversed" % k, rev)):
            case(nm, lambda base, a=a, n=n: write_graph(base, n, a), 0, "rejected-valid-graph:fan",
                 "a root with %d imports that each import one common base package (depth 2) is a valid graph" % k)
    # two chains of 6 below the root sharing their last package: 12 packages, depth 6
    adj = {0: [1, 6]}
    for i in (1, 2, 3, 4):
        adj[i] = [i + 1]
    adj[5] = [11]
    for i in (6, 7, 8, 9):
        adj[i] = [i + 1]
    adj[10] = [11]
    case("two-arms-12", lambda base, adj=adj: write_graph(base, 12, adj), 0, "rejected-valid-graph:two-arms", "two import chains of 6 packages sharing their last package (12 packages, depth 6) are a valid graph")

    # a previous version kept as a snapshot of the source tree: it imports *its own* copy of the library (same namespace, other directory);
    # the current graph and the old graph are two separate, valid graphs
    def snapshot(base, broken=False):
        files = {"lib/_package.yml": "namespace: Lib\n", "lib/l.yml": "Item: !record\n  fields:\n    id: int\n    name: string?\n",
                 "root/_package.yml": "namespace: Root\nimports:\n  - ../lib\nversions:\n  v1: ../history/v1/root\njson:\n  outputDir: ../out/json\n",
                 "root/m.yml": "P: !protocol\n  sequence:\n    items: !stream\n      items: Lib.Item\n",
                 "history/v1/lib/_package.yml": "namespace: Lib\n", "history/v1/lib/l.yml": "Item: !record\n  fields:\n    id: int\n",
                 "history/v1/root/_package.yml": "namespace: Root\nimports:\n  - ../lib\n",
                 "history/v1/root/m.yml": "P: !protocol\n  sequence:\n    items: !stream\n      items: Lib.Item\n"}
        common.write_tree(base, files)
        return os.path.join(base, "root")
    case("version-snapshot-with-own-library", snapshot, 0, "rejected-valid-graph:version-snapshot",
         "a previous version that imports its own copy of a library (same namespace as the current library, different directory) is not a namespace conflict",
         once=False)   # the old graph has its own Root and Lib

    # chains around the limit: k packages in a line
    for k in (9, 10, 11, 12, 13):
        adj = {i: [i + 1] for i in range(k - 1)}
        exp = expected(adj, k)
        case("chain-%d" % k, lambda base, adj=adj, k=k: write_graph(base, k, adj), 1 if exp[0] == "error" else (0 if exp[0] == "ok" else None),
             "depth-limit:chain-%d" % k, "a chain of %d packages (%d imports below the root) must be %s" % (k, k - 1, "rejected" if exp[0] == "error" else "accepted"))

    # diamond: node 1 is reachable by a short arm (depth 1) and by a long arm that exceeds the limit
    def diamond(order):
        def b(base):
            n = 11   # long arm 0->2->3->...->10->1 puts package 1 exactly 10 imports below the root; short arm 0->1
            adj = {0: list(order)}
            for i in range(2, n - 1):
                adj[i] = [i + 1]
            adj[n - 1] = [1]
            return write_graph(base, n, adj)
        return b
    pa = case("diamond-short-first", diamond([1, 2]), None, "", "")
    pb = case("diamond-long-first", diamond([2, 1]), None, "", "")
    if pa.rc != pb.rc:
        ctx.violation("order-dependent:depth-limit", "diamond whose long arm exceeds the nesting limit: listing the short arm first gives rc=%s, the long arm first rc=%s" % (pa.rc, pb.rc),
                      {"a": cli.clean(pa.stderr)[-400:], "b": cli.clean(pb.stderr)[-400:]})

    # a package with a long chain below it is reachable at two depths: directly from the root (the chain then just fits the limit) and at the end of a detour
    # (the chain then exceeds it). The longest import chain decides, whichever of the two ways is listed first - for every length of chain and detour
    for chain in (6, 7, 8, 9):
        for detour in (1, 2, 3):
            def shortcut(order, chain=chain, detour=detour):
                def b(base):
                    # packages: 0 root, 1 = X (head of the chain), 2..chain+1 = the chain below X, then the detour packages
                    adj = {}
                    for i in range(1, chain + 1):
                        adj[i] = [i + 1]
                    first_detour = chain + 2
                    for k in range(detour):
                        adj[first_detour + k] = [first_detour + k + 1] if k < detour - 1 else [1]
                    adj[0] = [1, first_detour] if order == "direct-first" else [first_detour, 1]
                    return write_graph(base, chain + 2 + detour, adj)
                return b
            longest = 1 + detour + 1 + chain       # root, detour, X, chain below X
            pa = case("shortcut-%d-%d-direct-first" % (chain, detour), shortcut("direct-first"), None, "", "")
            pb = case("shortcut-%d-%d-detour-first" % (chain, detour), shortcut("detour-first"), None, "", "")
            ctx.count("shortcut-to-deep-chain")
            want = 1 if longest > LIMIT else 0
            if pa.rc != pb.rc:
                ctx.violation("order-dependent:depth-limit:shortcut", "a chain of %d packages below X, X imported by the root directly and through a detour of %d package(s) (longest chain %d packages, limit %d): "
                              "listing the direct import first gives rc=%s, the detour first rc=%s" % (chain, detour, longest, LIMIT, pa.rc, pb.rc), {"a": cli.clean(pa.stderr)[-400:], "b": cli.clean(pb.stderr)[-400:]})
            elif pa.rc != want:
                ctx.violation("depth-limit:shortcut:%s" % ("accepted-too-deep" if want else "rejected-within-limit"), "a chain of %d packages below X reached directly and through a detour of %d (longest chain %d packages, limit %d): rc=%s in both orders, expected %d" % (
                    chain, detour, longest, LIMIT, pa.rc, want), {"a": cli.clean(pa.stderr)[-400:]})


def replay(ctx, path):
    print(json.dumps(json.load(open(path)), indent=1)[:3000])
    run(ctx)
