"""C05 - accepted schema evolution preserves data across versions (generated C++, binary format).

Workload: chains M0 -> M1 -> M2 (-> M3 in thorough) built from documented compatible / partially compatible edit classes with crisp data
semantics (optional and required fields added / removed, fields reordered, types renamed through aliases, aliases introduced, steps added,
T <-> T?, number <-> number with in-range values), each site edited at most once per chain; the newest package lists every predecessor under
`versions:`. Per chain the newest version's generated C++ (with its compatibility serializers) and every old version's generated C++ are
compiled into drivers.
Monitor: (read-old) values reference-encoded under Mi are fed to the newest driver, whose output is reference-decoded under Mk;
(write-old) values encoded under Mk are written by the newest driver with Version::<label i>, the bytes are reference-decoded under Mi (the header
must carry Mi's schema) and also fed to Mi's own generated reader.
Oracle: reference conversion interpreter (docs/cpp/evolution.md): unchanged parts exact, removed parts dropped, added parts zero / empty / null,
numbers converted by value; chains compose. Out-of-range numeric conversions and anything yardl rejected are not evaluated."""
from __future__ import annotations

import copy
import json
import os
import re
import shutil

from vlib import cli, common, cxx, emit, evo, mut, rt, values
from vlib.common import pmap, rng, Inconclusive
from vlib.model import *  # noqa
from vlib.refcodec import Codec, CodecError, F, f32, f64, canon_steps, first_diff
from vlib.values import zero_value

LEVEL = "exploration"
FLOOR = {"quick": 150, "thorough": 6000}

EDITS = [evo.e_add_optional_field, evo.e_remove_optional_field, evo.e_add_required_field, evo.e_remove_required_field, evo.e_reorder_fields,
         evo.e_rename_with_alias, evo.e_introduce_alias, evo.e_add_step, evo.e_make_optional, evo.e_make_required, evo.e_add_unused_alias]
WIDEN = {"int8": ["int16", "int32", "int64", "float64", "uint8"], "uint8": ["uint16", "int32", "uint64", "int8"], "int16": ["int32", "int64", "uint16"], "uint16": ["uint32", "int64", "int16"],
         "int32": ["int64", "float64", "uint32"], "uint32": ["uint64", "int64", "int32"], "float32": ["float64"], "int64": ["int32", "uint64"], "float64": ["float32"], "uint64": ["uint32", "int64"]}


class OutOfRange(Exception):
    pass


class IntOverflow(OutOfRange):
    """an integer that does not fit the integer type of the other version: the documentation names numeric overflow as a runtime error"""


def e_number_widen(pkg, r):
    cands = [(di, mi, p, s) for di, mi, p, s in evo.sites(pkg) if isinstance(s, P) and s.name in WIDEN and not evo.in_generic_arg(p) and not evo.in_union_case(p, evo.member_type(pkg, di, mi))
             and not isinstance(pkg.defs[di], Al) and pkg.defs[di].name in evo.reachable_defs(pkg) and not any(isinstance(x, (A, M)) for x in containers(evo.member_type(pkg, di, mi), p))]
    c = evo._pick(r, cands)
    if not c:
        return None
    di, mi, p, s = c
    new = r.choice(WIDEN[s.name])
    evo.set_member_type(pkg, di, mi, evo.replace_at(evo.member_type(pkg, di, mi), p, P(new)))
    return dict(cls=evo.PARTIAL, name="number->number", where=(pkg.defs[di].name, mi, p), old=s.name, new=new)


def containers(t, path):
    cur = t
    out = []
    for p in path:
        out.append(cur)
        if p[0] == "case":
            cur = cur.cases[p[1]][1]
        elif p[0] == "item":
            cur = cur.item
        elif p[0] == "value":
            cur = cur.value
        elif p[0] == "arg":
            cur = cur.args[p[1]]
    return out


def base_package(key):
    r = rng("C05base", key)
    nums = ["int8", "int16", "int32", "uint32", "float32", "uint8", "int64"]
    inner = Rec("Inner", [("ia", P(r.choice(nums))), ("ib", P("string")), ("ic", Opt(P(r.choice(nums)))), ("id", V(P(r.choice(nums))))])
    mid = Rec("Mid", [("ma", N("Inner")), ("mb", V(N("Inner"))), ("mc", Opt(N("Inner"))), ("md", P("bool")), ("me", P(r.choice(nums)))])
    kind = En("Kind", [("ka", 0), ("kb", 1), ("kc", 7)], None, False, True)
    gen = Rec("Pair", [("first", TP("T")), ("second", P("uint16"))], ("T",))
    # records whose fields all have a fixed-width encoding: the generated C++ copies vectors / blocks of them in bulk
    tri = Rec("Tri", [("x", P("float32")), ("y", P("float32")), ("z", P("float32")), ("w", P("float64"))])
    tri8 = Rec("Tri8", [("a", P("uint8")), ("b", P("int8")), ("c", P("bool"))])
    top = Rec("Top", [("ta", N("Mid")), ("tb", P("date")), ("tc", N("Kind")), ("td", N("Pair", (P("int32"),))), ("te", Opt(P("string"))), ("tf", P(r.choice(nums))),
                      ("tg", U(((None, P("int32")), (None, P("string"))))), ("tp", N("Pair", (N("Inner"),)))])
    proto = Proto("Evo", [("head", N("Top")), ("count", P(r.choice(nums))), ("label", P("string")), ("mids", S(N("Mid"))), ("maybe", Opt(N("Inner"))),
                          ("nums", V(P(r.choice(nums)))), ("inners", S(N("Inner"))), ("pairs", S(N("Pair", (N("Mid"),)))), ("tris", V(N("Tri"))), ("trs", S(N("Tri"))), ("tri8s", V(N("Tri8"))), ("trifixed", V(N("Tri"), 2)), ("tail", P("float32"))])
    return Pkg("Evo", [inner, mid, kind, gen, tri, tri8, top, proto], [], [], "v0")


def gen_chain(key, length, per_step):
    r = rng("C05chain", key)
    cur = base_package(key)
    chain = [cur]
    touched = set()
    for k in range(1, length):
        nxt = cur
        infos = []
        for _ in range(per_step * 6):
            if len(infos) >= per_step:
                break
            e = r.choice(EDITS + [e_number_widen, e_number_widen])
            p2, info = evo.apply_edit(nxt, e, r)
            if p2 is None:
                continue
            site = (info.get("where") or ("?",))[0:2]
            if site in touched or (info.get("where") or ("?",))[0] in {t[0] for t in touched if len(t) == 1}:
                continue
            touched.add(site)
            nxt = p2
            infos.append(info)
        nxt = copy.deepcopy(nxt)
        nxt.dirname = "v%d" % k
        nxt.edits = infos
        chain.append(nxt)
        cur = nxt
    return chain


# ----------------------------------------------------------------------------- reference conversion

def conv_num(v, old, new):
    if old == new:
        return v
    ival = isinstance(v, int) and not isinstance(v, bool)
    if new in INT_RANGE:
        if ival:
            x = v
        else:
            fv = v.value
            if fv != fv or fv in (float("inf"), float("-inf")):
                raise OutOfRange()
            x = int(round(fv))
            if abs(fv - x) == 0.5:
                raise OutOfRange()       # tie: rounding mode not pinned down
        lo, hi = INT_RANGE[new]
        if not (lo <= x <= hi):
            raise (IntOverflow() if ival else OutOfRange())
        return x
    fv = float(v) if ival else v.value
    if not ival and new == "float32" and old == "float64" and (fv != fv or fv in (float("inf"), float("-inf"))):
        raise OutOfRange()       # narrowing a non-finite float: yardl reports an overflow; not pinned down by the docs
    if ival and abs(v) > 2**24 and new == "float32":
        raise OutOfRange()
    if ival and abs(v) > 2**53:
        raise OutOfRange()
    try:
        out = f32(fv) if new == "float32" else f64(fv)
    except OverflowError:
        raise OutOfRange()       # float64 beyond the float32 range: yardl reports an overflow; not pinned down by the docs
    if new == "float32" and not ival and fv == fv and abs(fv) not in (0.0, float("inf")) and (out.value in (float("inf"), float("-inf")) or out.value == 0.0):
        raise OutOfRange()
    return out


# What is written for a field that the source version does not have. The documentation says "the zero value for a type"; when the newest
# writer targets an old version there are two readings for a removed field whose (record) type still exists in the newest model: the zero
# value of the old type, or the zero value of the newest model's type converted to the old one (what default-constructing the generated
# class does: `ic: int64?` in the old model and `ic: int64` in the newest gives null vs 0). Both are accepted (don't-care); one reading is
# applied to the whole stream.
import threading

_MODE = threading.local()      # chains are evaluated by a thread pool


def missing_value(co: Codec, cn: Codec, t):
    if getattr(_MODE, "via_source_model", False):
        tt = cn.res(t)
        if isinstance(tt, N):
            try:
                # the type may have been renamed and kept as an alias; a generic is instantiated with the same-named arguments of the source model
                src = co.res(co.fq(N(tt.name, tt.args)))
                if isinstance(src, N):
                    d, _ = co.env.lookup(src)
                    if isinstance(d, Rec):
                        return conv(co, src, cn, t, zero_value(co, src))
            except (CodecError, KeyError, AttributeError, TypeError):
                pass
    return zero_value(cn, t)


def dropped_value_dont_care(co: Codec, t_old, cn: Codec, val):
    tt = co.res(t_old)
    if isinstance(tt, U) and tt.is_optional:
        if val is None:
            return
        tt, val = co.res(tt.cases[0][1]), val[1]
    if isinstance(tt, (V, S)):
        for x in val:
            dropped_value_dont_care(co, tt.item, cn, x)
        return
    if isinstance(tt, N):
        try:
            tgt = cn.res(cn.fq(N(tt.name, tt.args)))         # same name (and type arguments) in the other model, if it still exists
            if isinstance(tgt, N) and isinstance(cn.env.lookup(tgt)[0], Rec) and isinstance(co.env.lookup(tt)[0], Rec):
                conv(co, tt, cn, tgt, val)
        except IntOverflow:
            raise OutOfRange()
        except (CodecError, KeyError, AttributeError, TypeError, ValueError, IndexError):
            return


def conv(co: Codec, to, cn: Codec, tn, v):
    to, tn = co.res(to), cn.res(tn)
    o_opt = isinstance(to, U) and to.is_optional
    n_opt = isinstance(tn, U) and tn.is_optional
    if o_opt and n_opt:
        return None if v is None else (0, conv(co, to.cases[0][1], cn, tn.cases[0][1], v[1]))
    if n_opt and not isinstance(to, U):
        return (0, conv(co, to, cn, tn.cases[0][1], v))
    if o_opt and not isinstance(tn, U):
        if v is None:
            if getattr(_MODE, "via_source_model", False):      # second reading: the zero value of the source model's type, converted
                return conv(co, to.cases[0][1], cn, tn, zero_value(co, to.cases[0][1]))
            return zero_value(cn, tn)
        return conv(co, to.cases[0][1], cn, tn, v[1])
    if isinstance(to, U) and not isinstance(tn, U) and all(isinstance(co.res(t), P) for _, t in to.cases):
        # a union replaced by the plain type of one of its cases: a value of that case keeps its value; what becomes of null and of the other cases
        # (zero value or a runtime error) is not evaluated
        if v is None or repr(co.res(to.cases[v[0]][1])) != repr(tn):
            raise OutOfRange()
        return v[1]
    if isinstance(tn, U) and not isinstance(to, U) and isinstance(to, P) and all(isinstance(cn.res(t), P) for _, t in tn.cases):
        for j, (_, tj) in enumerate(tn.cases):
            if repr(cn.res(tj)) == repr(to):
                return (j, v)
        raise OutOfRange()
    if isinstance(to, P) and isinstance(tn, P):
        if to.name == tn.name or {to.name, tn.name} == {"uint64", "size"}:
            return v
        if to.name in evo.NUMS and tn.name in evo.NUMS:
            return conv_num(v, to.name, tn.name)
        raise OutOfRange()
    if isinstance(to, N) and isinstance(tn, N):
        do, _ = co.env.lookup(to)
        dn, _ = cn.env.lookup(tn)
        if isinstance(do, En) and isinstance(dn, En):
            return v
        fo = record_fields(co.env, to)
        fn = record_fields(cn.env, tn)
        old = {name: (t, val) for (name, t), val in zip(fo, v)}
        out = []
        for name, t in fn:
            if name in old:
                out.append(conv(co, old[name][0], cn, t, old[name][1]))
            else:
                out.append(missing_value(co, cn, t))
        # a field that the target no longer has: generated readers still decode it through the conversion of its (record) type before dropping
        # it, so a number that does not fit there may or may not be reported - the value set is outside the crisp semantics
        new_names = {name for name, _ in fn}
        for name, (t_old, val) in old.items():
            if name not in new_names:
                dropped_value_dont_care(co, t_old, cn, val)
        return out
    if isinstance(to, V) and isinstance(tn, V):
        return [conv(co, to.item, cn, tn.item, x) for x in v]
    if isinstance(to, S) and isinstance(tn, S):
        return [conv(co, to.item, cn, tn.item, x) for x in v]
    if isinstance(to, U) and isinstance(tn, U) and [repr(co.res(t)) for _, t in to.cases] != [repr(cn.res(t)) for _, t in tn.cases] \
            and all(isinstance(co.res(t), P) for _, t in to.cases) and all(isinstance(cn.res(t), P) for _, t in tn.cases):
        # types were added to / removed from the union (documented as partially compatible): a value keeps its *type*, whatever position that type has
        # in the other version; a value whose type the other version does not have cannot be represented there (a runtime error: not evaluated)
        if v is None:
            if tn.nullable:
                return None
            raise OutOfRange()
        told = co.res(to.cases[v[0]][1])
        for j, (_, tj) in enumerate(tn.cases):
            if repr(cn.res(tj)) == repr(told):
                return (j, v[1])
        raise OutOfRange()
    if isinstance(to, U) and isinstance(tn, U) and len(to.cases) == len(tn.cases) and to.nullable == tn.nullable:
        return None if v is None else (v[0], conv(co, to.cases[v[0]][1], cn, tn.cases[v[0]][1], v[1]))
    if isinstance(to, A) and isinstance(tn, A):
        return (v[0], [conv(co, to.item, cn, tn.item, x) for x in v[1]])
    if isinstance(to, M) and isinstance(tn, M):
        return [(k, conv(co, to.value, cn, tn.value, x)) for k, x in v]
    raise OutOfRange()


def conv_protocol(co, po: Proto, cn, pn: Proto, vals):
    old = {sn: (co.fq(t), val) for (sn, t), val in zip(po.steps, vals)}
    out = []
    for sn, t in pn.steps:
        t = cn.fq(t)
        if sn in old:
            out.append(conv(co, old[sn][0], cn, t, old[sn][1]))
        else:
            out.append(zero_value(cn, t) if not isinstance(t, S) else [])
    return out


def run(ctx):
    common.build_yardl()
    quick = ctx.tier == "quick"
    home = os.path.join(ctx.workdir, "home")
    os.makedirs(home, exist_ok=True)
    nchains = 5 if quick else 300
    length = 3 if quick else 4
    ctx.rule = ("%d seeded chains of %d versions (2-3 documented edits per step, each site edited once) over a base with nested records, generics, optionals, vectors, streams "
                "and enums; per chain: every old version read by the newest generated reader and every old version written by the newest generated writer, 6 value sets "
                "each, plus the repository's own evolution models. distinct = (chain, version, direction, value set); chains or value sets outside the crisp semantics "
                "(rejected by yardl, out-of-range numbers) are counted as not evaluated." % (nchains, length))
    ctx.assumptions = ["reference conversion interpreter written from docs/cpp/evolution.md (zero values for added parts, by-value numeric conversion, round-to-nearest float->int)",
                       "numeric ties and out-of-range conversions, number<->string text and union case changes are outside this workload",
                       "evolution is C++ / binary only (documented)"]

    def one(ci):
        key = "c05_%d_%d" % (common.seed(), ci)
        chain = gen_chain(key, length, 3 if ci % 2 else 2)
        base = os.path.join(ctx.workdir, "cases", key)
        shutil.rmtree(base, ignore_errors=True)
        newest = chain[-1]
        # version labels whose declared order is not their sorted order (v9, v10, v11) on every other chain
        labels = ["v%d" % (i + (9 if ci % 2 else 0)) for i in range(len(chain) - 1)]
        # newest with all predecessors
        outs = emit.default_outputs("../out_new", python=False, cpp_opts=cxx.cpp_gen_options({"generateNDJson": False}))
        files = evo.chain_files(chain, outs, None, labels)
        common.write_tree(base, files)
        p = cli.run_cli("generate", os.path.join(base, newest.dir), home)
        ctx.ev()
        edits = [e["name"] for m in chain[1:] for e in m.edits]
        if cli.panic_site(p.stderr):
            ctx.violation("panic@%s" % cli.panic_site(p.stderr), "chain %s (%s): yardl crashed" % (key, edits), {"case_dir": base, "stderr": cli.clean(p.stderr)[-1500:]})
            return
        if p.rc != 0:
            ctx.count("chain.rejected-by-yardl")
            ctx.extra.setdefault("rejected_chains", []).append({"chain": key, "edits": edits, "error": cli.clean(p.stderr)[:300]})
            shutil.rmtree(base, ignore_errors=True)
            return
        ctx.count("chain.accepted")
        try:
            exe_new = cxx.build(os.path.join(base, "out_new/cpp"), "plain")
            exe_new_asan = cxx.build(os.path.join(base, "out_new/cpp"), "asan") if ci % 2 == 0 else None
        except cxx.CompileError as e:
            ctx.violation("cpp-compile-failed:evolution", "chain %s (%s): generated compatibility code does not compile: %s" % (key, edits, str(e)[-700:]), {"case_dir": base})
            return
        src_new = open(os.path.join(base, "out_new/cpp/protocols.cc")).read()
        import re
        schema_new = re.search(r'std::string EvoWriterBase::schema_ = R"\((.*?)\)";', src_new, re.S).group(1)
        # old versions on their own (their schema literal + their own reader)
        old = []
        for i, pk in enumerate(chain[:-1]):
            r = os.path.join(base, "solo_v%d" % i)
            p1 = copy.deepcopy(pk)
            p1.dirname = "pkg"
            o1 = emit.default_outputs("../out", python=False, cpp_opts=cxx.cpp_gen_options({"generateNDJson": False}))
            common.write_tree(r, emit.package_files(p1, None, o1))
            pg = cli.run_cli("generate", os.path.join(r, "pkg"), home)
            if pg.rc != 0:
                raise Inconclusive("old version %d of chain %s does not generate alone" % (i, key))
            sch = re.search(r'std::string EvoWriterBase::schema_ = R"\((.*?)\)";', open(os.path.join(r, "out/cpp/protocols.cc")).read(), re.S).group(1)
            old.append((pk, sch, cxx.build(os.path.join(r, "out/cpp"), "plain")))
            if i >= 1:
                # the same version as it was really deployed: generated with *its* predecessors listed. Streams written by that tree carry the schema text
                # that tree embeds - it has to be the text the version embeds when generated alone (which the newest reader is tested against below)
                rl = os.path.join(base, "listed_v%d" % i)
                common.write_tree(rl, evo.chain_files(chain[: i + 1], o1, None, labels[:i]))
                pl = cli.run_cli("generate", os.path.join(rl, pk.dir), home)
                ctx.ev()
                if pl.rc != 0:
                    raise Inconclusive("version %d of chain %s does not generate with its predecessors listed: %s" % (i, key, cli.clean(pl.stderr)[:200]))
                schl = re.search(r'std::string EvoWriterBase::schema_ = R"\((.*?)\)";', open(os.path.join(rl, "out/cpp/protocols.cc")).read(), re.S).group(1)
                ctx.count("listed-vs-alone-schema")
                if schl != sch:
                    ctx.violation("schema-of-version-depends-on-its-listed-predecessors", "chain %s (%s): version %d embeds a different schema when it is generated with its own predecessors listed than when generated "
                                  "alone - a later package recognises only one of the two, so streams of the really deployed version %d would be refused" % (key, edits, i, i), {"case_dir": base, "version": i})
                shutil.rmtree(os.path.join(rl, "out"), ignore_errors=True)
        cn = Codec(newest)
        pn = newest.find("Evo")
        bad = False
        for i, (pk, sch_old, exe_old) in enumerate(old):
            co = Codec(pk)
            po = pk.find("Evo")
            for k in range(6 if quick else 12):
                # ---- read old
                vals = values.ValueGen(co, rng("C05v", key, i, k), quiet_nan_only=True, max_len=3).steps(po, stream_len=[0, 1, 3][k % 3])
                try:
                    want = conv_protocol(co, po, cn, pn, vals)
                    evaluable = True
                except IntOverflow:
                    evaluable = False
                    ctx.count("valueset.int-overflow")
                    # documented: numeric overflow is a runtime error - never a silently different value
                    data = co.encode_stream(po, sch_old, vals)
                    pr = cxx.run_driver(exe_new, ["Evo", "bin", "bin"], data, "plain")
                    ctx.ev()
                    ctx.case((key, i, "read-overflow", k))
                    if pr.sig is not None:
                        ctx.violation("crash:read-old-overflow", "chain %s (%s): v%d stream with an integer that overflows the new type: driver died with signal %s" % (key, edits, i, pr.sig), {"case_dir": base, "stderr": pr.stderr[-500:]})
                        bad = True
                    elif pr.rc == 0:
                        ctx.violation("silent-overflow:read-old", "chain %s (%s): v%d stream with an integer that does not fit the new integer type was converted silently instead of raising the documented numeric-overflow error" % (key, edits, i),
                                      {"case_dir": base, "values": repr(vals)[:1500]})
                        bad = True
                except OutOfRange:
                    evaluable = False
                    ctx.count("valueset.out-of-range")
                if evaluable:
                    data = co.encode_stream(po, sch_old, vals)
                    for exe, fl in ((exe_new, "plain"), (exe_new_asan, "asan")):
                        if exe is None:
                            continue
                        pr = cxx.run_driver(exe, ["Evo", "bin", "bin", "--bufs", "1,3"] if k % 2 else ["Evo", "bin", "bin"], data, fl)
                        ctx.ev()
                        ctx.count("read-old." + fl)
                        ctx.case((key, i, "read", k, fl))
                        if not judge(ctx, cn, pn, want, pr, schema_new, "chain %s (%s): v%d stream read by the newest reader [%s]" % (key, edits, i, fl), {"case_dir": base, "version": i, "values": repr(vals)[:1500]}, "read-old"):
                            bad = True
                # ---- write old
                vals_n = values.ValueGen(cn, rng("C05w", key, i, k), quiet_nan_only=True, max_len=3).steps(pn, stream_len=[0, 1, 3][k % 3])
                try:
                    want_o = [conv_protocol(cn, pn, co, po, vals_n)]
                    _MODE.via_source_model = True
                    try:
                        alt = conv_protocol(cn, pn, co, po, vals_n)
                    except (OutOfRange, IntOverflow):
                        alt = None
                    finally:
                        _MODE.via_source_model = False
                    if alt is not None and alt != want_o[0]:
                        want_o.append(alt)
                        ctx.count("write-old.two-readings-of-default")
                except OutOfRange:
                    ctx.count("valueset.out-of-range")
                    continue
                data = cn.encode_stream(pn, schema_new, vals_n)
                pr = cxx.run_driver(exe_new, ["Evo", "bin", "bin", "--version", labels[i]], data, "plain")
                ctx.ev()
                ctx.count("write-old")
                ctx.case((key, i, "write", k))
                if judge(ctx, co, po, want_o, pr, sch_old, "chain %s (%s): newest writer targeting v%d" % (key, edits, i), {"case_dir": base, "version": i, "values": repr(vals_n)[:1500]}, "write-old", alternatives=True):
                    # the old version's own reader must accept it with the same values
                    pr2 = cxx.run_driver(exe_old, ["Evo", "bin", "bin"], pr.out, "plain")
                    ctx.ev()
                    ctx.count("old-reader")
                    if not judge(ctx, co, po, want_o, pr2, sch_old, "chain %s (%s): v%d's own reader on what the newest writer produced for it" % (key, edits, i), {"case_dir": base, "version": i}, "old-reader", alternatives=True):
                        bad = True
                else:
                    bad = True
                # the same call sequence with the writer constructed through its file-name constructor
                of = os.path.join(base, "byname_%d_%d.bin" % (i, k))
                pr3 = cxx.run_driver(exe_new, ["Evo", "bin", "bin", "--version", labels[i], "--out-file", of], data, "plain")
                try:
                    with open(of, "rb") as fh:
                        pr3.out = fh.read()
                    os.unlink(of)
                except OSError:
                    pass
                ctx.ev()
                ctx.count("write-old.by-name")
                ctx.case((key, i, "write-by-name", k))
                if not judge(ctx, co, po, want_o, pr3, sch_old, "chain %s (%s): newest writer (file-name constructor) targeting v%d" % (key, edits, i), {"case_dir": base, "version": i, "values": repr(vals_n)[:1500]}, "write-old-by-name", alternatives=True):
                    bad = True
        if not bad:
            shutil.rmtree(base, ignore_errors=True)
        return {"chain": key, "edits": edits, "versions": len(chain)}

    res = [x for x in pmap(one, range(nchains), workers=5) if x]
    for s in res[:5]:
        ctx.sample(s)
    repo_models(ctx, home)
    fixed_width_record_scenarios(ctx, home)
    union_case_scenarios(ctx, home)
    union_scalar_scenarios(ctx, home)
    parameter_name_scenarios(ctx, home)
    alias_dropped_scenarios(ctx, home)
    imported_record_scenario(ctx, home)
    numeric_conversion_scenario(ctx, home)
    string_to_integer_scenario(ctx, home)
    cxx.prune_cache()


def judge(ctx, codec, proto, want, pr, schema_expected, what, case, kind, alternatives=False):
    sig = msg = None
    if pr.timed_out:
        raise Inconclusive("watchdog: " + what)
    if pr.sig is not None or pr.cpu_exceeded:
        sig, msg = "crash:%s" % kind, "driver died (signal %s): %s" % (pr.sig, pr.stderr[-500:])
    elif "Sanitizer" in pr.stderr or "runtime error:" in pr.stderr:
        sig, msg = "sanitizer:%s" % kind, pr.stderr[-600:]
    elif pr.rc != 0:
        sig, msg = "rejected:%s:%s" % (kind, rt.cpp_errclass(pr.stderr)), "in-range data rejected: %s" % pr.stderr[-300:]
    else:
        try:
            d = codec.decode_stream(proto, pr.out)
        except (CodecError, UnicodeDecodeError) as e:
            sig, msg = "undecodable:%s" % kind, "output does not decode under the target version's format: %s" % e
        else:
            if d["schema"] != schema_expected:
                sig, msg = "wrong-schema:%s" % kind, "the emitted header does not carry the target version's schema"
            elif d["end"] != len(pr.out):
                sig, msg = "trailing:%s" % kind, "trailing bytes"
            else:
                wants = want if alternatives else [want]
                got = canon_steps(codec, proto, d["values"])
                df = None
                for w in wants:
                    df = first_diff(canon_steps(codec, proto, w), got)
                    if not df:
                        break
                if df:
                    sig, msg = "value:%s" % kind, "converted values differ from the documented conversion at %s" % df
    if sig:
        ctx.violation(sig, "%s: %s" % (what, msg), dict(case, stderr=pr.stderr[-800:]))
        return False
    return True


def fixed_width_record_scenarios(ctx, home):
    """a record of fixed-width fields (copied in bulk by the generated C++) that changed since v0: vectors, fixed vectors and streams of it, read
    with batch capacities 1 and 4 and written for v0"""
    def pkgs(old_fields, new_fields):
        def mk(fields, versions, d):
            return Pkg("Evo", [Rec("Pt", fields), Proto("Evo", [("pts", V(N("Pt"))), ("fixed", V(N("Pt"), 3)), ("s", S(N("Pt"))), ("end", P("int32"))])], [], versions, d)
        old = mk(old_fields, [], "v0")
        return old, mk(new_fields, [("v0", old)], "v1")
    f = lambda n: (n, P("float32"))
    cases = {"field-removed": ([f("x"), f("y"), f("z")], [f("x"), f("y")]),
             "field-added": ([f("x"), f("y")], [f("x"), f("y"), f("z")]),
             "fields-reordered": ([f("x"), f("y"), ("k", P("uint8"))], [("k", P("uint8")), f("y"), f("x")]),
             "field-widened": ([f("x"), f("y")], [f("x"), ("y", P("float64"))])}
    for name, (fo, fn) in cases.items():
        old, new = pkgs(fo, fn)
        _evolve_pair(ctx, home, "fixed-width", "fixed-width record", name, old, new)
    # an unchanged generic record of fixed-width fields instantiated with an alias whose primitive type changed, and with a changed record
    def gen(num_t, rec_fields, versions, d, pair_fields=(("a", TP("T")), ("b", TP("T")))):
        return Pkg("Evo", [Rec("Pair", list(pair_fields), ("T",)), Al("MyNum", P(num_t)), Rec("Inner", rec_fields),
                           Proto("Evo", [("p", N("Pair", (N("MyNum"),))), ("pts", V(N("Pair", (N("MyNum"),)))), ("fixed", V(N("Pair", (N("MyNum"),)), 3)), ("s", S(N("Pair", (N("MyNum"),)))),
                                         ("pi", V(N("Pair", (N("Inner"),)))), ("end", P("int32"))])], [], versions, d)
    fi = [("x", P("float32")), ("y", P("float32"))]
    gcases = {"alias-widened": (gen("float32", fi, [], "v0"), lambda o: gen("float64", fi, [("v0", o)], "v1")),
              "alias-narrowed-int": (gen("int64", fi, [], "v0"), lambda o: gen("float64", fi, [("v0", o)], "v1")),
              "argument-record-changed": (gen("float32", fi, [], "v0"), lambda o: gen("float32", fi + [("z", P("float32"))], [("v0", o)], "v1"))}
    for name, (old, mk_new) in gcases.items():
        _evolve_pair(ctx, home, "generic-instance", "unchanged generic record instantiated with a changed type", name, old, mk_new(old))
    # a named alias of a primitive whose primitive changed (documented: changing between primitive types), used directly as the element of vectors,
    # fixed vectors, nested vectors and streams, inside an unchanged record and behind an unchanged alias of a vector
    def prim(num_t, versions, d):
        my = N("MyNum")
        return Pkg("Evo", [Al("MyNum", P(num_t)), Al("MyVec", V(my)), Rec("Holder", [("v", V(my)), ("f", V(my, 3)), ("one", my), ("tag", P("uint8"))]),
                           Proto("Evo", [("nums", V(my)), ("fixed", V(my, 3)), ("nested", V(V(my, 2))), ("maybe", Opt(V(my))), ("s", S(my)), ("sv", S(V(my, 2))),
                                         ("holder", N("Holder")), ("holders", V(N("Holder"))), ("wrapped", N("MyVec")), ("end", P("int32"))])], [], versions, d)
    for a, b in (("float32", "float64"), ("int64", "float64"), ("uint8", "int16"), ("int8", "float32"), ("float64", "int32"), ("complexfloat32", "complexfloat64")):
        old = prim(a, [], "v0")
        _evolve_pair(ctx, home, "alias-of-primitive", "alias of a primitive that changed, as the element of vectors / fixed vectors / streams", "%s-to-%s" % (a, b), old, prim(b, [("v0", old)], "v1"))
    # the generic record itself changed (a field added / removed / reordered); its instances with fixed-width arguments travel in vectors and batches
    three = (("a", TP("T")), ("b", TP("T")), ("c", TP("T")))
    rcases = {"generic-field-added": (gen("float64", fi, [], "v0"), lambda o: gen("float64", fi, [("v0", o)], "v1", three)),
              "generic-field-removed": (gen("float32", fi, [], "v0", three), lambda o: gen("float32", fi, [("v0", o)], "v1")),
              "generic-fields-reordered": (gen("float64", fi, [], "v0"), lambda o: gen("float64", fi, [("v0", o)], "v1", (("b", TP("T")), ("a", TP("T")))))}
    for name, (old, mk_new) in rcases.items():
        _evolve_pair(ctx, home, "generic-changed", "generic record of fixed-width fields that changed since v0", name, old, mk_new(old))
    # two listed versions with the same schema (the release in between did not touch this protocol), the current one differs: both labels can be targeted
    for name, (fo, fn) in list(cases.items())[:2]:
        old, _ = pkgs(fo, fn)
        old2 = copy.deepcopy(old)
        old2.dirname = "v0b"
        for order in ((("v0", old), ("v1", old2)), (("v1", old2), ("v0", old))):
            new = Pkg("Evo", pkgs(fo, fn)[1].defs, [], list(order), "v2")
            _evolve_pair(ctx, home, "two-equal-versions", "two listed versions with the same schema", "%s-%s-first" % (name, order[0][0]), old, new, write_labels=("v0", "v1"))


def union_case_scenarios(ctx, home):
    """types added to / removed from unions of primitives (documented as partially compatible) at every place a union can stand - record field, vector
    item, named alias as stream item, protocol step -, including the combinations that leave the surviving types at other positions: appended, prepended,
    reordered and appended, swapped, removed. A value keeps its type in the other version."""
    i32, u32, i64, st, f32t, bl = P("int32"), P("uint32"), P("int64"), P("string"), P("float32"), P("bool")

    def mk(field, item, alias, step, nullable, versions, d):
        u = lambda ts, nl=False: U(tuple((None, t) for t in ts), nl)
        return Pkg("Evo", [Rec("Sample", [("id", i32), ("reading", u(field)), ("tags", V(u(item)))]), Al("Event", u(alias)),
                           Proto("Evo", [("samples", S(N("Sample"))), ("events", S(N("Event"))), ("last", u(step)), ("maybe", u(nullable, True)), ("end", i32)])], [], versions, d)
    cases = {
        "appended": (([i32, u32], [st, i64], [st, i64], [i64, st], [i32, st]), ([i32, u32, st], [st, i64, bl], [st, i64, f32t], [i64, st, f32t], [i32, st, f32t])),
        "reordered-and-appended": (([i32, u32], [st, i64], [st, i64], [i64, st], [i32, st]), ([u32, i32, st], [i64, st, bl], [i64, st, f32t], [st, i64, f32t], [st, i32, f32t])),
        "swapped": (([i32, u32], [st, i64], [st, i64], [i64, st], [i32, st]), ([u32, i32], [i64, st], [i64, st], [st, i64], [st, i32])),
        "prepended": (([i32, u32], [st, i64], [st, i64], [i64, st], [i32, st]), ([st, i32, u32], [bl, st, i64], [f32t, st, i64], [f32t, i64, st], [f32t, i32, st])),
        "removed-last": (([i32, u32, st], [st, i64, bl], [st, i64, f32t], [i64, st, f32t], [i32, st, f32t]), ([i32, u32], [st, i64], [st, i64], [i64, st], [i32, st])),
        "removed-first-and-swapped": (([st, i32, u32], [bl, st, i64], [f32t, st, i64], [f32t, i64, st], [f32t, i32, st]), ([u32, i32], [i64, st], [i64, st], [st, i64], [st, i32])),
    }
    for name, (o, n) in cases.items():
        old = mk(*o, [], "v0")
        new = mk(*n, [("v0", old)], "v1")
        _evolve_pair(ctx, home, "union-cases", "types added to / removed from unions", name, old, new, value_sets=8)


def alias_dropped_scenarios(ctx, home):
    """in one step a record changes in a documented compatible way (gains an optional field, loses a field, a field is widened) AND the alias through
    which the protocol referred to it disappears - dropped (the steps name the record directly) or renamed: the old alias has no counterpart of its
    own, its base definition changed. Also the other way round (an alias is introduced for a record that changes in the same step)."""
    i32, st, f32t, f64t = P("int32"), P("string"), P("float32"), P("float64")
    changes = {"field-added": ([("a", i32), ("unit", st)], [("a", i32), ("unit", st), ("extra", Opt(st))]),
               "field-removed": ([("a", i32), ("unit", st), ("old", Opt(i32))], [("a", i32), ("unit", st)]),
               "field-widened": ([("a", i32), ("gain", f32t)], [("a", i32), ("gain", f64t)])}

    def mk(fields, alias, versions, d):
        ref = N(alias) if alias else N("Reading")
        defs = [Rec("Reading", fields)] + ([Al(alias, N("Reading"))] if alias else [])
        return Pkg("Evo", defs + [Proto("Evo", [("one", ref), ("many", S(ref)), ("vec", V(ref)), ("maybe", Opt(ref)), ("end", i32)])], [], versions, d)
    for cname, (fo, fn) in changes.items():
        for aname, (ao, an) in {"alias-dropped": ("Item", None), "alias-renamed": ("Item", "Entry"), "alias-introduced": (None, "Item"), "alias-kept": ("Item", "Item")}.items():
            old = mk(fo, ao, [], "v0")
            _evolve_pair(ctx, home, "alias-and-base", "a record changed and the alias that names it dropped / renamed / introduced in the same step", "%s-%s" % (aname, cname), old, mk(fn, an, [("v0", old)], "v1"))


def union_scalar_scenarios(ctx, home):
    """a union (with and without null, the kept type first / in the middle / last) replaced by the plain type of one of its cases, and the other way round,
    as step, stream item, vector item and record field. Values of the kept type keep their value in both directions; the value sets only hold such values
    (what becomes of the other cases is not evaluated)."""
    i32, i64, st, f64t = P("int32"), P("int64"), P("string"), P("float64")
    for uname, cases, nullable, keep in (("null-int-long", [i32, i64], True, 1), ("null-long-int", [i64, i32], True, 0), ("string-long-double", [st, i64, f64t], False, 1),
                                         ("null-string-double-long", [st, f64t, i64], True, 2), ("long-string", [i64, st], False, 0)):
        u = U(tuple((None, t) for t in cases), nullable)

        def mk(t, versions, d):
            return Pkg("Evo", [Rec("Holder", [("gain", t), ("n", i32)]), Proto("Evo", [("threshold", t), ("samples", S(t)), ("vec", V(t)), ("holder", N("Holder")), ("holders", V(N("Holder"))), ("end", i32)])], [], versions, d)

        def shaper(union_side):
            def pick(x):
                # every union value becomes a value of the kept case
                val = x[1] if (isinstance(x, tuple) and x is not None and x[0] == keep) else 5000000000 + (hash(repr(x)) % 1000)
                return (keep, val)

            def f(side, vals):
                if side != union_side:
                    return vals
                th, samples, vec, holder, holders, end = vals
                return [pick(th), [pick(x) for x in samples], [pick(x) for x in vec], [pick(holder[0]), holder[1]], [[pick(h[0]), h[1]] for h in holders], end]
            return f
        old = mk(u, [], "v0")
        _evolve_pair(ctx, home, "union-scalar", "a union replaced by the plain type of one of its cases", "union-to-scalar-%s" % uname, old, mk(i64, [("v0", old)], "v1"), value_sets=4, shape_values=shaper("old"))
        old = mk(i64, [], "v0")
        _evolve_pair(ctx, home, "union-scalar", "a plain type replaced by a union that holds it", "scalar-to-union-%s" % uname, old, mk(u, [("v0", old)], "v1"), value_sets=4, shape_values=shaper("new"))


def parameter_name_scenarios(ctx, home):
    """protocol steps and record fields whose names are the names the generated C++ gives to its own parameters and locals (value, stream, item, ...), with
    a type that changed since v0 (converted, made optional, removed): the conversion code must not confuse the model's names with its own"""
    i32, i64, f32t, f64t, st = P("int32"), P("int64"), P("float32"), P("float64"), P("string")
    for names, fnames in ((("value", "stream", "values"), None), (("value", "stream", "values"), ("x", "y", "z")), (("item", "index", "count"), None), (("result", "reader", "version"), None)):
        a, b, c = names
        fa, fb, fc = fnames or names

        def mk(t1, t2, t3, rec_fields, versions, d):
            return Pkg("Evo", [Rec("Holder", rec_fields), Proto("Evo", [(a, t1), (b, S(t2)), (c, t3), ("holder", N("Holder")), ("holders", V(N("Holder"))), ("end", i32)])], [], versions, d)
        cases = {"widened": ((i32, f32t, i32, [(fa, i32), (fb, f32t), (fc, i32)]), (i64, f64t, i64, [(fa, i64), (fb, f64t), (fc, i64)])),
                 "made-optional": ((i32, f32t, st, [(fa, i32), (fb, f32t), (fc, st)]), (Opt(i32), f64t, Opt(st), [(fa, Opt(i32)), (fb, Opt(f32t)), (fc, Opt(st))])),
                 "field-removed": ((i32, f32t, i32, [(fa, i32), (fb, f32t), (fc, i32)]), (i32, f32t, i32, [(fa, i32), (fc, i32)])),
                 "field-added": ((i32, f32t, i32, [(fa, i32)]), (i32, f32t, i32, [(fa, i32), (fb, f32t), (fc, i32)]))}
        for cname, (o, n) in cases.items():
            old = mk(*o, [], "v0")
            _evolve_pair(ctx, home, "parameter-names", "steps / fields named like the generated code's own parameters", "%s%s-%s" % (a, "-steps-only" if fnames else "", cname), old, mk(*n, [("v0", old)], "v1"))


def _evolve_pair(ctx, home, tag, what, name, old, new, write_labels=("v0",), value_sets=3, shape_values=None):
    """generates `new` (which lists `old` as v0) and `old` alone, reads v0 streams with the newest reader (batch capacities 1 and 4) and writes v0
    with the newest writer; values against the documented conversion"""
    if True:
        base = os.path.join(ctx.workdir, "cases", "%s_%s" % (tag.replace("-", ""), name))
        shutil.rmtree(base, ignore_errors=True)
        common.write_tree(base, emit.package_files(new, None, emit.default_outputs("../out_new", python=False, cpp_opts=cxx.cpp_gen_options({"generateNDJson": False}))))
        common.write_tree(os.path.join(base, "solo"), emit.package_files(old, None, emit.default_outputs("../out_old", python=False, cpp_opts=cxx.cpp_gen_options({"generateNDJson": False}))))
        p1 = cli.run_cli("generate", os.path.join(base, new.dir), home)
        p0 = cli.run_cli("generate", os.path.join(base, "solo", old.dir), home)
        ctx.ev(2)
        ctx.case((tag, name))
        if p1.rc != 0 or p0.rc != 0:
            ctx.violation("rejected:%s:%s" % (tag, name), "%s (%s) rejected: %s" % (what, name, cli.clean(p1.stderr + p0.stderr)[:300]), {"case_dir": base})
            return
        lit = lambda path: re.search(r'std::string EvoWriterBase::schema_ = R"\((.*?)\)";', open(path).read(), re.S).group(1)
        sch_old, sch_new = lit(os.path.join(base, "solo/out_old/cpp/protocols.cc")), lit(os.path.join(base, "out_new/cpp/protocols.cc"))
        try:
            exe_new = cxx.build(os.path.join(base, "out_new/cpp"), "plain")
            exe_old = cxx.build(os.path.join(base, "solo/out_old/cpp"), "plain")
        except cxx.CompileError as e:
            ctx.violation("cpp-compile-failed:%s" % tag, "%s, %s: generated code does not compile: %s" % (what, name, str(e)[-400:]), {"case_dir": base})
            return
        co, cn = Codec(old), Codec(new)
        po, pn = old.find("Evo"), new.find("Evo")
        bad = False
        for k in range(value_sets):
            vo = values.ValueGen(co, rng("C05fw", tag, name, k), quiet_nan_only=True, max_len=5).steps(po, stream_len=[1, 3, 6][k % 3])
            if shape_values:
                vo = shape_values("old", vo)
            try:
                want = conv_protocol(co, po, cn, pn, vo)
            except OutOfRange:
                want = None
            data = co.encode_stream(po, sch_old, vo)
            for bufs in ((None, "4") if want is not None else ()):
                pr = cxx.run_driver(exe_new, ["Evo", "bin", "bin"] + (["--bufs", bufs] if bufs else []), data, "plain")
                ctx.ev()
                ctx.count(tag + ".read-old")
                if not judge(ctx, cn, pn, want, pr, sch_new, what + ", %s: v0 stream read by the newest reader (batch capacity %s)" % (name, bufs or 1), {"case_dir": base}, "read-old"):
                    bad = True
            vn = values.ValueGen(cn, rng("C05fww", tag, name, k), quiet_nan_only=True, max_len=5).steps(pn, stream_len=[1, 3, 6][k % 3])
            if shape_values:
                vn = shape_values("new", vn)
            try:
                want_o = [conv_protocol(cn, pn, co, po, vn)]
            except OutOfRange:
                continue
            datan = cn.encode_stream(pn, sch_new, vn)
            for bufs, label in [(b, l) for l in write_labels for b in (None, "4")]:
                pr = cxx.run_driver(exe_new, ["Evo", "bin", "bin", "--version", label] + (["--bufs", bufs] if bufs else []), datan, "plain")
                ctx.ev()
                ctx.count(tag + ".write-old")
                if judge(ctx, co, po, want_o, pr, sch_old, what + ", %s: newest writer targeting %s (batch capacity %s)" % (name, label, bufs or 1), {"case_dir": base}, "write-old", alternatives=True):
                    pr2 = cxx.run_driver(exe_old, ["Evo", "bin", "bin"], pr.out, "plain")
                    ctx.ev()
                    if not judge(ctx, co, po, want_o, pr2, sch_old, what + ", %s: v0's own reader on the newest writer's output" % name, {"case_dir": base}, "old-reader", alternatives=True):
                        bad = True
                else:
                    bad = True
        if not bad:
            shutil.rmtree(base, ignore_errors=True)


def numeric_conversion_scenario(ctx, home):
    """every ordered pair of integer types as a changed record field: boundary values that fit are converted exactly in both directions; a value
    that does not fit the other version's type is the documented numeric-overflow runtime error, one field at a time (all other fields hold 0)"""
    ints = ["int8", "uint8", "int16", "uint16", "int32", "uint32", "int64", "uint64"]
    pairs = [(o, n) for o in ints for n in ints if o != n]
    fname = lambda o, n: "f%s%s" % (o.replace("int", "i").replace("ui", "u"), n.replace("int", "i").replace("ui", "u"))

    def mk(side, versions, d):
        return Pkg("Evo", [Rec("Nums", [(fname(o, n), P((o, n)[side])) for o, n in pairs]),
                           Proto("Evo", [("one", N("Nums")), ("many", S(N("Nums"))), ("vec", V(N("Nums")))])], [], versions, d)
    old = mk(0, [], "v0")
    new = mk(1, [("v0", old)], "v1")
    base = os.path.join(ctx.workdir, "cases", "numconv")
    shutil.rmtree(base, ignore_errors=True)
    opts = lambda d: emit.default_outputs(d, python=False, cpp_opts=cxx.cpp_gen_options({"generateNDJson": False}))
    common.write_tree(base, emit.package_files(new, None, opts("../out_new")))
    common.write_tree(os.path.join(base, "solo"), emit.package_files(old, None, opts("../out_old")))
    p1 = cli.run_cli("generate", os.path.join(base, new.dir), home)
    p0 = cli.run_cli("generate", os.path.join(base, "solo", old.dir), home)
    ctx.ev(2)
    if p1.rc != 0 or p0.rc != 0:
        ctx.violation("rejected:numeric-conversion", "integer -> integer changes of record fields rejected: %s" % cli.clean(p1.stderr + p0.stderr)[:300], {"case_dir": base})
        return
    lit = lambda path: re.search(r'std::string EvoWriterBase::schema_ = R"\((.*?)\)";', open(path).read(), re.S).group(1)
    sch_old, sch_new = lit(os.path.join(base, "solo/out_old/cpp/protocols.cc")), lit(os.path.join(base, "out_new/cpp/protocols.cc"))
    try:
        exe_new = cxx.build(os.path.join(base, "out_new/cpp"), "plain")
        exe_old = cxx.build(os.path.join(base, "solo/out_old/cpp"), "plain")
    except cxx.CompileError as e:
        ctx.violation("cpp-compile-failed:numeric-conversion", "generated conversion code does not compile: %s" % str(e)[-400:], {"case_dir": base})
        return
    co, cn = Codec(old), Codec(new)
    po, pn = old.find("Evo"), new.find("Evo")
    bad = False
    rec = lambda f: [f(o, n) for o, n in pairs]
    fits = {"common-max": lambda o, n: min(INT_RANGE[o][1], INT_RANGE[n][1]), "common-min": lambda o, n: max(INT_RANGE[o][0], INT_RANGE[n][0]),
            "one": lambda o, n: 1, "common-max-1": lambda o, n: min(INT_RANGE[o][1], INT_RANGE[n][1]) - 1}
    for name, f in fits.items():
        vals = [rec(f), [rec(f), rec(lambda o, n: 0)], [rec(f)]]
        for direction, (ca, pa, cb, pb, sa, sb, args) in {"read-old": (co, po, cn, pn, sch_old, sch_new, []), "write-old": (cn, pn, co, po, sch_new, sch_old, ["--version", "v0"])}.items():
            want = conv_protocol(ca, pa, cb, pb, vals)
            pr = cxx.run_driver(exe_new, ["Evo", "bin", "bin"] + args, ca.encode_stream(pa, sa, vals), "plain")
            ctx.ev()
            ctx.count("numconv.fits")
            ctx.case(("numconv", name, direction))
            if not judge(ctx, cb, pb, [want], pr, sb, "integer conversions, boundary values that fit (%s), %s" % (name, direction), {"case_dir": base}, direction + ":numconv", alternatives=True):
                bad = True
    for o, n in pairs:
        for direction, (src, dst, ca, pa, sa, args) in {"read-old": (o, n, co, po, sch_old, []), "write-old": (n, o, cn, pn, sch_new, ["--version", "v0"])}.items():
            outs = [v for v in (INT_RANGE[src][1], INT_RANGE[src][0]) if not INT_RANGE[dst][0] <= v <= INT_RANGE[dst][1]]
            for v in outs:
                one = rec(lambda a, b: v if (a, b) == (o, n) else 0)
                vals = [one, [], []]
                pr = cxx.run_driver(exe_new, ["Evo", "bin", "bin"] + args, ca.encode_stream(pa, sa, vals), "plain")
                ctx.ev()
                ctx.count("numconv.overflow")
                ctx.case(("numconv-overflow", o, n, direction, v))
                what = "field %s -> %s, %s: the value %d does not fit %s" % (o, n, direction, v, dst)
                if pr.sig is not None:
                    ctx.violation("crash:%s-overflow" % direction, "%s: driver died with signal %s" % (what, pr.sig), {"case_dir": base, "stderr": pr.stderr[-500:]})
                    bad = True
                elif pr.rc == 0:
                    ctx.violation("silent-overflow:%s" % direction, "%s but was converted silently instead of raising the documented numeric-overflow error" % what, {"case_dir": base, "pair": [o, n], "value": v})
                    bad = True
    if not bad:
        shutil.rmtree(base, ignore_errors=True)


def string_to_integer_scenario(ctx, home):
    """record fields, stream items and vector items that were strings in v0 and are integers now (documented: changing between primitive types, including
    strings): a v0 string that spells a decimal integer within the new type's range is read as exactly that number - at the limits of every integer width"""
    ints = ["int8", "uint8", "int16", "uint16", "int32", "uint32", "int64", "uint64"]

    def mk(side, versions, d):
        t = lambda n: P("string") if side == 0 else P(n)
        return Pkg("Evo", [Rec("Nums", [("f" + n, t(n)) for n in ints]),
                           Proto("Evo", [("one", N("Nums")), ("many", S(N("Nums"))), ("big", t("int64")), ("items", S(t("int64"))), ("vec", V(t("uint64"))), ("end", P("int32"))])], [], versions, d)
    old = mk(0, [], "v0")
    new = mk(1, [("v0", old)], "v1")
    base = os.path.join(ctx.workdir, "cases", "strnum")
    shutil.rmtree(base, ignore_errors=True)
    opts = lambda d: emit.default_outputs(d, python=False, cpp_opts=cxx.cpp_gen_options({"generateNDJson": False}))
    common.write_tree(base, emit.package_files(new, None, opts("../out_new")))
    p1 = cli.run_cli("generate", os.path.join(base, new.dir), home)
    ctx.ev()
    if p1.rc != 0:
        ctx.violation("rejected:string-to-integer", "string -> integer changes rejected: %s" % cli.clean(p1.stderr)[:300], {"case_dir": base})
        return
    lit = lambda path: re.search(r'std::string EvoWriterBase::schema_ = R"\((.*?)\)";', open(path).read(), re.S).group(1)
    sch_new = lit(os.path.join(base, "out_new/cpp/protocols.cc"))
    sch_old = re.search(r'previous_schemas_ = \{\s*R"\((.*?)\)"', open(os.path.join(base, "out_new/cpp/protocols.cc")).read(), re.S)
    try:
        exe_new = cxx.build(os.path.join(base, "out_new/cpp"), "plain")
    except cxx.CompileError as e:
        ctx.violation("cpp-compile-failed:string-to-integer", "generated conversion code does not compile: %s" % str(e)[-400:], {"case_dir": base})
        return
    if not sch_old:
        raise common.Inconclusive("string-to-integer: the v0 schema literal was not found in the generated protocols.cc")
    co, cn = Codec(old), Codec(new)
    po, pn = old.find("Evo"), new.find("Evo")
    picks = {"max": lambda n: INT_RANGE[n][1], "min": lambda n: INT_RANGE[n][0], "small": lambda n: 7, "max-1": lambda n: INT_RANGE[n][1] - 1, "zero": lambda n: 0}
    bad = False
    for name, f in picks.items():
        nums = [f(n) for n in ints]
        b64, u64 = f("int64"), f("uint64")
        vo = [[str(x) for x in nums], [[str(x) for x in nums], ["0"] * len(ints)], str(b64), [str(b64), "5000000000", "-5000000000", "42"], [str(u64), "18446744073709551615", "4294967296"], 3]
        want = [nums, [nums, [0] * len(ints)], b64, [b64, 5000000000, -5000000000, 42], [u64, 18446744073709551615, 4294967296], 3]
        for bufs in (None, "4"):
            pr = cxx.run_driver(exe_new, ["Evo", "bin", "bin"] + (["--bufs", bufs] if bufs else []), co.encode_stream(po, sch_old.group(1), vo), "plain")
            ctx.ev()
            ctx.count("string-to-integer.read-old")
            ctx.case(("string-to-integer", name, bufs))
            if not judge(ctx, cn, pn, [want], pr, sch_new, "v0 strings that spell integers at the limits of every width (%s), read by the newest reader (batch capacity %s)" % (name, bufs or 1), {"case_dir": base}, "read-old:strnum", alternatives=True):
                bad = True
    if not bad:
        shutil.rmtree(base, ignore_errors=True)


def imported_record_scenario(ctx, home):
    """the record that changed since v0 is defined in an imported package (the previous version imports the previous version of that package)"""
    def lib(fields, d):
        return Pkg("Lib", [Rec("Pt", fields)], [], [], d)
    f = lambda n: (n, P("float32"))
    lib_old, lib_new = lib([f("x"), f("y"), f("z"), ("n", P("string"))], "lib_v0"), lib([f("x"), f("y"), ("n", P("string"))], "lib")
    proto = lambda: Proto("Evo", [("p", N("Pt", (), "Lib")), ("s", S(N("Pt", (), "Lib"))), ("end", P("int32"))])
    app_old = Pkg("App", [proto()], [lib_old], [], "app_v0")
    app_new = Pkg("App", [proto()], [lib_new], [("v0", app_old)], "app")
    base = os.path.join(ctx.workdir, "cases", "imported_record")
    shutil.rmtree(base, ignore_errors=True)
    common.write_tree(base, emit.package_files(app_new, None, emit.default_outputs("../out_new", python=False, cpp_opts=cxx.cpp_gen_options({"generateNDJson": False}))))
    common.write_tree(os.path.join(base, "solo"), emit.package_files(app_old, None, emit.default_outputs("../out_old", python=False, cpp_opts=cxx.cpp_gen_options({"generateNDJson": False}))))
    p1 = cli.run_cli("generate", os.path.join(base, app_new.dir), home)
    p0 = cli.run_cli("generate", os.path.join(base, "solo", app_old.dir), home)
    ctx.ev(2)
    ctx.case(("imported-record",))
    if p1.rc != 0 or p0.rc != 0:
        ctx.violation("rejected:imported-record-evolution", "removing a field of an imported record rejected: %s" % cli.clean(p1.stderr + p0.stderr)[:300], {"case_dir": base})
        return
    try:
        exe_new = cxx.build(os.path.join(base, "out_new/cpp"), "plain")
    except cxx.CompileError as e:
        errs = re.findall(r"^[^\n]*error:[^\n]*", str(e), re.M)
        ctx.violation("cpp-compile-failed:evolution-of-imported-record", "the compatibility code generated for an accepted change of an imported record does not compile: %s" % [x[-160:] for x in errs[:2]], {"case_dir": base})
        return
    lit = lambda path: re.search(r'std::string EvoWriterBase::schema_ = R"\((.*?)\)";', open(path).read(), re.S).group(1)
    sch_old, sch_new = lit(os.path.join(base, "solo/out_old/cpp/protocols.cc")), lit(os.path.join(base, "out_new/cpp/protocols.cc"))
    co, cn = Codec(app_old), Codec(app_new)
    po, pn = app_old.find("Evo"), app_new.find("Evo")
    vo = values.ValueGen(co, rng("C05imp"), quiet_nan_only=True, max_len=4).steps(po, stream_len=3)
    pr = cxx.run_driver(exe_new, ["Evo", "bin", "bin"], co.encode_stream(po, sch_old, vo), "plain")
    ctx.ev()
    if judge(ctx, cn, pn, conv_protocol(co, po, cn, pn, vo), pr, sch_new, "imported record changed since v0: v0 stream read by the newest reader", {"case_dir": base}, "read-old"):
        shutil.rmtree(base, ignore_errors=True)


def repo_models(ctx, home):
    """the repository's own evolution models: every version generates, and v2's reader accepts streams of v0/v1 written by their own generated writers"""
    base = os.path.join(ctx.workdir, "cases", "repo_evolution")
    shutil.rmtree(base, ignore_errors=True)
    shutil.copytree(os.path.join(common.REPO, "models", "evolution"), os.path.join(base, "evolution"))
    for v in ("model_v0", "model_v1", "model_v2"):
        mp = os.path.join(base, "evolution", v, "_package.yml")
        import re
        man = re.sub(r"(?m)^cpp:\n(  .*\n)*", "", open(mp).read())
        man += "\ncpp:\n  sourcesOutputDir: ../../out_%s\n  generateHDF5: false\n  generateCMakeLists: false\n  generateNDJson: false\n  overrideArrayHeader: %s\n" % (v, cxx.ARRAY_HEADER)
        open(mp, "w").write(man)
        p = cli.run_cli("generate", os.path.join(base, "evolution", v), home)
        ctx.ev()
        ctx.case(("repo", v))
        if p.rc != 0:
            ctx.violation("repo-model-rejected", "models/evolution/%s: %s" % (v, cli.clean(p.stderr)[:300]), {"case_dir": base})
            return
        try:
            cxx.build(os.path.join(base, "out_" + v), "plain")
            ctx.count("repo-model-compiled")
        except cxx.CompileError as e:
            ctx.violation("cpp-compile-failed:repo-evolution", "models/evolution/%s generated code does not compile: %s" % (v, str(e)[-500:]), {"case_dir": base})
            return
    shutil.rmtree(base, ignore_errors=True)


def replay(ctx, path):
    print(json.dumps(json.load(open(path)), indent=1, default=str)[:3000])
    run(ctx)
