"""C10 - the front end is total: any input gives success or located diagnostics.

Workload: one child process per (input, command in {validate, generate}); inputs = raw bytes, text/YAML
level mutations of valid documents (hostile scalars, tag swaps, deleted/duplicated/re-indented lines,
anchors/aliases/merge keys, alias bombs, deep nesting, 10 kB names, byte noise, truncation),
semantically arbitrary models (dangling names, cycles, wrong arity, random computed-field expressions),
manifest mutations, oversized generic nesting.
Monitor: exit status, signal, stderr classification, child CPU seconds and peak RSS (rusage).
Oracle: exit in {0,1}; no Go panic / fatal error; CPU < 20 s, RSS < 2 GiB; exit 1 => >= 1 error that names
an existing file of the package tree (or the path a manifest entry points to); a diagnostic naming a model
file carries a line number; validate and generate agree."""
from __future__ import annotations

import os
import shutil

from vlib import cli, common, corpus, emit, evo, fuzzgen, modelgen
from vlib.common import pmap, rng, Inconclusive
from vlib.model import *  # noqa

LEVEL = "exploration"
FLOOR = {"quick": 3000, "thorough": 100000}
RSS_LIMIT_KB = 2 * 1024 * 1024


def judge(ctx, case_dir, pkgdir, kind, desc, procs: dict, overrides=False):
    """procs: {"validate": Proc, "generate": Proc}"""
    rcs = {}
    for cmd, p in procs.items():
        ctx.ev()
        sig = msg = None
        if p.timed_out:
            raise Inconclusive("wall-clock watchdog fired on %s" % case_dir)
        site = cli.panic_site(p.stderr)
        if p.cpu_exceeded or p.cpu_s > common.CPU_LIMIT_S:
            sig, msg = "hang:%s" % kind, "CPU %.1fs exceeds the %ds bound (does not terminate promptly)" % (p.cpu_s, common.CPU_LIMIT_S)
        elif p.maxrss_kb > RSS_LIMIT_KB:
            sig, msg = "memory:%s" % kind, "peak RSS %d MiB" % (p.maxrss_kb // 1024)
        elif site is not None:
            sig, msg = "panic@%s" % site, "Go panic / fatal error: %s" % cli.clean(p.stderr)[:400]
        elif p.sig is not None:
            sig, msg = "signal%d:%s" % (p.sig, kind), "killed by signal %d" % p.sig
        elif p.rc not in (0, 1):
            sig, msg = "exit%s:%s" % (p.rc, kind), "exit status %s: %s" % (p.rc, cli.clean(p.stderr)[:300])
        elif p.rc == 1:
            diags = [d for d in cli.parse_diags(p.stderr) if d.level == "error"]
            if not diags:
                sig, msg = "no-error-line:%s" % kind, "exit 1 without an error line: %r" % cli.clean(p.stderr)[:300]
            elif not overrides:
                root = os.path.dirname(pkgdir)
                located = False
                for d in diags:
                    if d.file and os.path.exists(d.file):
                        located = True
                        if not d.file.endswith("_package.yml") and d.line is None and not any(k in d.text for k in ENCODING_LEVEL) \
                                and not (": yaml: " in d.text and first_line_syntax_error(d.file)):
                            sig, msg = "no-line:%s" % noline_class(d.text), "diagnostic names a model file without a line number: %s" % d.text[:300]
                    elif names_manifest_target(d.text, pkgdir) or names_some_path(d.text):
                        located = True
                if not located and sig is None:
                    sig, msg = "unlocated:%s" % unlocated_class(diags[0].text), "no error names a file of the package: %s" % diags[0].text[:300]
        rcs[cmd] = (p.rc, p.sig)
        ctx.count("rc.%s.%s" % (cmd, p.rc if p.sig is None else "sig%d" % p.sig))
        if sig:
            ctx.violation(sig, "%s [%s, %s]: %s" % (desc, kind, cmd, msg),
                          {"case_dir": case_dir, "pkgdir": pkgdir, "cmd": cmd, "kind": kind, "proc": p.brief(), "keep": True})
    gen_diag_is_validation = "generate" in procs and any(d.file for d in cli.parse_diags(procs["generate"].stderr) if d.level == "error")
    if len(rcs) == 2 and rcs["validate"] != rcs["generate"] and all(v[1] is None and v[0] in (0, 1) for v in rcs.values()) \
            and (rcs["generate"][0] == 0 or gen_diag_is_validation):
        ctx.violation("verdict-mismatch:%s" % kind, "%s: validate -> %s but generate -> %s" % (desc, rcs["validate"], rcs["generate"]),
                      {"case_dir": case_dir, "pkgdir": pkgdir, "keep": True})


def names_some_path(text: str) -> bool:
    """the message names a file-system location: an absolute path that exists or whose parent exists"""
    import re
    for m in re.finditer(r"'(/[^']*)'|\"(/[^\"]*)\"|(/[^\s:'\"]+)", text):
        p = m.group(1) or m.group(2) or m.group(3)
        if p and (os.path.exists(p) or os.path.isdir(os.path.dirname(p.rstrip("/")) or "/")):
            return True
    return False


def first_line_syntax_error(path: str) -> bool:
    """yaml.v3 prints no 'line N' for a syntax error on the first line. An independent libyaml port
    (PyYAML of the system python) tells where the first syntax error is; only then is the missing
    line number excused."""
    code = ("import sys,yaml\n"
            "try:\n    list(yaml.compose_all(open(sys.argv[1],'rb')))\n    print('ok')\n"
            "except yaml.MarkedYAMLError as e:\n    m=e.problem_mark or e.context_mark\n    print(m.line if m else -1)\n"
            "except Exception as e:\n    print(-1)\n")
    p = common.run(["/usr/bin/python3", "-c", code, path], cpu_s=20)
    out = p.stdout.strip()
    if out in ("0", "-1", "ok", ""):
        return True
    # PyYAML only warns about an unknown %DIRECTIVE and reports a later error; yaml.v3 stops at the directive. If the file *starts*
    # with such a directive the problem is on the first line as well.
    try:
        with open(path, "rb") as f:
            return f.read(1) == b"%"
    except OSError:
        return False


ENCODING_LEVEL = ("unknown anchor", "control characters are not allowed", "invalid leading UTF-8", "invalid trailing UTF-8", "incomplete UTF-8", "invalid Unicode",
                  "byte order mark", "BOM", "special characters are not allowed")


def noline_class(text: str) -> str:
    for k in ("math/big", "cannot unmarshal", "strconv"):
        if k in text:
            return k.replace("/", "-").replace(" ", "-")
    return "other"


def unlocated_class(text: str) -> str:
    t = text.lower()
    for k in ("not found", "invalid path", "scheme", "cycle", "duplicate", "config key", "parse", "git", "depth", "namespace"):
        if k in t:
            return k.replace(" ", "-")
    return "other"


def names_manifest_target(text: str, pkgdir: str) -> bool:
    """true if the message mentions the path/URL a manifest entry (imports/versions) refers to"""
    try:
        man = open(os.path.join(pkgdir, "_package.yml"), encoding="utf-8", errors="replace").read()
    except OSError:
        return False
    import re
    for tok in re.findall(r"[^\s\[\],{}:'\"-][^\s\[\],{}'\"]*", man):
        if len(tok) >= 2 and tok in text:
            return True
        ap = os.path.normpath(os.path.join(pkgdir, tok))
        if len(tok) >= 2 and ap in text:
            return True
    return False


def base_packages(n):
    out = []
    for i in range(n):
        pkg = modelgen.gen_corpus_package("c10b%d_%d" % (common.seed(), i), modelgen.GenOpts(max_depth=2, n_defs=(2, 5), computed=False), with_import=(i % 3 == 0))
        out.append(pkg)
    return out


def _tagkind_catalogue():
    """YAML nodes whose explicit tag disagrees with their kind (a mapping tagged !!seq, a sequence tagged !record, ...) and null / empty nodes
    at every position where the model syntax expects a mapping, a sequence or a type."""
    nodes = ["[a]", "{a: b}", "x", "~", "''", "[]", "{}", "[[a]]", "- a"]
    tags = ["!!seq", "!!map", "!!str", "!!int", "!!null", "!record", "!enum", "!flags", "!protocol", "!generic", "!vector", "!array", "!map", "!union", "!stream", "!switch", "!"]
    out = []
    for t in tags:
        for n in nodes:
            v = "%s %s" % (t, n) if n != "- a" else "%s\n  - a" % t
            out.append("X: %s\n" % v)                                                                   # definition
            out.append("R: !record\n  fields:\n    f: %s\n" % v.replace("\n", "\n    "))                  # field type
            out.append("P: !protocol\n  sequence:\n    s: %s\n" % v.replace("\n", "\n    "))             # step type
    for t in ["!!seq", "!!map", "!!str", "!!null", "!"]:
        for n in ["[a]", "{a: 1}", "x", "~"]:
            v = "%s %s" % (t, n)
            out.append("R: !record\n  fields: %s\n" % v)
            out.append("R: !record\n  fields:\n    f: int\n  computedFields: %s\n" % v)
            out.append("R: !record\n  fields:\n    f: int\n  computedFields:\n    c: %s\n" % v)
            out.append("E: !enum\n  values: %s\n" % v)
            out.append("E: !enum\n  base: %s\n  values: [a]\n" % v)
            out.append("P: !protocol\n  sequence: %s\n" % v)
            out.append("R: !record\n  fields:\n    f: !array {items: int, dimensions: %s}\n" % v)
            out.append("R: !record\n  fields:\n    f: !vector {items: int, length: %s}\n" % v)
            out.append("G<T>: !record\n  fields:\n    a: T\nR: !record\n  fields:\n    f: !generic {name: G, args: %s}\n" % v)
            out.append("G<T>: !record\n  fields:\n    a: T\nR: !record\n  fields:\n    f: !generic {name: %s, args: [int]}\n" % v)
            out.append("R: !record\n  fields:\n    f: !map {keys: %s, values: int}\n" % v)
            out.append("R: !record\n  fields:\n    f: !union {a: %s, b: int}\n" % v)
            out.append("R: !record\n  fields:\n    f: !union %s\n" % v)
    # a type written as a sequence of one element ("a union of one type"), around every kind of type, wherever a type can stand: whatever the validator makes
    # of it, no later pass may assume that the element is a plain name
    for inner in ["int", "int*", "'int[2]'", "'int[]'", "string->int", "Rec1", "!vector {items: int}", "!array {items: int}", "[int]", "int?", "!stream {items: int}"]:
        t1 = "[%s]" % inner
        rec = "Rec1: !record\n  fields:\n    q: int\n"
        for use in ["R: !record\n  fields:\n    f: %s\n", "R: !record\n  fields:\n    f: !union {v: %s, s: string}\n", "R: !record\n  fields:\n    f: [%s, string]\n",
                    "R: !record\n  fields:\n    f: !vector {items: %s}\n", "R: !record\n  fields:\n    f: !map {keys: string, values: %s}\n", "R: !record\n  fields:\n    f: [null, %s]\n",
                    "P: !protocol\n  sequence:\n    s: %s\n", "P: !protocol\n  sequence:\n    s: !stream {items: %s}\n", "X: %s\n",
                    "'G<T>': !record\n  fields:\n    a: T\nR: !record\n  fields:\n    f: !generic {name: G, args: [%s]}\n"]:
            out.append(rec + use % t1 + ("P2: !protocol\n  sequence:\n    r: R\n" if use.startswith("R:") else ""))
    # reference cycles between aliases, used where a pass unwraps aliases
    cyc = "CyA: CyB\nCyB: CyA\n"
    for use in ["R: !record\n  fields:\n    f: !map {keys: CyA, values: int}\n", "R: !record\n  fields:\n    f: !map {keys: string, values: CyA}\n",
                "E: !enum\n  base: CyA\n  values: [a]\n", "F: !flags\n  base: CyB\n  values: [a]\n", "R: !record\n  fields:\n    f: [CyA, int]\n",
                "R: !record\n  fields:\n    f: [null, CyA]\n", "R: !record\n  fields:\n    f: CyA*\n", "R: !record\n  fields:\n    f: 'CyA[2]'\n",
                "G<T>: !record\n  fields:\n    a: T\nR: !record\n  fields:\n    f: G<CyA>\n", "R: !record\n  fields:\n    f: CyA\n  computedFields:\n    c: f + 1\n",
                "R: !record\n  fields:\n    f: CyA\n  computedFields:\n    c:\n      !switch f:\n        int i: i\n        _: 0\n",
                "R: !record\n  fields:\n    f: CyA\n  computedFields:\n    c: f[0]\n", "R: !record\n  fields:\n    f: CyA\n  computedFields:\n    c: size(f)\n",
                "P: !protocol\n  sequence:\n    s: !stream {items: CyA}\n", "CyC: CyC\nR: !record\n  fields:\n    f: !map {keys: CyC, values: int}\n",
                "CyD: CyD?\nE: !enum\n  base: CyD\n  values: [a]\n"]:
        out.append(cyc + use)
        out.append(use + cyc)
    # computed fields of a record written in flow style on the first line of the file (expression nodes on line 1)
    for ex in ["a + 1", "a - (a - 1)", "v[0]", "v[5]", "size(v)", "a as float", "nope", "a + s", "m['k']", "m[1]", "-a", "a ** 2", "(a)"]:
        out.append("R: !record {fields: {a: int, v: int*3, s: string, m: string->int}, computedFields: {c: \"%s\"}}\n" % ex.replace('"', "'"))
        out.append("R: !record {fields: {a: int, v: int*3, s: string, m: string->int}, computedFields: {c: !switch {a: {int x: \"%s\"}}}}\n" % ex.replace('"', "'"))
    # head comments of every shape in front of every kind of node
    for cm in ["#", "#\n#", "# a\n#\n# b", "#\n# b", "# a\n#", "##", "#!", "# \t", "#\t", "#" + " " * 200, "#" * 300, "# " + "x" * 5000, "#\n\n#", "# é😀", "#\r", "# a\\"]:
        def c(ind):
            return "".join(ind + l + "\n" for l in cm.split("\n"))
        out.append(c("") + "E: !enum\n  values:\n" + c("    ") + "    one: 1\n" + c("") + "A: int*\n" + c("") + "R: !record\n  fields:\n" + c("    ") + "    a: int\n" + c("    ") +
                   "    arr: !array\n      items: float\n      dimensions:\n" + c("        ") + "        x:\n  computedFields:\n" + c("    ") + "    twice: a * 2\n" +
                   c("") + "P: !protocol\n  sequence:\n" + c("    ") + "    s: R\n")
    # identifiers at the limits of the name grammar: long digit runs (beyond int64 when read as a number), 64 characters, digit/letter alternation
    digits = ["1", "007", "20240924153000123456", "9" * 19, "9" * 20, "1" + "0" * 25, "18446744073709551616", "0" * 30]
    for dg in digits:
        for stem in ["scan%s", "x%s", "aB%s", "a%sb%sc", "ab%sCd", "a1b2c3d%s"]:
            nm = (stem % ((dg,) * stem.count("%s")))[:64]
            Nm = nm[0].upper() + nm[1:]
            out.append("%s: !record\n  fields:\n    %s: int\n    other: %s?\n  computedFields:\n    c%s: %s + 1\n"
                       "E%s: !enum\n  values: [%s, v%s]\nP%s: !protocol\n  sequence:\n    %s: %s\n    s%s: !stream {items: E%s}\n" % (
                           Nm, nm, "int", nm[:60], nm, Nm[:60], nm, nm[:60], Nm[:60], nm, Nm, nm[:60], Nm[:60]))
    return out


TAGKIND = _tagkind_catalogue()


def _manifest_tagkind_catalogue():
    """_package.yml entries whose explicit tag contradicts the kind of the node (`versions: !!map [a]`), at every key of the manifest"""
    out = []
    nodes = ["[a]", "{a: b}", "x", "~", "''", "[]", "{}", "[[a]]", "{a: [b]}", "[{a: b}]"]
    tags = ["!!seq", "!!map", "!!str", "!!int", "!!null", "!!bool", "!"]
    keys = ["namespace", "imports", "versions", "cpp", "python", "matlab", "json"]
    for k in keys:
        for t in tags:
            for n in nodes:
                head = "" if k == "namespace" else "namespace: %(ns)s\n"
                out.append(head + "%s: %s %s\n" % (k, t, n))
    for sec, sub in [("cpp", "sourcesOutputDir"), ("cpp", "generateHDF5"), ("python", "outputDir"), ("python", "generateNDJson"), ("json", "outputDir"), ("matlab", "outputDir")]:
        for t in tags:
            for n in nodes[:6]:
                out.append("namespace: %%(ns)s\n%s:\n  %s: %s %s\n" % (sec, sub, t, n))
    for t in tags:
        for n in nodes[:6]:
            out.append("namespace: %%(ns)s\nimports:\n  - %s %s\n" % (t, n))
            out.append("namespace: %%(ns)s\nversions:\n  v0: %s %s\n" % (t, n))
            out.append("namespace: %%(ns)s\nversions:\n  %s %s: ../v0\n" % (t, n if not n.startswith(("[", "{")) else "x"))
    out.append("%s %s\n" % ("!!seq", "{namespace: %(ns)s}"))
    out.append("%s %s\n" % ("!!map", "[namespace, %(ns)s]"))
    out.append("!!str {namespace: %(ns)s}\n")
    # the same target named twice (../dupdep is a valid package written next to the package for these cases)
    for imp in ["[../dupdep, ../dupdep]", "[../dupdep, ../dupdep/, ../dupdep]", "[../dupdep, ./../dupdep]"]:
        out.append("namespace: %%(ns)s\nimports: %s\n" % imp)
    out.append("namespace: %(ns)s\nimports:\n  - ../dupdep\nversions:\n  v1_0: ../dupdep\n")
    out.append("namespace: %(ns)s\nversions:\n  v1_0: .\n  v1_1: .\n")
    out.append("namespace: %(ns)s\nversions:\n  v1_0: .\n  v1_1: ./\n  v1_2: .\n")
    out.append("namespace: %(ns)s\nversions: {a: ., b: ., c: .}\nimports: [../dupdep, ../dupdep]\n")
    return out


MTAGKIND = _manifest_tagkind_catalogue()


def _deep_catalogue():
    """valid models whose naive (un-memoised) processing is exponential in the length of a chain"""
    out = []
    for depth in (8, 16, 24, 32, 48):
        # computed fields that use the computed field of the previous record twice
        m = "R0: !record\n  fields:\n    x: int\n  computedFields:\n    v: x\n"
        for k in range(1, depth + 1):
            m += "R%d: !record\n  fields:\n    r: R%d\n  computedFields:\n    v: r.v + r.v\n" % (k, k - 1)
        out.append(("computed field of the previous record used twice, %d records" % depth, m + "P: !protocol\n  sequence:\n    s: R%d\n" % depth))
        # computed fields of one record, each using the previous one twice
        m = "R: !record\n  fields:\n    x: int\n  computedFields:\n    k0: x\n" + "".join("    k%d: k%d + k%d\n" % (k, k - 1, k - 1) for k in range(1, depth + 1))
        out.append(("computed field using the previous one twice, %d fields" % depth, m + "P: !protocol\n  sequence:\n    s: R\n"))
        # records holding the previous record twice; aliases of aliases; optionals / vectors of the previous alias
        m = "D0: !record\n  fields:\n    x: int\n" + "".join("D%d: !record\n  fields:\n    a: D%d\n    b: D%d\n" % (k, k - 1, k - 1) for k in range(1, depth + 1))
        out.append(("record holding the previous record twice, %d records" % depth, m + "P: !protocol\n  sequence:\n    s: !stream {items: D%d}\n" % depth))
        m = "A0: int\n" + "".join("A%d: %s\n" % (k, ["A%d", "A%d?", "A%d*", "'string->A%d'"][k % 4] % (k - 1)) for k in range(1, depth + 1))
        out.append(("alias chain, %d aliases" % depth, m + "P: !protocol\n  sequence:\n    s: A%d\n" % depth))
        m = "U0: !record\n  fields:\n    x: int\n" + "".join("U%d: !record\n  fields:\n    u: [U%d, string]\n    o: U%d?\n  computedFields:\n    c:\n      !switch u:\n        U%d p: 1\n        string s: 2\n" % (k, k - 1, k - 1, k - 1) for k in range(1, depth + 1))
        out.append(("unions / switches over the previous record, %d records" % depth, m + "P: !protocol\n  sequence:\n    s: U%d\n" % depth))
    return out


DEEP = _deep_catalogue()


def run(ctx):
    common.build_yardl()
    quick = ctx.tier == "quick"
    N = {"bytes": 300, "mutate": 1100, "arbitrary": 450, "manifest": 300, "nest": 12} if quick else \
        {"bytes": 10000, "mutate": 60000, "arbitrary": 25000, "manifest": 8000, "nest": 40}
    ctx.rule = ("one child process per (input, command): raw bytes, 12 text/YAML-level mutation operators on valid generated packages (model files, "
                "imported package files), semantically arbitrary models, manifest mutations, oversized generic nesting. "
                "distinct = sha256 of the mutated file set; non-trivial = differs from the valid base.")
    ctx.assumptions = ["HOME points to a scratch directory (yardl creates ~/.yardl/cache)", "no network: git/https imports only appear as hostile manifest values",
                       "line numbers are demanded only for diagnostics naming model files (not _package.yml); whole-file encoding errors of the YAML reader (control characters, invalid UTF-8) are exempt",
                       "an error 'names a file' if it mentions an existing file of the tree, the target of a manifest entry, or an absolute path whose parent directory exists",
                       "errors about -c overrides are exempt from naming a file"]
    bases = base_packages(12 if quick else 60)
    outs = emit.default_outputs("../out", matlab=True, json=True)
    base_files = [emit.package_files(p, corpus.style_for("c10%d" % i), outs) for i, p in enumerate(bases)]
    home = os.path.join(ctx.workdir, "home")
    os.makedirs(home, exist_ok=True)
    jobs = []
    r0 = rng("C10")
    for i in range(N["bytes"]):
        jobs.append(("bytes", i))
    for i in range(N["mutate"]):
        jobs.append(("mutate", i))
    for i in range(N["arbitrary"]):
        jobs.append(("arbitrary", i))
    for i in range(N["manifest"]):
        jobs.append(("manifest", i))
    for i in range(N["nest"]):
        jobs.append(("nest", i))
    for i in range(14):
        jobs.append(("cycle", i))
    for i in range(len(TAGKIND)):
        jobs.append(("tagkind", i))
    for i in range(len(DEEP)):
        jobs.append(("deep", i))
    for i in range(len(MTAGKIND)):
        jobs.append(("mtagkind", i))
    # packages with a previous version: every documented kind of change (compatible, partial, breaking), only totality is judged here
    for i in range(3 * len(evo.ALL_EDITS) if quick else 40 * len(evo.ALL_EDITS)):
        jobs.append(("evolve", i))
    # every catalogue expression, alone, on a record whose fields have known types (plus seeded compositions)
    # every rule-violating type construct of C09's catalogue at every position, alone and together with a second, definition-level violation:
    # validation goes on after the first error, so every later pass sees trees that earlier passes have already rejected
    from props import C09 as rules
    RULES = [(rid, ty, pos, None) for rid, _, ty, _ in rules.TYPE_RULES for pos in rules.POSITIONS]
    RULES += [(rid, ty, pos, d) for k, ((rid, _, ty, _), pos) in enumerate((t, pos) for t in rules.TYPE_RULES for pos in rules.POSITIONS)
              for j, (_, _, d) in enumerate(rules.DEF_RULES) if "Lib." not in d and "\n---\n" not in d and (not quick or (k * 7 + j) % 53 == 0)]
    for i in range(len(RULES)):
        jobs.append(("rules", i))
    # ordered pairs of types that differ in one attribute (fixed / open length, rank, dimension names, key type, optionality, element type), put where
    # yardl has to compare them: two cases of one union, the same tag in two unions, a field before / after a version change
    NEAR = ["int*", "int*3", "int*4", "long*", "int[]", "int[,]", "int[x]", "int[x, y]", "int[3]", "int[3, 4]", "int[x:3]", "string->int", "int->int", "int?", "int", "NRec", "NRec*", "NRec*2", "float[3]", "float[x]",
            # containers of containers and unions with a single case (a "scalar" whose type has exactly one case), plain and optional at every level
            "int**", "int*?*", "int**?", "int?**", "string->int*", "string->int*?", "int[]*", "!union {count: int}", "!union {count: NRec}", "!vector {items: !union {only: int}}",
            "!vector {items: [null, !vector {items: int}]}", "!map {keys: string, values: !vector {items: int}}", "!array {items: !vector {items: int}}"]
    NEARPAIRS = [(a, b, ctxk) for a in NEAR for b in NEAR if a != b for ctxk in ("cases", "tags", "evolve", "switch")]
    if quick:
        NEARPAIRS = [x for i, x in enumerate(NEARPAIRS) if i % 3 == 0]
    for i in range(len(NEARPAIRS)):
        jobs.append(("nearpair", i))
    # degenerate version pairs: one side defines nothing, only types, only protocols
    EVOSHAPES = {"nothing": "# nothing here\n", "only-alias": "A: int\n", "only-record": "R: !record\n  fields:\n    a: int\n",
                 "only-protocol": "P: !protocol\n  sequence:\n    a: int\n", "two-protocols": "P: !protocol\n  sequence:\n    a: int\nQ: !protocol\n  sequence:\n    r: string\n",
                 "protocol-and-record": "R: !record\n  fields:\n    a: int\nP: !protocol\n  sequence:\n    a: R\n"}
    EVOPAIRS = [(a, b) for a in EVOSHAPES for b in EVOSHAPES]
    for i in range(len(EVOPAIRS)):
        jobs.append(("evoshape", i))
    # types that contain themselves through constructs of an *imported* package (a generic record, generic aliases of every body shape, two imports nested),
    # directly, through optional / vector / map / union / array wrappers, and mutually; all targets generated
    XLIB = ("Box<T>: !record\n  fields:\n    item: T\n    n: int\nSame<T>: T\nMaybe<T>: T?\nMany<T>: T*\nBoxed<T>: Box<T>\nKeyed<T>: string->T\nEither<T>: [T, string]\n"
            "Pair<A, B>: !record\n  fields:\n    a: A\n    b: B\n")
    XLIB2 = "Wrap<T>: !record\n  fields:\n    inner: T?\n"
    XUSES = ["Lib.Box<Node>", "Lib.Box<Node>?", "Lib.Box<Node>*", "Lib.Same<Node>", "Lib.Maybe<Node>", "Lib.Many<Node>", "Lib.Boxed<Node>", "Lib.Keyed<Node>", "Lib.Either<Node>",
             "Lib.Pair<int, Node>", "Lib.Pair<Node, Node>", "Lib.Box<Lib2.Wrap<Node>>", "Lib2.Wrap<Lib.Box<Node>>", "string->Lib.Box<Node>", "[int, Lib.Box<Node>]", "[null, int, Lib.Box<Node>]",
             "Lib.Box<Node>[]", "Lib.Box<Node>[2]", "Lib.Box<Node*>", "Lib.Box<Node?>", "Lib.Box<string->Node>", "Lib.Box<[Node, int]>", "Lib.Box<Lib.Box<Lib.Box<Node>>>", "Lib.Box<Other>"]
    XFORMS = ["field", "alias", "step", "computed"]
    XJOBS = [(u, f) for u in XUSES for f in XFORMS]
    for i in range(len(XJOBS)):
        jobs.append(("xcycle", i))
    for i in range(42):
        jobs.append(("anchors", i))
    n_expr = len(fuzzgen.EXPRS) + (60 if quick else 2000)
    for i in range(n_expr):
        jobs.append(("expr", i))

    def one(job):
        kind, i = job
        r = rng("C10", kind, i)
        bi = r.randrange(len(bases))
        pkg, files = bases[bi], dict(base_files[bi])
        root_rel = pkg.dir
        desc = "%s#%d" % (kind, i)
        if kind == "bytes":
            target = r.choice([k for k in files if k.endswith(".yml")])
            files[target] = fuzzgen.random_bytes(r)
            desc += " raw bytes in %s" % target
        elif kind == "mutate":
            cands = [k for k in files if k.endswith("model.yml")]
            target = r.choice(cands)
            t = files[target]
            for _ in range(r.choice([1, 1, 1, 2, 3])):
                t = fuzzgen.mutate_text(t, r)
            files[target] = t.encode("utf-8", "surrogateescape") if isinstance(t, str) else t
            desc += " text mutation of %s" % target
        elif kind == "tagkind":
            files = {k: v for k, v in files.items() if not k.startswith(root_rel + "/") or k.endswith("_package.yml")}
            files[root_rel + "/model.yml"] = TAGKIND[i]
            desc += " tag/kind mismatch `%s`" % TAGKIND[i].replace("\n", " | ")[:90]
        elif kind == "evolve":
            base_pkg = evo.evo_base("c10evo_%d_%d" % (common.seed(), i % 7))
            edit = evo.ALL_EDITS[i % len(evo.ALL_EDITS)]
            newer, info = evo.apply_edit(base_pkg, edit, r)
            if newer is None:
                ctx.count("evolve.not-applicable")
                return
            base_pkg.dirname, newer.dirname = "v0", "v1"
            outs = emit.default_outputs("../out", matlab=True, json=True)
            files = evo.chain_files([base_pkg, newer], outs)
            root_rel = "v1"
            if i % 3 == 1:
                # the same previous version listed under two labels (two releases that did not touch this package)
                files["v1/_package.yml"] = files["v1/_package.yml"].replace("  v0: ../v0\n", "  v0: ../v0\n  v0_1: ../v0\n")
                desc += " (the previous version listed under two labels)"
            elif i % 3 == 2:
                files["v1/_package.yml"] = files["v1/_package.yml"].replace("  v0: ../v0\n", "  v0: ../v0\n  again: ../v0/../v0\n  third: ../v0\n")
                desc += " (the previous version listed under three labels, one through another path spelling)"
            desc += " previous version + edit %s" % info["name"]
        elif kind == "rules":
            rid, ty, pos, second = RULES[i]
            files = {root_rel + "/_package.yml": files[root_rel + "/_package.yml"] if (root_rel + "/_package.yml") in files and "imports" not in files[root_rel + "/_package.yml"] else "namespace: %s\njson:\n  outputDir: ../out/json\n" % pkg.ns,
                     root_rel + "/model.yml": rules.HELPERS + rules.embed(pos, ty, "Inj") + (second or "")}
            desc += " rule construct %s at position %s%s" % (rid, pos, " + a second violating definition" if second else "")
        elif kind == "evoshape":
            a, b = EVOPAIRS[i]
            files = {root_rel + "/_package.yml": "namespace: %s\nversions:\n  v0: ../evoold\njson:\n  outputDir: ../out/json\ncpp:\n  sourcesOutputDir: ../out/cpp\n  generateCMakeLists: false\n" % pkg.ns,
                     root_rel + "/model.yml": EVOSHAPES[b],
                     os.path.join(os.path.dirname(root_rel), "evoold/_package.yml"): "namespace: %s\n" % pkg.ns, os.path.join(os.path.dirname(root_rel), "evoold/model.yml"): EVOSHAPES[a]}
            desc += " previous version '%s', latest '%s'" % (a, b)
        elif kind == "nearpair":
            ta, tb, ctxk = NEARPAIRS[i]
            qa, qb = [t if t.startswith("!") else "'%s'" % t for t in (ta, tb)]
            rec = "NRec: !record\n  fields:\n    q: int\n"
            man = "namespace: %s\njson:\n  outputDir: ../out/json\npython:\n  outputDir: ../out/python\n" % pkg.ns
            if ctxk == "cases":
                body = rec + "Np: !record\n  fields:\n    u: !union {first: %s, second: %s}\n    n: [null, !union {first: %s, second: %s}]\n" % (qa, qb, qa, qb)
                files = {root_rel + "/_package.yml": man, root_rel + "/model.yml": body}
            elif ctxk == "tags":
                body = rec + "Np: !record\n  fields:\n    u: !union {first: %s, other: bool}\n    w: !union {first: %s, other: bool}\n" % (qa, qb)
                files = {root_rel + "/_package.yml": man, root_rel + "/model.yml": body}
            elif ctxk == "switch":
                body = rec + "Np: !record\n  fields:\n    u: !union {first: %s, second: bool}\n  computedFields:\n    c:\n      !switch u:\n        %s x: 1\n        bool y: 2\n" % (qa, tb if not tb.startswith("!") else "int")
                files = {root_rel + "/_package.yml": man, root_rel + "/model.yml": body}
            else:
                tmpl = rec + "Np: !record\n  fields:\n    f: %s\nPp: !protocol\n  sequence:\n    s: %s\n    r: Np\n    t: !stream\n      items: %s\n"
                files = {root_rel + "/_package.yml": man + "versions:\n  v0: ../nearold\n", root_rel + "/model.yml": tmpl % (qb, qb, qb),
                         os.path.join(os.path.dirname(root_rel), "nearold/_package.yml"): "namespace: %s\n" % pkg.ns, os.path.join(os.path.dirname(root_rel), "nearold/model.yml"): tmpl % (qa, qa, qa)}
            desc += " near-identical types %s / %s compared in context %s" % (ta, tb, ctxk)
        elif kind == "deep":
            files = {k: v for k, v in files.items() if not k.startswith(root_rel + "/") or k.endswith("_package.yml")}
            files[root_rel + "/model.yml"] = DEEP[i][1]
            desc += " valid model with a long dependency chain: %s" % DEEP[i][0]
        elif kind == "arbitrary":
            files[root_rel + "/model.yml"] = fuzzgen.arbitrary_defs(r, r.randint(1, 8))
            if r.random() < 0.3:
                files[root_rel + "/second.yaml"] = fuzzgen.arbitrary_defs(r, r.randint(1, 4))
        elif kind == "manifest":
            files[root_rel + "/_package.yml"] = fuzzgen.mutate_manifest(pkg.ns, r)
        elif kind == "mtagkind":
            files[root_rel + "/_package.yml"] = MTAGKIND[i] % {"ns": pkg.ns}
            files[os.path.join(os.path.dirname(root_rel), "dupdep/_package.yml")] = "namespace: DupDep\n"
            files[os.path.join(os.path.dirname(root_rel), "dupdep/d.yml")] = "DupT: int\n"
            desc += " manifest tag/kind mismatch `%s`" % MTAGKIND[i].replace("\n", " | ")[:90]
        elif kind == "xcycle":
            use, form = XJOBS[i]
            other = "Other: !record\n  fields:\n    back: Lib.Box<Node>?\n" if "Other" in use else ""
            if form == "field":
                body = "Node: !record\n  fields:\n    id: int\n    child: '%s'\n" % use
            elif form == "alias":
                body = "Node: '%s'\n" % use
            elif form == "step":
                body = "Node: !record\n  fields:\n    id: int\n    child: '%s'\nFlow: !protocol\n  sequence:\n    root: Node\n    more: !stream\n      items: '%s'\n" % (use, use)
            else:
                body = "Node: !record\n  fields:\n    id: int\n    child: '%s'\n  computedFields:\n    same: child\n    n: id + 1\n" % use
            top = os.path.dirname(root_rel)
            files = {root_rel + "/_package.yml": "namespace: %s\nimports:\n  - ../xlib\n  - ../xlib2\ncpp:\n  sourcesOutputDir: ../out/cpp\n  generateCMakeLists: false\npython:\n  outputDir: ../out/python\n"
                                                 "matlab:\n  outputDir: ../out/matlab\njson:\n  outputDir: ../out/json\n" % pkg.ns,
                     root_rel + "/model.yml": body + other,
                     os.path.join(top, "xlib/_package.yml"): "namespace: Lib\n", os.path.join(top, "xlib/l.yml"): XLIB,
                     os.path.join(top, "xlib2/_package.yml"): "namespace: Lib2\n", os.path.join(top, "xlib2/l.yml"): XLIB2}
            desc += " self-containing type through an imported construct: %s as %s" % (use, form)
        elif kind == "cycle":
            forms = [("a", "b", None), ("a", "b + 1", None), ("a", "c", "b"), ("a", "a", None), ("a", "a + 1", None)]
            pats = ["int x", "int", "_", "float y", "null", "string s"]
            if i < 5:
                x, y, z = forms[i]
                body = "    a: %s\n    b: %s\n    c: %s\n" % (y if x == "a" else "1", "a", z or "1")
            else:
                pat = pats[(i - 5) % len(pats)]
                tgt = "o" if pat in ("null",) else "u"
                other = {"int x": "float: 0", "int": "float: 0", "_": None, "float y": "int: 0", "null": "int: 0", "string s": "int: 0"}[pat]
                sw = "    a:\n      !switch %s:\n        %s: %s\n" % ("u2" if "string" in pat else tgt if tgt == "o" else "u", pat, "b" if (i // len(pats)) % 2 == 0 else "a")
                if other and not (pat == "null"):
                    sw += "        %s\n" % other.replace("float", "float" if "string" not in pat else "int")
                if pat == "null":
                    sw += "        int: 0\n"
                body = sw + "    b: a\n"
            files = {root_rel + "/_package.yml": "namespace: %s\n" % pkg.ns,
                     root_rel + "/model.yml": "Cy: !record\n  fields:\n    u: [int, float]\n    u2: [int, string]\n    o: int?\n  computedFields:\n" + body}
            desc += " computed-field cycle %d" % i
        elif kind == "expr":
            ex = fuzzgen.EXPRS[i] if i < len(fuzzgen.EXPRS) else fuzzgen.compose_expr(r)
            exq = '"' + ex.replace("\\", "\\\\").replace('"', '\\"') + '"'
            files = {root_rel + "/_package.yml": "namespace: %s\n" % pkg.ns,
                     root_rel + "/model.yml": ("Inner: !record\n  fields:\n    b: int\n    c: string\n"
                                               "TE: !record\n  fields:\n    a: 'int[x, y]'\n    b: 'int[,]'\n    v: int*\n    m: string->int\n    u: [int, string]\n    o: int?\n    r: Inner\n    f: 'float[2, 3]'\n    zz: double\n    fv: int*3\n"
                                               "  computedFields:\n    k0: 1\n    k1: k0 + 1\n    k2: %s\n" % exq)}
            desc += " computed field `%s`" % ex[:80]
        elif kind == "anchors":
            # YAML anchors nested with fan-out: anchor k holds two or three aliases of anchor k-1 (as a sequence, a mapping, record fields) - a document of a
            # few hundred bytes that denotes a tree of 2^k nodes; whatever walks it node by node without remembering where it has been does not come back
            levels = [8, 16, 24, 32, 48, 64, 128][i % 7]
            fan = 2 + (i // 7) % 2
            shape = (i // 14) % 3
            lines = ["f0: &a0 [int, float]" if shape != 2 else "F0: &a0 !record\n  fields:\n    x: int"]
            for k in range(1, levels):
                if shape == 0:
                    lines.append("f%d: &a%d [%s]" % (k, k, ", ".join(["*a%d" % (k - 1)] * fan)))
                elif shape == 1:
                    lines.append("f%d: &a%d {%s}" % (k, k, ", ".join("k%d: *a%d" % (j, k - 1) for j in range(fan))))
                else:
                    lines.append("F%d: &a%d !record\n  fields:\n%s" % (k, k, "".join("    g%d: *a%d\n" % (j, k - 1) for j in range(fan)).rstrip("\n")))
            files = {k: v for k, v in files.items() if not k.startswith(root_rel + "/") or k.endswith("_package.yml")}
            files[root_rel + "/model.yml"] = "\n".join(lines) + "\n"
            desc += " %d levels of anchors with fan-out %d (shape %d, %d bytes)" % (levels, fan, shape, len(files[root_rel + "/model.yml"]))
        elif kind == "nest":
            depth = [2, 3, 4, 5, 6, 7, 8, 9, 10, 11, 10, 11][i % 12] if i % 2 == 0 else [2, 4, 6, 8, 10, 12, 14, 16, 18, 20, 22, 24][i % 12]
            t = "int"
            for _ in range(depth):
                t = "G<%s, %s>" % (t, t) if i % 2 == 0 else "G<%s>*" % t
            gdef = '"G<T, U>": !record\n  fields:\n    a: T\n    b: U\n' if i % 2 == 0 else '"G<T>": !record\n  fields:\n    a: T\n'
            files[root_rel + "/model.yml"] = gdef + "X: !record\n  fields:\n    f: '%s'\nP: !protocol\n  sequence:\n    s: X\n" % t
            desc += " generic nesting depth %d (%d chars)" % (depth, len(t))
        case_dir = os.path.join(ctx.workdir, "cases", kind, "%06d" % i)
        common.write_tree(case_dir, files)
        pkgdir = os.path.join(case_dir, root_rel)
        key = common.sha(*[(k + "\0").encode() + (v if isinstance(v, bytes) else v.encode("utf-8", "surrogateescape")) for k, v in sorted(files.items())])
        ctx.case(key)
        ctx.count("kind." + kind)
        procs = {"validate": cli.run_cli("validate", pkgdir, home)}
        if i % 2 == 0 or kind in ("nest", "anchors", "manifest", "tagkind", "mtagkind", "rules", "nearpair", "evoshape"):
            procs["generate"] = cli.run_cli("generate", pkgdir, home)
        nviol = len(ctx.violations) + sum(v["n"] for v in ctx.known_hits.values())
        judge(ctx, case_dir, pkgdir, kind, desc, procs)
        if len(ctx.violations) + sum(v["n"] for v in ctx.known_hits.values()) == nviol:
            shutil.rmtree(case_dir, ignore_errors=True)
        if i < 2:
            ctx.sample({"kind": kind, "desc": desc, "rc": {k: p.rc for k, p in procs.items()},
                        "first_error": (cli.clean(procs["validate"].stderr).strip().split("\n") or [""])[0][:200]})

    pmap(one, jobs)
    # -c overrides (errors are not about files)
    def ov(i):
        r = rng("C10ov", i)
        pkg, files = bases[i % len(bases)], base_files[i % len(bases)]
        case_dir = os.path.join(ctx.workdir, "cases", "override", "%04d" % i)
        common.write_tree(case_dir, files)
        pkgdir = os.path.join(case_dir, pkg.dir)
        arg = r.choice(["foo=bar", "cpp.bogus=1", "cpp.generateNDJson=maybe", "namespace=", "cpp.sourcesOutputDir=", "python=3", "cpp=", "=", "a.b.c.d=1",
                        "versions=x", "imports=../nope", "cpp.generateHDF5=false", "json.outputDir=../o2", "cpp.disabled=true", "matlab.disabled=yes"])
        procs = {"validate": cli.run_cli("validate", pkgdir, home, ["-c", arg]), "generate": cli.run_cli("generate", pkgdir, home, ["-c", arg])}
        ctx.case(("override", arg, i % len(bases)))
        ctx.count("kind.override")
        nviol = len(ctx.violations)
        judge(ctx, case_dir, pkgdir, "override", "override -c %s" % arg, procs, overrides=True)
        if len(ctx.violations) == nviol:
            shutil.rmtree(case_dir, ignore_errors=True)
    pmap(ov, range(60 if quick else 600))


def replay(ctx, path):
    import json
    r = json.load(open(path))
    c = r["case"]
    home = os.path.join(ctx.workdir, "home")
    os.makedirs(home, exist_ok=True)
    p = cli.run_cli(c.get("cmd", "validate"), c["pkgdir"], home)
    print("replayed %s in %s: rc=%s sig=%s cpu=%.2fs\n%s" % (c.get("cmd"), c["pkgdir"], p.rc, p.sig, p.cpu_s, cli.clean(p.stderr)[:3000]))
    judge(ctx, c["case_dir"], c["pkgdir"], c.get("kind", "replay"), "replay", {c.get("cmd", "validate"): p})
    ctx.case("replay-a"); ctx.case("replay-b")
