"""C03 - streams are portable across target languages (C++ / Python) and formats (binary / NDJSON).

Workload: every reference stream is written by the generated code of language A in format F and read
by the generated code of the *other* language, for all A, F, and all input/output formats (16 two-hop
chains per value set; three-hop chains in the thorough tier); Python-specific hostility: boundary sweep
of every encoder around the 64 KiB staging buffer, readers fed through BytesIO / file / short-read raw
streams, writers fed lists / generators / item-wise calls.
Oracle: every hop accepts; the final output reference-decodes to the original values; binary output of
both languages is canonical (minimal varints, exact float bits), hence byte-identical up to block
partition and map order."""
from __future__ import annotations

import itertools

from vlib import common, corpus, cxx, rt, values
from vlib.common import pmap, rng, Inconclusive
from vlib.model import *  # noqa
from vlib.refcodec import CodecError

LEVEL = "exploration"
FLOOR = {"quick": 500, "thorough": 5000}


def chain(ctx, m, proto, vals, first_fmt, hops, what, extra):
    """hops: [(endpoint, out_fmt)]; input of the first hop is reference-encoded in first_fmt."""
    c = m.codec
    sch = m.schema(proto.name)
    if first_fmt == "bin":
        data = c.encode_stream(proto, sch, vals)
    else:
        data = ("\n".join(c.ndjson_lines(proto, sch, vals)) + "\n").encode()
    fmt = first_fmt
    names = ["ref-" + first_fmt]
    for i, (ep, ofmt) in enumerate(hops):
        r = ep.copy(proto.name, fmt, ofmt, data)
        ctx.ev()
        names.append("%s:%s" % (ep.name, ofmt))
        ctx.count("hop.%s.%s->%s" % (ep.name, fmt, ofmt))
        ok = rt.judge(ctx, m, proto, vals, data, r, ep.name, ofmt, "%s chain %s (hop %d)" % (what, " -> ".join(names), i + 1),
                      dict(extra, chain=names))
        if not ok:
            return False
        data, fmt = r.out, ofmt
    return True


def run_model(ctx, key, pkg, nsets, three_hop):
    m = rt.prepare_model(ctx, key, pkg, ["plain"])
    if m is None:
        return
    c = m.codec
    cpp, py = rt.CppEndpoint(m, "plain"), rt.PyEndpoint(m)
    other = {id(cpp): py, id(py): cpp}
    for proto in pkg.protocols():
        for k in range(nsets):
            vg_bin = values.ValueGen(c, rng("C03v", key, proto.name, k), quiet_nan_only=True)
            vg_js = values.ValueGen(c, rng("C03j", key, proto.name, k), json_safe=True)
            vals_bin, vals_js = vg_bin.steps(proto), vg_js.steps(proto)
            ctx.case(("vals", key, proto.name, k))
            for f0, a, f1, f2 in itertools.product(["bin", "ndjson"], [cpp, py], ["bin", "ndjson"], ["bin", "ndjson"]):
                b = other[id(a)]
                allbin = (f0 == f1 == f2 == "bin")
                vals = vals_bin if allbin else vals_js
                hops = [(a, f1), (b, f2)]
                if three_hop:
                    hops.append((a, "bin"))
                chain(ctx, m, proto, vals, f0, hops, "corpus %s/%s set %d" % (key, proto.name, k), {"key": key, "set": k})
            # the C++ writer fed through its batch overloads with empty batches in between (a producer that flushes "once more" at the end); what it wrote is
            # read by Python and must still be the same stream as what Python writes for these values
            nstreams = sum(1 for _, t in proto.steps if isinstance(c.fq(t), S))
            if nstreams:
                cppb = rt.CppEndpoint(m, "plain", bufs=[3] * nstreams, empty_batches=True)
                chain(ctx, m, proto, vals_bin, "bin", [(cppb, "bin"), (py, "bin")], "corpus %s/%s set %d (C++ writer with empty batches)" % (key, proto.name, k), {"key": key, "set": k})
                chain(ctx, m, proto, vals_js, "bin", [(cppb, "bin"), (py, "ndjson")], "corpus %s/%s set %d (C++ writer with empty batches)" % (key, proto.name, k), {"key": key, "set": k})
    ctx.sample({"model": key, "protocols": [p.name for p in pkg.protocols()]})
    m.close()


def run_py_modes(ctx, key, pkg, nsets):
    """Python reader input kinds and writer feeding modes."""
    m = rt.prepare_model(ctx, key, pkg, ["plain"])
    if m is None:
        return
    c = m.codec
    for proto in pkg.protocols():
        vg = values.ValueGen(c, rng("C03m", key, proto.name), quiet_nan_only=True)
        for k in range(nsets):
            vals = vg.steps(proto, stream_len=[0, 1, 2, 5][k % 4])
            data = c.encode_stream(proto, m.schema(proto.name), vals)
            for ep in [rt.PyEndpoint(m, in_how="bytesio"), rt.PyEndpoint(m, in_how="short7"), rt.PyEndpoint(m, in_how="path"),
                       rt.PyEndpoint(m, mode="list"), rt.PyEndpoint(m, mode="gen"), rt.PyEndpoint(m, mode="itemwise"),
                       rt.PyEndpoint(m, mode="pairs"), rt.PyEndpoint(m, mode="fortran")]:
                r = ep.copy(proto.name, "bin", "bin", data)
                ctx.ev(); ctx.count("pymode." + ep.name)
                ok = rt.judge(ctx, m, proto, vals, data, r, ep.name, "bin", "py-modes %s/%s set %d" % (key, proto.name, k), {"key": key})
                if ok and ep.mode in ("list", "pairs", "itemwise"):
                    # Python's block structure read through the batched C++ API: batches that fill exactly at the end of a block
                    nstreams = sum(1 for _, t in proto.steps if isinstance(c.fq(t), S))
                    for cap in (2, 5):
                        r2 = rt.CppEndpoint(m, "plain", bufs=[cap] * max(1, nstreams)).copy(proto.name, "bin", "bin", r.out)
                        ctx.ev(); ctx.count("pymode->cpp.cap%d" % cap)
                        rt.judge(ctx, m, proto, vals, r.out, r2, "cpp-plain", "bin", "py-modes %s/%s set %d: python (%s) output read by C++ in batches of %d" % (key, proto.name, k, ep.mode, cap), {"key": key})
            ctx.case(("pymode", key, proto.name, k))
    m.close()


def run_sweep(ctx, offsets):
    pkg, cases = corpus.sweep_package()
    m = rt.prepare_model(ctx, "sweep", pkg, ["plain"])
    if m is None:
        raise Inconclusive("sweep model did not build")
    c = m.codec
    py, cpp = rt.PyEndpoint(m), rt.CppEndpoint(m, "plain")
    for proto, vals, parts, off, kind in rt.sweep_jobs(m, pkg, cases, offsets):
        data = c.encode_stream(proto, m.schema(proto.name), vals, partitions=parts)
        r = py.copy(proto.name, "bin", "bin", data)
        ctx.ev(); ctx.count("sweep.py")
        ok = rt.judge(ctx, m, proto, vals, data, r, "py", "bin", "sweep %s at 64KiB%+d (python)" % (proto.name, off), {"sweep_offset": off})
        if ok and kind == "stream":
            # python's output has a different block partition: feed it to the C++ reader
            r2 = cpp.copy(proto.name, "bin", "bin", r.out)
            ctx.ev(); ctx.count("sweep.py->cpp")
            rt.judge(ctx, m, proto, vals, r.out, r2, "cpp-plain", "bin", "sweep %s at 64KiB%+d (python output read by C++)" % (proto.name, off), {"sweep_offset": off})
        # generator path of StreamSerializer.write (one byte per item, no length prefix)
        if kind == "stream":
            r3 = rt.PyEndpoint(m, mode="gen").copy(proto.name, "bin", "bin", data)
            ctx.ev(); ctx.count("sweep.py-gen")
            rt.judge(ctx, m, proto, vals, data, r3, "py-gen", "bin", "sweep %s at 64KiB%+d (python, generator)" % (proto.name, off), {"sweep_offset": off})
            # a consumer that keeps every item until the stream has been read completely (values must not alias the reader's buffer)
            r4 = rt.PyEndpoint(m, mode="list").copy(proto.name, "bin", "bin", data)
            ctx.ev(); ctx.count("sweep.py-list")
            rt.judge(ctx, m, proto, vals, data, r4, "py-list", "bin", "sweep %s at 64KiB%+d (python, items kept in a list)" % (proto.name, off), {"sweep_offset": off})
        ctx.case(("sweep", proto.name, off))
    m.close()


def run_big(ctx):
    pkg, cases = corpus.big_package()
    m = rt.prepare_model(ctx, "bigvals", pkg, ["plain"])
    if m is None:
        raise Inconclusive("big-value model did not build")
    c = m.codec
    py, cpp = rt.PyEndpoint(m), rt.CppEndpoint(m, "plain")
    for pname, t, v in cases:
        proto = pkg.find(pname)
        vals = [0xCAFE, v, [v], "tail-ü"]
        data = c.encode_stream(proto, m.schema(pname), vals)
        for a, b in ((py, cpp), (cpp, py)):
            chain(ctx, m, proto, vals, "bin", [(a, "bin"), (b, "bin")], "big value %s" % pname, {"big": pname})
        ctx.case(("big", pname))
    m.close()


def run_record_arrays(ctx, quick):
    """N-d arrays (dynamic, ranked, fixed) and vectors of records with fixed-width fields: with and without gaps in the natural in-memory layout
    ({uint8, float64} has 7 bytes of padding in C++ and in an aligned numpy dtype; on the wire it takes 9 bytes), nested records, generic records"""
    recs = [Rec("RaTight", [("x", P("float32")), ("y", P("float32"))]), Rec("RaPadA", [("a", P("uint8")), ("b", P("float64"))]),
            Rec("RaPadB", [("f", P("float32")), ("d", P("float64")), ("t", P("bool"))]), Rec("RaPadC", [("c", P("complexfloat64")), ("i", P("int8")), ("f", P("float32"))]),
            Rec("RaOuter", [("p", N("RaPadA")), ("q", P("uint8"))]), Rec("RaGen", [("k", TP("K")), ("v", TP("V"))], ("K", "V")),
            # fields whose numpy representation differs from their Python one: optionals ((has_value, value) records), enums (integers), nested records
            Rec("RaOpt", [("b", P("uint8")), ("o", Opt(P("bool"))), ("i", Opt(P("int32"))), ("f", Opt(P("float64")))]), Rec("RaOptBool", [("b", P("uint8")), ("o", Opt(P("bool")))]),
            En("RaEnum", [("lo", 0), ("hi", 200)], "uint8"), Rec("RaWithEnum", [("e", N("RaEnum")), ("w", P("float32"))]),
            Rec("RaDeep", [("inner", N("RaOpt")), ("maybe", Opt(N("RaTight"))), ("n", P("int64"))])]
    items = [N("RaTight"), N("RaPadA"), N("RaPadB"), N("RaPadC"), N("RaOuter"), N("RaGen", (P("uint8"), P("float64"))), N("RaGen", (P("float32"), P("float32"))),
             N("RaOpt"), N("RaWithEnum"), N("RaDeep"), N("RaOptBool")]
    protos = []
    for i, it in enumerate(items):
        protos.append(Proto("Ra%d" % i, [("dyn", A(it, None)), ("ranked", A(it, 2)), ("fixed", A(it, ((None, 2), (None, 3)))), ("vec", V(it)), ("fvec", V(it, 2)),
                                         ("s", S(A(it, 1))), ("opt", Opt(A(it, None))), ("end", P("int32"))]))
    pkg = Pkg("RecArr", recs + protos)
    m = rt.prepare_model(ctx, "recarr", pkg, ["plain"])
    if m is None:
        raise Inconclusive("record-array model did not build")
    c = m.codec
    cpp, py = rt.CppEndpoint(m, "plain"), rt.PyEndpoint(m)

    def one(proto):
        for k in range(2 if quick else 6):
            vals = values.ValueGen(c, rng("C03ra", proto.name, k), quiet_nan_only=True).steps(proto)
            ctx.case(("record-arrays", proto.name, k))
            for hops in ([(py, "bin"), (cpp, "bin")], [(cpp, "bin"), (py, "bin")], [(py, "bin"), (py, "bin")]):
                chain(ctx, m, proto, vals, "bin", hops, "arrays of fixed-width records %s set %d" % (proto.name, k), {"record_arrays": True, "set": k})
                ctx.count("record-arrays.chains")
    pmap(one, pkg.protocols(), workers=6)
    m.close()


def run_enum_bases(ctx, quick):
    """enums / flags over every integer base, the base spelled directly, through aliases and through an imported alias: all four endpoints must
    agree on the width and signedness of the encoded value"""
    pkg = corpus.enum_base_package()
    m = rt.prepare_model(ctx, "enumbases", pkg, ["plain"])
    if m is None:
        raise Inconclusive("enum-base model did not build")
    c = m.codec
    cpp, py = rt.CppEndpoint(m, "plain"), rt.PyEndpoint(m)
    for proto in pkg.protocols():
        for k in range(3 if quick else 8):
            vals = values.ValueGen(c, rng("C03eb", proto.name, k), json_safe=True).steps(proto)
            ctx.case(("enum-bases", proto.name, k))
            for hops in ([(py, "bin"), (cpp, "bin")], [(cpp, "bin"), (py, "bin")], [(py, "ndjson"), (cpp, "bin")], [(cpp, "ndjson"), (py, "bin")]):
                chain(ctx, m, proto, vals, "bin", hops, "enum bases %s set %d" % (proto.name, k), {"enum_bases": True, "set": k})
                ctx.count("enum-bases.chains")
    m.close()


def run_adjacent_streams(ctx, quick):
    """protocols in which stream steps follow each other directly (NDJSON has no end-of-stream marker: a reader learns that a stream has ended from
    the next step's line, which it must keep): every combination of empty / non-empty streams, items that are null, between and before scalar steps"""
    o32 = Opt(P("int32"))
    pkg = Pkg("AdjStreams", [Proto("Adj3", [("subject", P("string")), ("a", S(P("int32"))), ("b", S(P("string"))), ("c", S(P("float64"))), ("count", P("uint32"))]),
                             Proto("AdjOpt", [("a", S(o32)), ("b", S(o32)), ("maybe", o32), ("c", S(Opt(P("string")))), ("tail", Opt(P("string")))]),
                             Proto("AdjOnly", [("a", S(P("int32"))), ("b", S(P("int32"))), ("c", S(P("int32")))])])
    m = rt.prepare_model(ctx, "adjstreams", pkg, ["plain"])
    if m is None:
        raise Inconclusive("adjacent-streams model did not build")
    cpp, py = rt.CppEndpoint(m, "plain"), rt.PyEndpoint(m)
    from vlib.refcodec import f64
    import itertools
    for combo in itertools.product((0, 1, 3), repeat=3):
        na, nb, nc = combo
        cases = [("Adj3", ["s", list(range(na)), ["t%d" % i for i in range(nb)], [f64(i + 0.5) for i in range(nc)], 7]),
                 ("AdjOpt", [[None if i % 2 == 0 else (0, i) for i in range(na)], [None] * nb, None if na else (0, 5), [None if i == 0 else (0, "x") for i in range(nc)], None]),
                 ("AdjOnly", [list(range(na)), list(range(10, 10 + nb)), list(range(20, 20 + nc))])]
        for pn, vals in cases:
            proto = pkg.find(pn)
            ctx.case(("adjacent-streams", pn, combo))
            for f0, hops in (("ndjson", [(cpp, "bin")]), ("ndjson", [(py, "bin")]), ("bin", [(cpp, "ndjson"), (py, "bin")]), ("bin", [(py, "ndjson"), (cpp, "bin")]),
                             ("ndjson", [(cpp, "ndjson"), (py, "ndjson")])):
                chain(ctx, m, proto, vals, f0, hops, "adjacent streams %s with %s items" % (pn, combo), {"adjacent": True})
                ctx.count("adjacent-streams.chains")
    m.close()


def run_multiarray(ctx):
    """records with several arrays whose items straddle the reader's 64 KiB refills: an array decoded before a refill must keep its values
    (it must not be a view of the reader's buffer)"""
    f64t = P("float64")
    pkg = Pkg("MultiArr", [Rec("MaPair", [("head", A(f64t, None)), ("n", P("int32")), ("tail", A(f64t, None)), ("small", A(P("uint8"), None))]),
                           Rec("MaFix", [("head", A(P("float32"), ((None, 4),))), ("tail", V(P("float64")))]),
                           Rec("MaGrid", [("g", A(f64t, 2)), ("f", A(P("uint8"), ((None, 3), (None, 4)))), ("c", A(P("complexfloat32"), 3))]),
                           Proto("MaP", [("pairs", S(N("MaPair"))), ("fixes", S(N("MaFix"))), ("end", P("int32"))]),
                           Proto("MaG", [("one", N("MaGrid")), ("grids", S(N("MaGrid"))), ("loose", A(f64t, None))])])
    m = rt.prepare_model(ctx, "multiarr", pkg, ["plain"])
    if m is None:
        raise Inconclusive("multi-array model did not build")
    c = m.codec
    r = rng("C03ma")
    from vlib.refcodec import f32, f64
    pairs = [[((4,), [f64(float(1000 * i + j)) for j in range(4)]), i, ((r.choice([900, 1000, 1100]),), None), ((5,), [i % 251] * 5)] for i in range(40)]
    for p in pairs:
        p[2] = (p[2][0], [f64(float(p[1]) + 0.5 * j) for j in range(p[2][0][0])])
    fixes = [[((4,), [f32(float(i + j)) for j in range(4)]), [f64(float(i * 7 + j)) for j in range(r.choice([700, 900]))]] for i in range(30)]
    vals = [pairs, fixes, 77]
    proto = pkg.find("MaP")
    data = c.encode_stream(proto, m.schema("MaP"), vals)
    ctx.case(("multiarray", len(data)))
    for ep in (rt.PyEndpoint(m), rt.PyEndpoint(m, mode="list"), rt.CppEndpoint(m, "plain")):
        for ofmt in ("bin", "ndjson"):
            rr = ep.copy("MaP", "bin", ofmt, data)
            ctx.ev(); ctx.count("multiarray." + ep.name)
            rt.judge(ctx, m, proto, vals, data, rr, ep.name, ofmt, "multi-array records over %d bytes (%s -> %s)" % (len(data), ep.name, ofmt), {"multiarray": True})
    # multi-dimensional arrays handed to the Python writer in Fortran order (and as read)
    protog = pkg.find("MaG")
    def grid(i):
        return [((3, 5), [f64(float(100 * i + j)) for j in range(15)]), ((3, 4), [(i + j) % 251 for j in range(12)]),
                ((2, 3, 2), [(f32(float(j)), f32(float(-i))) for j in range(12)])]
    valsg = [grid(0), [grid(i) for i in range(1, 5)], ((4, 6), [f64(float(j) / 8) for j in range(24)])]
    datag = c.encode_stream(protog, m.schema("MaG"), valsg)
    ctx.case(("multiarray-grids", len(datag)))
    for ep in (rt.PyEndpoint(m), rt.PyEndpoint(m, mode="fortran"), rt.PyEndpoint(m, mode="list")):
        for ofmt in ("bin", "ndjson"):
            rr = ep.copy("MaG", "bin", ofmt, datag)
            ctx.ev(); ctx.count("multiarray-grids." + ep.name)
            ok = rt.judge(ctx, m, protog, valsg, datag, rr, ep.name, ofmt, "2-D / 3-D arrays (%s -> %s)" % (ep.name, ofmt), {"multiarray": True})
            if ok and ofmt == "bin":
                r2 = rt.CppEndpoint(m, "plain").copy("MaG", "bin", "bin", rr.out)
                ctx.ev()
                rt.judge(ctx, m, protog, valsg, rr.out, r2, "cpp-plain", "bin", "2-D / 3-D arrays written by %s read by C++" % ep.name, {"multiarray": True})
    m.close()


def run_nulltag(ctx):
    """null in a *tagged* nullable union (cases share a JSON kind): the NDJSON spelling of the null case is not documented, so the only oracle is
    portability - whatever one language writes the other must read - plus both spellings ({"null": null} and a bare null) fed as reference input."""
    un = U((("i", P("int32")), ("u", P("uint64"))), True, True)
    us = U(((None, P("int32")), (None, P("int64"))), True)
    pkg = Pkg("NullTag", [Proto("NtP", [("a", un), ("b", V(un)), ("c", M(P("string"), us)), ("d", S(us)), ("e", un), ("z", P("int32"))])])
    m = rt.prepare_model(ctx, "nulltag", pkg, ["plain"])
    if m is None:
        raise Inconclusive("null-tag model did not build")
    c = m.codec
    proto = pkg.find("NtP")
    cpp, py = rt.CppEndpoint(m, "plain"), rt.PyEndpoint(m)
    sets = [[None, [None, (0, -15), None, (1, 7)], [["k1", None], ["k2", (0, -3)], ["k3", (1, 5)]], [None, (1, 9), None], (1, 2**63), 11],
            [(0, -5), [], [], [], None, 12],
            [None, [None], [["only", None]], [None], None, 13]]
    for k, vals in enumerate(sets):
        ctx.case(("nulltag", k))
        for bare in (False, True):
            c.bare_null = bare
            try:
                for f0, a, f1, f2 in itertools.product(["bin", "ndjson"], [cpp, py], ["bin", "ndjson"], ["bin", "ndjson"]):
                    if bare and f0 != "ndjson":
                        continue
                    b = py if a is cpp else cpp
                    chain(ctx, m, proto, vals, f0, [(a, f1), (b, f2)], "null-tag set %d (%s null in the reference NDJSON)" % (k, "bare" if bare else "tagged"),
                          {"nulltag": k, "bare": bare})
                    ctx.count("nulltag.chains")
            finally:
                c.bare_null = False
    m.close()


def run_union_matrix(ctx, quick):
    """every pair of JSON kinds as a two-case union (C02's matrix model), values including enum integers outside the declared symbols and
    flags that are not a combination of symbols, sent through NDJSON between the two languages"""
    from props import C02 as c02
    pkg = c02.matrix_package(True)
    m = rt.prepare_model(ctx, "unionmatrix", pkg, ["plain"])
    if m is None:
        raise Inconclusive("union matrix model did not build")
    c = m.codec
    cpp, py = rt.CppEndpoint(m, "plain"), rt.PyEndpoint(m)

    def one(proto):
        vg = values.ValueGen(c, rng("C03m", proto.name), json_safe=True)
        for k in range(4 if quick else 12):
            vals = vg.steps(proto)
            for i, (sn, t) in enumerate(proto.steps):
                if isinstance(t, U) and len(t.cases) > 1 and not (t.nullable and k % 4 == 3):
                    ci = k % len(t.cases)
                    ct = c.res(c.fq(t.cases[ci][1]))
                    v = vg.gen(c.fq(t.cases[ci][1]), 1)
                    if isinstance(ct, N) and k >= 2:
                        d, _ = c.env.lookup(ct)
                        if isinstance(d, En):
                            v = 21 if d.flags else 7          # not a combination of the declared flags / not a declared symbol
                    vals[i] = (ci, v)
            ctx.case(("unionmatrix", proto.name, k))
            for a, b in ((cpp, py), (py, cpp)):
                chain(ctx, m, proto, vals, "bin", [(a, "ndjson"), (b, "bin")], "union-matrix %s set %d" % (proto.name, k), {"matrix": True, "set": k})
                ctx.count("unionmatrix.chains")

    # (MxGenericUnion is the pinned witness of C02's listed finding c02-union-with-type-parameter-case - both back ends write that union untagged whatever
    # its type argument is - and is judged there; sending it through the chains again would only restate that finding under other symptoms)
    pmap(one, [p for p in pkg.protocols() if p.name != "MxGenericUnion"], workers=6)
    m.close()


def run(ctx):
    common.build_yardl()
    quick = ctx.tier == "quick"
    ctx.rule = ("ser-corpus models x protocols x value sets x 16 two-hop chains {ref bin|ndjson} -> lang A {bin|ndjson} -> other lang {bin|ndjson} "
                "(+ third hop in thorough); Python reader/writer modes (BytesIO, file, path, 7-byte short reads; list, generator, item-wise, pairs); "
                "64 KiB boundary sweep of 38 encoders through the Python writer (list and generator paths) and back through the C++ reader. "
                "distinct = (model, protocol, value set) / (sweep protocol, offset).")
    ctx.assumptions = ["reference codec from docs/reference/*.md", "signalling NaNs are not used where a Python hop is involved (CPython quiets them when widening float32)",
                       "values stay inside what every target can represent (dates 0001..9999, datetime != INT64_MIN)",
                       "MATLAB cannot be executed in this sandbox: not an endpoint"]
    keys = corpus.ser_keys(6 if quick else 100)
    nsets = 2 if quick else 6

    def work(key):
        pkg = corpus.ser_package(key, depth=3 if quick else 4)
        run_model(ctx, key, pkg, nsets, three_hop=not quick)

    pmap(work, keys, workers=8)
    pmap(lambda key: run_py_modes(ctx, key + "m", corpus.ser_package(key, depth=3), 4), keys[: (3 if quick else 30)], workers=8)
    run_nulltag(ctx)
    run_multiarray(ctx)
    run_record_arrays(ctx, quick)
    run_enum_bases(ctx, quick)
    run_adjacent_streams(ctx, quick)
    run_union_matrix(ctx, quick)
    run_sweep(ctx, range(-12, 3) if not quick else range(-11, 2))
    run_big(ctx)
    cxx.prune_cache()


def replay(ctx, path):
    import json, os
    r = json.load(open(path))
    os.environ["VERIF_SEED"] = str(r.get("seed", 1))
    print(json.dumps(r.get("case"), indent=1, default=str)[:3000])
    run(ctx)
