"""C17 - stream contents do not depend on batching, and items are independent.

Workload: stream item sequences whose *consecutive items differ in shape* (map key sets shrinking / disjoint / empty, optional
presence at several depths, vectors shrinking and growing, changing union case, N-d array shape) encoded under ALL 2^(n-1) block
partitions for n <= 5 (6 in thorough) and random partitions of long streams; read through the generated C++ CopyTo with buffer
capacities {1,2,3,4,7,64} (single-item overload, batch overload, fallback batch implementation for NDJSON) and written back;
binary and NDJSON input; Python list / generator / item-wise / pair-wise writes and the C++ reader on Python's partitions.
Oracle: the decoded output item sequence equals the input sequence for every (partition, capacity) pair."""
from __future__ import annotations

import itertools

from vlib import common, corpus, cxx, rt, values
from vlib.common import pmap, rng, Inconclusive
from vlib.model import *  # noqa

LEVEL = "exploration"
FLOOR = {"quick": 1500, "thorough": 12000}
CAPS = [1, 2, 3, 4, 7, 64]


def batch_package():
    Inner = Rec("BtInner", [("m", M(P("string"), P("int32"))), ("o", Opt(P("string")))])
    Outer = Rec("BtOuter", [("id", P("int32")), ("maybe", Opt(N("BtInner"))), ("v", V(Opt(P("int32")))), ("in", N("BtInner")),
                            ("u", U(((None, P("int32")), (None, P("string")), (None, N("BtInner"))), True))])
    Triv = Rec("BtTrivRec", [("a", P("float32")), ("b", P("float32"))])
    BtEnum = En("BtEnum", [("lo", 0), ("mid", 300), ("hi", 70000)], None, False, True)
    # flags without a named zero (no flag set is written as [] in NDJSON), flags with one, and records carrying them at several depths
    Flags = En("BtFlags", [("a", 1), ("b", 2), ("c", 4)], "uint8", True, True)
    Mode = En("BtMode", [("none", 0), ("r", 1), ("w", 2)], None, True, True)
    FlagInner = Rec("BtFlagInner", [("f", N("BtFlags")), ("name", P("string"))])
    FlagRec = Rec("BtFlagsRecord", [("f", N("BtFlags")), ("mode", N("BtMode")), ("e", N("BtEnum")), ("of", Opt(N("BtFlags"))), ("inner", N("BtFlagInner")),
                                ("vf", V(N("BtFlags"))), ("mf", M(P("string"), N("BtFlags"))), ("n", P("int32")), ("s", P("string")), ("fa", V(P("int16"), 2))])
    Gen = Rec("BtGen", [("id", P("int32")), ("value", TP("T")), ("more", V(TP("T")))], ("T",))
    items = [
        ("mapSI", M(P("string"), P("int32"))),
        ("mapIS", M(P("int64"), V(P("string")))),
        ("recOpt", N("BtOuter")),
        ("vecInt", V(P("int32"))),
        ("vecMap", V(M(P("string"), P("string")))),
        ("unionMix", U((("i", P("int64")), ("m", M(P("string"), P("int32"))), ("v", V(P("string")))), True, True)),
        ("dynArr", A(P("int32"), None)),
        ("arr2Opt", A(Opt(P("int32")), 2)),
        ("optRec", Opt(N("BtInner"))),
        ("triv", N("BtTrivRec")),
        ("str", P("string")),
        # fixed-size items whose elements are plain data in memory but varint / zig-zag encoded on the wire
        ("fixedVecInt", V(P("int32"), 3)),
        ("fixedArrLong", A(P("int64"), ((None, 2), (None, 2)))),
        ("fixedVecEnum", V(N("BtEnum"), 2)),
        ("fixedVecDate", V(P("date"), 2)),
        ("fixedVecFloat", V(P("float32"), 3)),
        ("dynArrF", A(P("float32"), None)),
        ("mapOfMap", M(P("string"), M(P("string"), P("int32")))),
        # a bare type parameter bound to a nullable type: presence is only known after instantiation
        ("genOpt", N("BtGen", (Opt(P("int32")),))),
        ("genUnion", N("BtGen", (U(((None, P("int32")), (None, P("string"))), True),))),
        ("genMap", N("BtGen", (M(P("string"), P("int32")),))),
        ("flagsItem", N("BtFlags")),
        ("modeItem", N("BtMode")),
        ("enumItem", N("BtEnum")),
        ("flagRec", N("BtFlagsRecord")),
        ("unionFlags", U((("f", N("BtFlags")), ("s", P("string")), ("r", N("BtFlagInner"))), False, True)),
        ("genFlags", N("BtGen", (N("BtFlags"),))),
        # plain numbers, the items a numpy user hands over as an array: fixed-width ones (which a writer may copy from memory) and varint-encoded ones
        ("numF32", P("float32")), ("numF64", P("float64")), ("numU8", P("uint8")), ("numI8", P("int8")), ("numI16", P("int16")), ("numU64", P("uint64")),
        ("numCF", P("complexfloat32")), ("numCD", P("complexfloat64")), ("numSize", P("size")),    # (no stream of bool: std::vector<bool>, a listed finding of C08)
    ]
    protos = [Proto("Bt" + n[:1].upper() + n[1:], [("pre", P("uint8")), ("s", S(t)), ("post", P("string"))]) for n, t in items]
    # the first value after a stream is null (an item of the next stream, an optional step)
    protos.append(Proto("BtNullFirst", [("a", S(P("int32"))), ("marks", S(Opt(P("int32")))), ("o", Opt(P("string"))), ("t", S(U(((None, P("int32")), (None, P("string"))), True))), ("post", P("int32"))]))
    # two streams in one protocol: block bookkeeping must reset between steps
    protos.append(Proto("BtTwo", [("a", S(M(P("string"), P("int32")))), ("b", S(N("BtOuter"))), ("post", P("int32"))]))
    BigRec = Rec("BtBigRec", [("u", P("uint64")), ("i", P("int64")), ("s", Opt(P("string"))), ("v", V(P("uint32")))])
    protos.append(Proto("BtBigLongs", [("pre", P("uint8")), ("s", S(P("int64"))), ("post", P("string"))]))
    protos.append(Proto("BtBigRecs", [("pre", P("uint8")), ("s", S(N("BtBigRec"))), ("post", P("string"))]))
    return Pkg("Batch", [Inner, Outer, Triv, BtEnum, Flags, Mode, FlagInner, FlagRec, Gen, BigRec] + protos)


def shaped_items(vg: values.ValueGen, t, n: int, r):
    """n items whose consecutive shapes differ: big, small, empty, disjoint..."""
    out = []
    for i in range(n):
        vg.max_len = [6, 1, 0, 4, 2, 5][i % 6]
        v = vg.gen(t, 1)
        out.append(v)
    return out


def reset_items(c, vg: values.ValueGen, t, n: int):
    """n items alternating between a populated value and the type's zero value (0, no flag set, "", empty, null): a reader that reuses its
    destination for the next item (the documented while-loop, the elements of a batch vector from the second batch on) has to reset all of it"""
    out = []
    for i in range(n):
        if i % 2 == 1 or i == 4:
            out.append(values.zero_value(c, t))
        else:
            vg.max_len = 4
            v = vg.gen(t, 1)
            for _ in range(20):
                if v != values.zero_value(c, t):
                    break
                v = vg.gen(t, 1)
            out.append(v)
    return out


def partitions(n):
    """all compositions of n (block size lists)"""
    if n == 0:
        return [[]]
    res = []
    for mask in range(1 << (n - 1)):
        sizes, cur = [], 1
        for i in range(n - 1):
            if mask >> i & 1:
                sizes.append(cur)
                cur = 1
            else:
                cur += 1
        sizes.append(cur)
        res.append(sizes)
    return res


def run(ctx):
    common.build_yardl()
    quick = ctx.tier == "quick"
    nmax = 5 if quick else 7
    ctx.rule = ("13 stream protocols whose item types carry maps / optionals / vectors / unions / arrays; item sequences of length 0..%d with alternating shapes; "
                "all 2^(n-1) block partitions x buffer capacities %s (C++), NDJSON input x capacities, long streams with random partitions coprime to the capacity, "
                "Python write modes. distinct = (protocol, item sequence, partition, capacity)." % (nmax, CAPS))
    ctx.assumptions = ["reference codec chooses the block partition of the input", "items equality is on canonical values (map entry order free)"]
    pkg = batch_package()
    m = rt.prepare_model(ctx, "batch", pkg, ["plain", "asan"])
    if m is None:
        raise Inconclusive("batch model did not build")
    c = m.codec
    jobs = []
    for proto in pkg.protocols():
        sidx = [i for i, (_, t) in enumerate(proto.steps) if isinstance(t, S)]
        for n in ([0, 1, 2, 3, nmax] if quick else range(0, nmax + 1)):
            r = rng("C17", proto.name, n)
            vg = values.ValueGen(c, r, json_safe=True)
            vals = []
            for i, (sn, t) in enumerate(proto.steps):
                ft = c.fq(t)
                vals.append(shaped_items(vg, ft.item, n, r) if isinstance(ft, S) else vg.gen(ft, 0))
            parts = partitions(n)
            if quick and len(parts) > 8:
                parts = parts[:1] + parts[-1:] + rng("C17p", proto.name).sample(parts[1:-1], 6)
            for sizes in parts:
                for cap in CAPS:
                    jobs.append((proto, vals, {i: sizes for i in sidx}, cap, "bin"))
            for cap in CAPS[: (3 if quick else 6)]:
                jobs.append((proto, vals, None, cap, "ndjson"))
        # populated / zero / populated / zero / zero ...: binary, reference NDJSON lines, and the NDJSON text the generated C++ writes (which leaves
        # out fields that hold their default) read back by C++ with every capacity
        for n in ((2, 5) if quick else (2, 3, 5, 6, 9)):
            r = rng("C17reset", proto.name, n)
            vg = values.ValueGen(c, r, json_safe=True)
            vals = []
            for i, (sn, t) in enumerate(proto.steps):
                ft = c.fq(t)
                vals.append(reset_items(c, vg, ft.item, n) if isinstance(ft, S) else vg.gen(ft, 0))
            for cap in CAPS:
                jobs.append((proto, vals, {i: [n] for i in sidx}, cap, "bin"))
                jobs.append((proto, vals, {i: [1] * n for i in sidx}, cap, "bin"))
                jobs.append((proto, vals, None, cap, "ndjson"))
                jobs.append((proto, vals, None, cap, "cppnd"))
        # long stream, random partition
        for rep in range(1 if quick else 4):
            r = rng("C17long", proto.name, rep)
            vg = values.ValueGen(c, r, json_safe=True, max_len=3)
            n = r.choice([97, 211, 500])
            vals = []
            for i, (sn, t) in enumerate(proto.steps):
                ft = c.fq(t)
                vals.append(shaped_items(vg, ft.item, n, r) if isinstance(ft, S) else vg.gen(ft, 0))
            sizes, left = [], n
            while left:
                s = min(left, r.choice([1, 2, 3, 5, 13, 50]))
                sizes.append(s)
                left -= s
            for cap in ([3, 7, 64] if quick else CAPS):
                jobs.append((proto, vals, {i: sizes for i in sidx}, cap, "bin"))

    def one(job):
        proto, vals, parts, cap, infmt = job
        sch = m.schema(proto.name)
        if infmt == "bin":
            data = c.encode_stream(proto, sch, vals, partitions=parts)
        elif infmt == "cppnd":
            src = c.encode_stream(proto, sch, vals)
            w = rt.CppEndpoint(m, "plain").copy(proto.name, "bin", "ndjson", src)
            ctx.ev()
            if not rt.judge(ctx, m, proto, vals, src, w, "cpp-plain", "ndjson", "%s written as NDJSON by the generated C++" % proto.name, {}):
                return
            data, infmt = w.out, "ndjson"
            ctx.count("ndjson-written-by-c++.read-back")
        else:
            data = ("\n".join(c.ndjson_lines(proto, sch, vals)) + "\n").encode()
        nstreams = sum(1 for _, t in proto.steps if isinstance(t, S))
        for fl in (["plain", "asan"] if cap in (1, 3) else ["plain"]):
            ep = rt.CppEndpoint(m, fl, bufs=[cap] * nstreams)
            for outfmt in (["bin", "ndjson"] if cap == 2 else ["bin"]):
                r = ep.copy(proto.name, infmt, outfmt, data)
                ctx.ev()
                ctx.count("%s->%s.cap%d" % (infmt, outfmt, cap))
                rt.judge(ctx, m, proto, vals, data, r, ep.name, outfmt,
                         "%s %s input, partition %s, capacity %d" % (proto.name, infmt, (list(parts.values())[0] if parts else "-"), cap),
                         {"partition": parts, "capacity": cap})
        if infmt == "bin" and cap in (3, 64):
            ep = rt.CppEndpoint(m, "plain", bufs=[cap] * nstreams, empty_batches=True)
            r = ep.copy(proto.name, "bin", "bin", data)
            ctx.ev()
            ctx.count("bin->bin.cap%d.empty-batches" % cap)
            rt.judge(ctx, m, proto, vals, data, r, ep.name, "bin", "%s bin input, partition %s, capacity %d, writer called with empty batches around every batch" % (
                proto.name, (list(parts.values())[0] if parts else "-"), cap), {"partition": parts, "capacity": cap})
        ctx.case((proto.name, len(data), str(parts), cap, infmt))

    pmap(one, jobs)

    # Python write modes; Python's own partition then read by C++ with several capacities
    for proto in pkg.protocols():
        if rt.py_triggers(m, proto):
            continue
        r = rng("C17py", proto.name)
        vg = values.ValueGen(c, r, json_safe=True)
        big_ns = (127, 128, 129, 255, 256, 300) if proto.name in [q.name for q in pkg.protocols()][:3] else ()     # batch lengths around the varint width steps
        for n in (0, 1, 4) + big_ns:
            vals = []
            for i, (sn, t) in enumerate(proto.steps):
                ft = c.fq(t)
                vals.append(shaped_items(vg, ft.item, n, r) if isinstance(ft, S) else vg.gen(ft, 0))
            data = c.encode_stream(proto, m.schema(proto.name), vals)
            if proto.name == "BtNullFirst" and n >= 1:
                vals[1][0] = None
                vals[2] = None
                vals[3][0] = None
            data = c.encode_stream(proto, m.schema(proto.name), vals)
            # NDJSON into the Python reader (reference lines and what the generated C++ writes), out as binary
            nd = ("\n".join(c.ndjson_lines(proto, m.schema(proto.name), vals)) + "\n").encode()
            if n <= 4:
                for src, text in (("reference", nd), ("c++", rt.CppEndpoint(m, "plain").copy(proto.name, "bin", "ndjson", data).out)):
                    for mode in ("copy_to", "list"):
                        ep = rt.PyEndpoint(m, mode=mode)
                        res = ep.copy(proto.name, "ndjson", "bin", text)
                        ctx.ev()
                        ctx.count("py.ndjson-in." + mode)
                        rt.judge(ctx, m, proto, vals, text, res, ep.name, "bin", "%s python mode %s reading %s NDJSON, %d items" % (proto.name, mode, src, n), {"mode": mode, "ndjson_from": src})
            for mode in (("copy_to", "list", "gen", "reuse", "itemwise", "pairs", "nparray", "nparray-split") if n <= 4 else ("list", "gen", "reuse", "nparray")):
                if mode.startswith("nparray") and not proto.name.startswith("BtNum") and proto.name not in ("BtBigLongs", "BtNullFirst"):
                    continue
                ep = rt.PyEndpoint(m, mode=mode)
                res = ep.copy(proto.name, "bin", "bin", data)
                ctx.ev()
                ctx.count("py." + mode)
                ok = rt.judge(ctx, m, proto, vals, data, res, ep.name, "bin", "%s python mode %s, %d items" % (proto.name, mode, n), {"mode": mode})
                if ok:
                    for cap in (1, 3):
                        nstreams = sum(1 for _, t in proto.steps if isinstance(t, S))
                        r2 = rt.CppEndpoint(m, "plain", bufs=[cap] * nstreams).copy(proto.name, "bin", "bin", res.out)
                        ctx.ev()
                        ctx.count("py->cpp.cap%d" % cap)
                        rt.judge(ctx, m, proto, vals, res.out, r2, "cpp-plain", "bin", "%s python(%s) output read by C++ capacity %d" % (proto.name, mode, cap), {"mode": mode})
                ctx.case((proto.name, "py", mode, n))
    # items that are arrays of fixed-width elements, in a stream longer than the reader's 64 KiB buffer, consumed item by item and kept in a list
    from vlib.refcodec import f32
    proto = pkg.find("BtDynArrF")
    big = [((1024,), [f32(float(i * 1024 + j)) for j in range(1024)]) for i in range(70)]
    vals = [7, big, "tail"]
    data = c.encode_stream(proto, m.schema(proto.name), vals, partitions={1: [5] * 14})
    for ep in (rt.PyEndpoint(m, mode="list"), rt.PyEndpoint(m), rt.PyEndpoint(m, mode="itemwise"), rt.CppEndpoint(m, "plain", bufs=[8])):
        res = ep.copy(proto.name, "bin", "bin", data)
        ctx.ev()
        ctx.count("big-array-items." + ep.name)
        rt.judge(ctx, m, proto, vals, data, res, ep.name, "bin", "70 float32[1024] items (%d bytes) read by %s" % (len(data), ep.name), {"big_array_items": True})
    ctx.case(("big-array-items", len(data)))
    # streams several times longer than the readers' 64 KiB buffers whose items are multi-byte varints (large int64 / uint64, string lengths >= 128, vector
    # lengths): whatever the partition and the phase (a pad string of 0..9 bytes in front), varints straddle the refill points; every reader, every mode
    for pname in ("BtBigLongs", "BtBigRecs"):
        proto = pkg.find(pname)
        for phase in ((0, 3) if quick else range(10)):
            r = rng("C17straddle", pname, phase)
            n = 24000 if pname == "BtBigLongs" else 5000
            if pname == "BtBigLongs":
                items = [r.randrange(-(1 << 62), 1 << 62) if j % 7 else r.randrange(-300, 300) for j in range(n)]
            else:
                items = [[r.randrange(1 << 40, 1 << 64), r.randrange(-(1 << 62), 1 << 62), (None if j % 3 == 0 else (0, "s" * r.choice([0, 5, 127, 128, 200]))), [r.randrange(1 << 20, 1 << 32) for _ in range(r.choice([0, 1, 3]))]] for j in range(n)]
            vals = [phase, items, "p" * phase]
            sizes, left = [], n
            while left:
                k = min(left, r.choice([1, 7, 100, 1000, 5000]))
                sizes.append(k)
                left -= k
            data = c.encode_stream(proto, m.schema(pname), vals, partitions={1: sizes})
            eps = [rt.PyEndpoint(m), rt.PyEndpoint(m, mode="list"), rt.CppEndpoint(m, "plain", bufs=[64]), rt.CppEndpoint(m, "plain", bufs=[1])] + ([rt.PyEndpoint(m, mode="itemwise"), rt.PyEndpoint(m, mode="gen")] if phase == 0 or not quick else [])
            for ep in eps:
                res = ep.copy(pname, "bin", "bin", data)
                ctx.ev()
                ctx.count("straddling-varints." + ep.name)
                rt.judge(ctx, m, proto, vals, data, res, ep.name, "bin", "%s: %d items with multi-byte varints in %d bytes (phase %d, %d blocks) read by %s" % (pname, n, len(data), phase, len(sizes), ep.name), {"straddling_varints": True})
            ctx.case(("straddling-varints", pname, phase, len(data)))
    # a block of one-byte items that ends exactly where the reader's 64 KiB buffer is exhausted (and one byte before / after), followed by more blocks; read
    # with batch capacities that fill exactly at that block's last item (the block length, its half, a third), with smaller and with larger ones
    from vlib.refcodec import put_uvarint as _puv
    proto = pkg.find("BtNumU8")
    prefix = len(c.encode_stream(proto, m.schema("BtNumU8"), [7, [], ""], upto=1))
    for boundary in (65536, 131072):
        for delta in (-1, 0, 1):
            n1 = None
            for cand in range(boundary - prefix - 6, boundary - prefix):
                hdr = bytearray()
                _puv(hdr, cand)
                if prefix + len(hdr) + cand == boundary + delta:
                    n1 = cand
            if n1 is None:
                continue
            r = rng("C17aligned", boundary, delta)
            tails = [300, 7, 1]
            items = [r.randrange(256) for _ in range(n1 + sum(tails))]
            vals = [7, items, "end"]
            data = c.encode_stream(proto, m.schema("BtNumU8"), vals, partitions={1: [n1] + tails})
            caps = [n1, n1 // 2 if n1 % 2 == 0 else n1 // 3, n1 - 1, n1 + 1, 64, 1, n1 + 300]
            for cap in caps:
                ep = rt.CppEndpoint(m, "plain", bufs=[cap])
                res = ep.copy("BtNumU8", "bin", "bin", data)
                ctx.ev()
                ctx.count("aligned-block-ends.cpp")
                rt.judge(ctx, m, proto, vals, data, res, ep.name, "bin", "a block of %d one-byte items ending at byte %d%+d, then blocks of %s, read with batch capacity %d" % (n1, boundary, delta, tails, cap), {"aligned_block_end": True})
            for ep in (rt.PyEndpoint(m), rt.PyEndpoint(m, mode="list")):
                res = ep.copy("BtNumU8", "bin", "bin", data)
                ctx.ev()
                ctx.count("aligned-block-ends.py")
                rt.judge(ctx, m, proto, vals, data, res, ep.name, "bin", "a block of %d one-byte items ending at byte %d%+d read by %s" % (n1, boundary, delta, ep.name), {"aligned_block_end": True})
            ctx.case(("aligned-block-end", boundary, delta))
    ctx.sample({"protocols": [p.name for p in pkg.protocols()], "capacities": CAPS, "jobs": len(jobs)})
    ctx.sample({"example_partitions_n4": partitions(4)})
    m.close()
    cxx.prune_cache()


def replay(ctx, path):
    import json
    print(json.dumps(json.load(open(path)), indent=1, default=str)[:3000])
    run(ctx)
