"""C16 - a truncated stream is reported, never mistaken for a complete one.

Workload (fault enumeration over cut points): valid reference streams cut at *every* prefix length (small streams) and,
for streams of 64 KiB - 300 KiB, at every length within +-16 of each multiple of 65536, of each block header and of each
top-level value, plus seeded random lengths. Readers: generated C++ (asserts on, -DNDEBUG, ASan+UBSan) and generated
Python; output as NDJSON (unit-buffered) so that each delivered value is one flushed line.
Oracle: every proper prefix makes the reader fail with a *reported error* (non-zero exit, no signal, no assert abort, no
sanitizer report, CPU bounded) and the lines delivered before the error are a prefix of the reference NDJSON."""
from __future__ import annotations

import json
import os

from vlib import common, corpus, cxx, rt, values
from vlib.common import pmap, rng, Inconclusive
from vlib.model import *  # noqa
from vlib.refcodec import CodecError

LEVEL = "fault_enumeration"
FLOOR = {"quick": 2000, "thorough": 30000}
VALGRIND_SAMPLE = {"quick": 12, "thorough": 120}     # cut points per stream that are also read under valgrind memcheck (NDEBUG build)


def judge_cut(ctx, m, proto, vals, ref_docs, data, cut, r: rt.Result, ep_name, what):
    c = m.codec
    sig = msg = None
    if r.timed_out:
        raise Inconclusive("watchdog: " + what)
    if r.cpu_exceeded:
        sig, msg = "hang:%s" % ep_name, "reader does not terminate on a truncated stream (CPU bound)"
    elif r.sig is not None:
        kind = "assert" if "Assertion" in r.stderr else ("sanitizer" if ("Sanitizer" in r.stderr or "runtime error:" in r.stderr) else "signal%s" % r.sig)
        sig, msg = "crash:%s:%s:%s" % (ep_name, kind, cut_class(cut)), "reader died with signal %s instead of reporting an error: %s" % (r.sig, r.stderr[-400:])
    elif r.rc == 0:
        sig, msg = "mistaken-for-complete:%s:%s" % (ep_name, cut_class(cut)), "reader completed normally on a stream cut at byte %d of %d" % (cut, len(data))
    elif "Sanitizer" in r.stderr or "runtime error:" in r.stderr:
        sig, msg = "sanitizer:%s:%s" % (ep_name, cut_class(cut)), "sanitizer report: %s" % r.stderr[-500:]
    elif r.rc == 97 or "Invalid read of size" in r.stderr or "Invalid write of size" in r.stderr or "uninitialised value" in r.stderr:
        sig, msg = "valgrind:%s:%s" % (ep_name, cut_class(cut)), "valgrind memcheck report: %s" % r.stderr[-700:]
    else:
        # delivered values must be a prefix of what was written
        try:
            text = r.out.decode("utf-8", "replace")
            lines = text.split("\n")
            complete = lines[:-1]          # the last element is a partial line (or empty)
            got = [json.loads(l) for l in complete if l.strip()]
        except ValueError as e:
            got = None
            sig, msg = "garbled-output:%s" % ep_name, "a delivered line is not JSON: %s" % e
        if got is not None:
            if len(got) > len(ref_docs):
                sig, msg = "extra-values:%s" % ep_name, "%d lines delivered, the full stream only has %d" % (len(got), len(ref_docs))
            else:
                steps = {sn: (c.fq(st).item if isinstance(c.fq(st), S) else c.fq(st)) for sn, st in proto.steps}
                for i, (g, rf) in enumerate(zip(got, ref_docs)):
                    if i == 0:
                        if g != rf:
                            sig, msg = "wrong-header-line:%s" % ep_name, "header line differs"
                            break
                        continue
                    if not isinstance(g, dict) or list(g.keys()) != list(rf.keys()):
                        sig, msg = "wrong-value:%s:%s" % (ep_name, cut_class(cut)), "delivered line %d is %s, written was %s" % (i + 1, str(g)[:120], str(rf)[:120])
                        break
                    sn = list(rf.keys())[0]
                    d = c.json_match(steps[sn], g[sn], rf[sn], "$." + sn)
                    if d:
                        sig, msg = "wrong-value:%s:%s" % (ep_name, cut_class(cut)), "value delivered before the error differs from the value written: line %d %s" % (i + 1, d)
                        break
    if sig:
        ip = rt.save_input(ctx, "%s_cut%d_%s.bin" % (proto.name, cut, ep_name), data[:cut])
        ctx.violation(sig, "%s: %s" % (what, msg), {"model_dir": m.root, "protocol": proto.name, "cut": cut, "full_length": len(data), "input_path": ip,
                                                  "stderr": r.stderr[-1200:], "output_tail": r.out[-300:]})
        return False
    return True


def cut_class(cut: int) -> str:
    return "at-64KiB-multiple" if cut > 0 and cut % 65536 == 0 else "other"


def run_stream(ctx, m, proto, vals, data, cuts, endpoints, tag):
    c = m.codec
    ref_docs = [json.loads(l) for l in c.ndjson_lines(proto, m.schema(proto.name), vals)]

    vg_cuts = set(sorted(cuts)[:: max(1, len(cuts) // VALGRIND_SAMPLE[ctx.tier])]) if any(getattr(e, "flavor", "") == "ndebug" for e in endpoints) else set()
    vg_ep = rt.CppEndpoint(m, "valgrind")

    def one(cut):
        for ep in endpoints + ([vg_ep] if cut in vg_cuts else []):
            r = ep.copy(proto.name, "bin", "ndjson", data[:cut])
            ctx.ev()
            ctx.count("cut." + ep.name)
            judge_cut(ctx, m, proto, vals, ref_docs, data, cut, r, ep.name, "%s cut at %d/%d" % (tag, cut, len(data)))
        ctx.case((tag, cut))

    # C++ endpoints are processes: run cuts in parallel; the python worker is serialised by its lock
    pmap(one, cuts)


def run_ndjson_stream(ctx, m, proto, vals, endpoints, tag, quick):
    """NDJSON input: the reference text and the text the generated C++ writes for the same values, cut at every byte position after the header line (and a
    sample inside it). The format has no terminator: a cut that leaves complete lines only, after which every remaining step is a stream, IS a complete
    (shorter) stream by the documented format - those cuts are exempt from `must fail` (the values delivered are still judged)."""
    c = m.codec
    sch = m.schema(proto.name)
    lines = c.ndjson_lines(proto, sch, vals)
    ref_docs = [json.loads(l) for l in lines]
    texts = [("reference", ("\n".join(lines) + "\n").encode())]
    w = rt.CppEndpoint(m, "plain").copy(proto.name, "bin", "ndjson", c.encode_stream(proto, sch, vals))
    ctx.ev()
    if w.rc == 0 and w.sig is None and w.out and w.out != texts[0][1]:
        texts.append(("c++-written", w.out))
    step_names = [sn for sn, _ in proto.steps]
    is_stream = [isinstance(c.fq(st), S) for _, st in proto.steps]

    def exempt(text, cut):
        pre = text[:cut]
        body = pre[:-1] if pre.endswith(b"\n") else pre
        ls = body.split(b"\n")
        try:
            docs = [json.loads(x) for x in ls]
        except ValueError:
            return False
        if not pre.endswith(b"\n") and text[cut:cut + 1] != b"\n":
            return False            # a proper prefix of a line that happens to parse (cannot happen for objects, kept for safety)
        j = -1
        for d in docs[1:]:
            if not isinstance(d, dict) or len(d) != 1 or list(d)[0] not in step_names:
                return False
            j = max(j, step_names.index(list(d)[0]))
        return len(docs) >= 1 and all(is_stream[k] for k in range(j + 1, len(step_names)))

    for src, text in texts:
        hdr = text.index(b"\n") + 1
        cuts = list(range(hdr, len(text))) + list(range(0, hdr, max(1, hdr // (25 if quick else 200))))
        if len(cuts) > (500 if quick else 4000):
            cuts = sorted(rng("C16ndcuts", tag, src).sample(cuts, 500 if quick else 4000))

        def one(cut, text=text, src=src):
            ex = exempt(text, cut)
            for ep in endpoints:
                r = ep.copy(proto.name, "ndjson", "ndjson", text[:cut])
                ctx.ev()
                ctx.count("ndjson-cut." + ep.name)
                if ex and r.rc == 0 and r.sig is None:
                    ctx.count("ndjson-cut.complete-by-format")
                    r.rc = 3          # a shorter complete stream was read as such: only the delivered values are judged
                judge_cut(ctx, m, proto, vals, ref_docs, text, cut, r, ep.name, "%s, %s NDJSON text cut at %d/%d" % (tag, src, cut, len(text)))
            ctx.case((tag, "ndjson", src, cut))
        pmap(one, cuts)


def run(ctx):
    common.build_yardl()
    quick = ctx.tier == "quick"
    ctx.rule = ("streams: seeded corpus models (every prefix length of a small stream), sweep-model streams padded to 64-200 KiB (cuts within +-16 of every "
                "multiple of 65536, of block headers and of top-level values, + random cuts); readers: C++ plain / NDEBUG / ASan+UBSan and Python. "
                "distinct = (stream, cut position); every case is a proper prefix.")
    ctx.assumptions = ["reference codec gives the byte offsets of blocks and values", "NDJSON lines are flushed per value (std::unitbuf) so that a crash cannot hide delivered values",
                       "asserts-on and -DNDEBUG builds are both in the workload (the shipped headers contain asserts)"]
    flavors = ["plain", "ndebug", "asan"]
    keys = corpus.ser_keys(4 if quick else 30, "t")

    def small(key):
        pkg = corpus.ser_package(key, depth=2)
        m = rt.prepare_model(ctx, key, pkg, flavors)
        if m is None:
            return
        c = m.codec
        eps = [rt.CppEndpoint(m, fl) for fl in flavors] + [rt.PyEndpoint(m)]
        for proto in pkg.protocols()[: (1 if quick else 3)]:
            if rt.py_triggers(m, proto):
                eps_p = eps[:-1]     # python cannot read these at all (known finding of C03)
            else:
                eps_p = eps
            vg = values.ValueGen(c, rng("C16v", key, proto.name), json_safe=True, max_len=3)
            vals = vg.steps(proto, stream_len=3)
            data = c.encode_stream(proto, m.schema(proto.name), vals, partitions=None)
            hdr = len(c.encode_stream(proto, m.schema(proto.name), vals, upto=0))
            # every prefix of the payload; a sample of header prefixes
            cuts = list(range(hdr, len(data))) + list(range(0, hdr, max(1, hdr // (40 if quick else 200))))
            if len(cuts) > (900 if quick else 5000):
                rr = rng("C16cuts", key)
                cuts = sorted(rr.sample(cuts, 900 if quick else 5000))
            run_stream(ctx, m, proto, vals, data, cuts, eps_p, "corpus %s/%s" % (key, proto.name))
            run_ndjson_stream(ctx, m, proto, vals, [e for e in eps_p if getattr(e, "flavor", "plain") in ("plain", "asan")], "corpus %s/%s" % (key, proto.name), quick)
            ctx.sample({"model": key, "protocol": proto.name, "stream_bytes": len(data), "header_bytes": hdr, "cuts": len(cuts)})
        m.close()

    for k in keys:
        small(k)

    # protocols that *end* with a stream, read through the batched C++ API (CopyTo with buffers of 2, 3 and 64 items) and item by item:
    # every prefix, in particular the cuts on block boundaries where a batch read has just delivered complete blocks
    def tail_streams():
        rec = Rec("TsRec", [("id", P("int32")), ("name", P("string")), ("w", Opt(P("float64")))])
        pkg = Pkg("TailStreams", [rec, Proto("TsOne", [("head", P("int32")), ("items", S(N("TsRec")))]), Proto("TsOnly", [("nums", S(P("uint64")))]),
                                  Proto("TsTwo", [("a", S(P("int16"))), ("b", S(N("TsRec")))])])
        m = rt.prepare_model(ctx, "tailstreams", pkg, ["plain", "asan"])
        if m is None:
            raise Inconclusive("tail-stream model did not build")
        c = m.codec
        for proto in pkg.protocols():
            nst = sum(1 for _, t in proto.steps if isinstance(c.fq(t), S))
            eps = [rt.CppEndpoint(m, "plain"), rt.PyEndpoint(m)] + [rt.CppEndpoint(m, fl, bufs=[b] * nst) for fl, b in (("plain", 2), ("plain", 3), ("asan", 3), ("plain", 64))]
            for ep, b in zip(eps[2:], (2, 3, 3, 64)):
                ep.name = "%s-batch%d" % (ep.name, b)
            sidx = [i for i, (_, t) in enumerate(proto.steps) if isinstance(c.fq(t), S)]
            for parts in ("one-block", "block-per-item", "3-3-1"):
                rr = rng("C16ts", proto.name, parts)
                recv = lambda k: [k * 1000 - 3, "item-%d" % k * (1 + k % 3), (None if k % 2 else (0, values.f64(k / 4.0)))]
                vals = {"TsOne": [rr.randrange(-5, 500), [recv(k) for k in range(7)]], "TsOnly": [[rr.choice([0, 127, 128, 2**32, 2**64 - 1, 300, 5]) for _ in range(7)]],
                        "TsTwo": [[rr.randrange(-300, 300) for _ in range(7)], [recv(k) for k in range(7)]]}[proto.name]
                pt = None if parts == "one-block" else {i: ([1] * 7 if parts == "block-per-item" else [3, 3, 1]) for i in sidx}
                data = c.encode_stream(proto, m.schema(proto.name), vals, partitions=pt)
                hdr = len(c.encode_stream(proto, m.schema(proto.name), vals, upto=0))
                cuts = list(range(hdr, len(data)))
                run_stream(ctx, m, proto, vals, data, cuts, eps, "tail-stream %s (%s)" % (proto.name, parts))
        m.close()
    tail_streams()
    evolved_streams(ctx, quick)

    # large streams: the sweep model, padded
    pkg, cases = corpus.sweep_package()
    m = rt.prepare_model(ctx, "sweep", pkg, flavors)
    if m is None:
        raise Inconclusive("sweep model did not build")
    c = m.codec
    eps = [rt.CppEndpoint(m, fl) for fl in flavors] + [rt.PyEndpoint(m)]
    sel = [x for x in cases if x[1] == "stream" and x[0] in ("SwSRecMix", "SwSUint64", "SwSString", "SwSVecFloat64", "SwSFloat64", "SwSUnionIntStr")]
    if quick:
        sel = sel[:3]
    for pname, kind, t, v in sel:
        proto = pkg.find(pname)
        sch = m.schema(pname)
        rr = rng("C16big", pname)
        base = len(c.encode_stream(proto, sch, ["", [], 0], upto=0))
        # pad so that the stream body begins a little before the first 64 KiB boundary and spans 2-3 buffers
        items = [v] * (rr.choice([3000, 5000]) if not quick else 2500)
        pad = "p" * (65536 - base - rr.randint(3, 40))
        sizes = []
        left = len(items)
        while left:
            s = min(left, rr.choice([1, 7, 100, 1000]))
            sizes.append(s)
            left -= s
        vals = [pad, items, 0xDEADBEEF]
        data = c.encode_stream(proto, sch, vals, partitions={1: sizes})
        # offsets of block headers
        offs = set()
        pos = len(c.encode_stream(proto, sch, vals, upto=1))
        item_len = None
        b = bytearray()
        c.enc(c.fq(proto.steps[1][1]).item, v, b)
        item_len = len(b)
        from vlib.refcodec import put_uvarint
        p = pos
        for s in sizes:
            offs.add(p)
            h = bytearray()
            put_uvarint(h, s)
            p += len(h) + s * item_len
        cuts = set()
        for k in range(1, len(data) // 65536 + 1):
            for d in range(-16, 17):
                cuts.add(k * 65536 + d)
        for o in list(offs)[:: max(1, len(offs) // (10 if quick else 60))]:
            for d in range(-2, 4):
                cuts.add(o + d)
        for _ in range(60 if quick else 500):
            cuts.add(rr.randrange(len(data)))
        cuts.add(len(data) - 1)
        cuts = sorted(x for x in cuts if 0 <= x < len(data))
        run_stream(ctx, m, proto, vals, data, cuts, eps, "large %s" % pname)
        ctx.sample({"protocol": pname, "stream_bytes": len(data), "blocks": len(sizes), "cuts": len(cuts), "cuts_at_64KiB_multiples": [x for x in cuts if x % 65536 == 0]})
    m.close()
    # single contiguous values of more than 64 KiB (bulk read paths), as a stream item and as the last step
    bpkg, bcases = corpus.big_package()
    bm = rt.prepare_model(ctx, "bigvals", bpkg, ["plain", "ndebug"])
    if bm is None:
        raise Inconclusive("big-value model did not build")
    bc = bm.codec
    beps = [rt.CppEndpoint(bm, "plain"), rt.CppEndpoint(bm, "ndebug"), rt.PyEndpoint(bm)]
    for pname, t, v in (bcases[:3] + bcases[6:8] if quick else bcases):
        proto = bpkg.find(pname)
        vals = [7, v, [v], "t"]
        data = bc.encode_stream(proto, bm.schema(pname), vals)
        rr = rng("C16bigval", pname)
        start = len(bc.encode_stream(proto, bm.schema(pname), vals, upto=1))
        cuts = set([len(data) - 1, len(data) - 2, len(data) - 3, start + 1, start + 10])
        for k in range(1, len(data) // 65536 + 1):
            for d in (-1, 0, 1, 7):
                cuts.add(k * 65536 + d)
        for _ in range(12 if quick else 80):
            cuts.add(rr.randrange(start, len(data)))
        cuts = sorted(x for x in cuts if 0 <= x < len(data))
        run_stream(ctx, bm, proto, vals, data, cuts, beps, "bigvalue %s" % pname)
    bm.close()
    cxx.prune_cache()


def evolved_streams(ctx, quick):
    """streams written under a *previous* version, read by the newest generated C++ reader (which converts: reads removed fields and drops them, fills
    added ones): every proper prefix must be reported as an error, and the lines delivered before the error are a prefix of what the complete stream
    delivers. The removed / added fields sit at the end of the last record of the stream (nothing follows them), in the middle, and inside stream items."""
    import re
    import shutil
    from vlib import cli, emit
    from vlib.refcodec import Codec
    home = os.path.join(ctx.workdir, "home")
    os.makedirs(home, exist_ok=True)
    f32t = P("float32")
    keep = [("id", P("uint32")), ("name", P("string"))]
    shapes = {
        "trailing-bulk-fields-removed": (keep + [("note", P("string")), ("trace", V(f32t)), ("img", A(P("float64"), 2)), ("raw", A(P("uint8"), None))], keep),
        "trailing-mixed-fields-removed": (keep + [("counts", V(P("int32"))), ("maybe", Opt(P("string"))), ("blob", V(P("uint8")))], keep),
        "middle-fields-removed": ([("id", P("uint32")), ("trace", V(f32t)), ("note", P("string")), ("name", P("string"))], keep),
        "fields-added": (keep, keep + [("extra", Opt(V(f32t))), ("more", Opt(P("string")))]),
        "field-widened-and-removed": ([("id", P("uint32")), ("name", P("string")), ("gain", f32t), ("samples", V(P("complexfloat32")))], [("id", P("uint32")), ("name", P("string")), ("gain", P("float64"))]),
    }
    names = list(shapes)[:2] if quick else list(shapes)
    flavors = ["plain", "asan"] if quick else ["plain", "ndebug", "asan"]
    for name in names:
        fo, fn = shapes[name]

        def mk(fields, versions, d):
            return Pkg("Evo", [Rec("Item", fields), Proto("Evo", [("head", P("string")), ("items", S(N("Item"))), ("last", N("Item"))])], [], versions, d)
        old = mk(fo, [], "v0")
        new = mk(fn, [("v0", old)], "v1")
        base = os.path.join(ctx.workdir, "cases", "evolved_" + name.replace("-", "_"))
        shutil.rmtree(base, ignore_errors=True)
        common.write_tree(base, emit.package_files(new, None, emit.default_outputs("../out_new", python=False, cpp_opts=cxx.cpp_gen_options({}))))
        common.write_tree(os.path.join(base, "solo"), emit.package_files(old, None, emit.default_outputs("../out_old", python=False, cpp_opts=cxx.cpp_gen_options({"generateNDJson": False}))))
        p1 = cli.run_cli("generate", os.path.join(base, new.dir), home)
        p0 = cli.run_cli("generate", os.path.join(base, "solo", old.dir), home)
        if p1.rc != 0 or p0.rc != 0:
            raise Inconclusive("evolved-stream pair %s rejected: %s" % (name, cli.clean(p1.stderr + p0.stderr)[:300]))
        sch_old = re.search(r'std::string EvoWriterBase::schema_ = R"\((.*?)\)";', open(os.path.join(base, "solo/out_old/cpp/protocols.cc")).read(), re.S).group(1)
        try:
            exes = {fl: cxx.build(os.path.join(base, "out_new/cpp"), fl) for fl in flavors}
        except cxx.CompileError as e:
            raise Inconclusive("evolved-stream pair %s does not compile: %s" % (name, str(e)[-300:]))
        co = Codec(old)
        po = old.find("Evo")
        vals = values.ValueGen(co, rng("C16evo", name), json_safe=True, max_len=6).steps(po, stream_len=3)
        data = co.encode_stream(po, sch_old, vals)
        hdr = len(co.encode_stream(po, sch_old, vals, upto=0))
        full = {}
        for fl, exe in exes.items():
            pr = cxx.run_driver(exe, ["Evo", "bin", "ndjson"], data, fl)
            ctx.ev()
            if pr.rc != 0 or pr.sig is not None:
                raise Inconclusive("evolved-stream pair %s: the complete v0 stream is not read by the newest reader (%s): %s" % (name, fl, pr.stderr[-300:]))
            full[fl] = [l for l in pr.out.decode("utf-8", "replace").split("\n") if l.strip()]
        cuts = list(range(hdr, len(data))) + list(range(0, hdr, max(1, hdr // 30)))
        cap = 1500 if quick else 20000
        if len(cuts) > cap:
            rr = rng("C16evocuts", name)
            tail = [c for c in cuts if c >= len(data) - 300]
            cuts = sorted(set(rr.sample(cuts, cap - len(tail)) + tail))

        def one(cut):
            for fl, exe in exes.items():
                pr = cxx.run_driver(exe, ["Evo", "bin", "ndjson"], data[:cut], fl)
                ctx.ev()
                ctx.count("evolved-cut.cpp-" + fl)
                what = "v0 stream (%s) cut at %d/%d, read by the newest reader [%s]" % (name, cut, len(data), fl)
                sig = None
                if pr.timed_out:
                    raise Inconclusive("watchdog: " + what)
                if pr.cpu_exceeded:
                    sig, msg = "hang:cpp-%s:evolved" % fl, "reader does not terminate"
                elif pr.sig is not None:
                    sig, msg = "crash:cpp-%s:evolved:%s" % (fl, "sanitizer" if "Sanitizer" in pr.stderr or "runtime error:" in pr.stderr else "signal"), "reader died with signal %s: %s" % (pr.sig, pr.stderr[-300:])
                elif pr.rc == 0:
                    sig, msg = "mistaken-for-complete:cpp-%s:evolved" % fl, "reader completed normally on a truncated previous-version stream"
                elif "Sanitizer" in pr.stderr or "runtime error:" in pr.stderr:
                    sig, msg = "sanitizer:cpp-%s:evolved" % fl, pr.stderr[-400:]
                else:
                    lines = pr.out.decode("utf-8", "replace").split("\n")[:-1]
                    lines = [l for l in lines if l.strip()]
                    if lines != full[fl][:len(lines)]:
                        sig, msg = "wrong-value:cpp-%s:evolved" % fl, "delivered lines are not a prefix of what the complete stream delivers"
                if sig:
                    ctx.violation(sig, "%s: %s" % (what, msg), {"case_dir": base, "cut": cut, "shape": name})
            ctx.case(("evolved", name, cut))
        pmap(one, cuts)
        ctx.sample({"evolved_pair": name, "stream_bytes": len(data), "cuts": len(cuts)})


def replay(ctx, path):
    r = json.load(open(path))
    print(json.dumps(r, indent=1, default=str)[:3000])
    run(ctx)
