"""C08 - every accepted package yields well-formed code for every target and option set.

Workload: (i) ser-corpus models; (ii) a small base model with ONE hostile identifier in one position (type, generic parameter, field,
computed field, protocol, step, enum symbol, union tag, array dimension, namespace, version label) drawn from C++ / Python / MATLAB
keywords and builtins, names of generated helpers, and pairs that collide after case conversion; (iii) the option matrix (cpp
generateNDJson / generateHDF5 / generateCMakeLists / overrideArrayHeader, python, json, matlab, disabled; via _package.yml and -c);
(iv) `yardl init <name>` scaffolds.
Monitor: exit status / panic of validate and generate; the generated Python package imported in a fresh interpreter (-X dev) with every
writer and serializer constructed; g++ -std=c++17 -fsyntax-only of every generated translation unit; file.write events.
Oracle: if validate accepts, generate exits 0, Python imports, C++ compiles, and no output path is written twice with different content."""
from __future__ import annotations

import json
import os
import shutil
import subprocess

from vlib import cli, common, corpus, cxx, emit, mut
from vlib.common import pmap, rng, Inconclusive
from vlib.model import *  # noqa

LEVEL = "exploration"
FLOOR = {"quick": 250, "thorough": 3000}

MEMBER_NAMES = ["class", "def", "lambda", "none", "true", "false", "self", "other", "import", "from", "global", "yield", "async", "await", "nonlocal", "pass",
                "raise", "type", "list", "dict", "len", "value", "values", "index", "dtype", "schema", "close", "flush", "copyTo", "std", "yardl", "np", "typing",
                "datetime", "collections", "abc", "int", "float", "double", "char", "auto", "template", "typename", "namespace", "operator", "new", "delete", "this",
                "friend", "union", "struct", "register", "signed", "unsigned", "volatile", "and", "or", "not", "xor", "end", "function", "classdef", "properties",
                "methods", "persistent", "elseif", "otherwise", "parfor", "switch", "case", "default", "static", "const", "void", "bool", "string", "size", "date",
                "time", "stream", "state", "version", "x" * 64, "a1B", "isinstance", "print", "object", "id", "input", "max", "min", "str", "bytes", "set", "map",
                "numpy", "mro", "name", "hasFlags", "kValue", "typeid", "sizeof", "nullptr", "alignas", "concept", "requires", "coAwait", "export", "inline",
                "mutable", "noexcept", "break", "continue", "goto", "in", "is", "as", "with", "del", "exec", "eval",
                # names that only become reserved words after snake_casing
                "threadLocal", "notEq", "staticCast", "wcharT", "andEq", "orEq", "xorEq", "bitAnd", "bitOr", "constCast", "dynamicCast", "reinterpretCast",
                "staticAssert", "char8T", "char16T", "char32T", "isNot", "notIn", "coReturn", "coYield"]
TYPE_NAMES = ["Version", "Close", "Flush", "Date", "Time", "DateTime", "Size", "Optional", "Union", "Map", "List", "None", "True", "Type", "Enum", "Int32", "String",
              "Vector", "Array", "NDArray", "DynamicNDArray", "Object", "Exception", "Yardl", "Std", "Np", "Binary", "Ndjson", "Types", "Protocols", "BaseFlags",
              "ProtocolError", "UnionCase", "OutOfRangeEnum", "Any", "Generic", "Protocol", "HostProtoReader", "HostProtoWriterBase", "HostProtoReaderBase",
              "BinaryHostProtoWriter", "NDJsonHostProtoReader", "HostRecSerializer", "HostRecConverter", "Class", "Lambda", "Self", "Float", "Double", "Int", "Bool",
              "Complex", "Dict", "Tuple", "Iterable", "Annotated", "Integer", "Datetime", "X" * 64, "T", "Namespace", "Template", "Operator", "Struct", "Main"]
NAMESPACES = ["Std", "Yardl", "Np", "Numpy", "Typing", "Datetime", "Abc", "Types", "Binary", "Ndjson", "Protocols", "Sys", "Os", "Test", "Int", "Class", "Namespace",
              "Double", "Float", "Void", "Detail", "Hdf5", "Collections", "Enum", "Io", "Re", "Struct", "Lambda", "None", "Import", "Matlab", "Function", "End",
              "A", "X" * 40, "Json", "Nlohmann", "Date", "Xt", "Math", "String", "Time", "Operator", "Python", "Cpp"]
COLLIDING_PAIRS = [("fooBar", "fooBAR"), ("a1b", "a1B"), ("fooBar", "foobar"), ("xY", "xy"), ("value", "value2"), ("ab1", "aB1"), ("fooBar", "fooBar2"), ("uRL", "url"),
                   ("hTTPServer", "httpServer"), ("aB", "ab")]


def base_model(**names):
    n = dict(ns="Host", rec="HostRec", gen="HostGen", tparam="T", f1="alpha", f2="beta", cf="gamma", proto="HostProto", s1="first", s2="second",
             enum="HostEnum", sym1="one", sym2="two", tag1="intCase", tag2="strCase", dim1="x", dim2="y", flags="HostFlags", alias="HostAlias")
    n.update(names)
    model = """
%(enum)s: !enum
  values: [%(sym1)s, %(sym2)s]
%(flags)s: !flags
  values: [%(sym1)s, %(sym2)s]
%(alias)s: !array
  items: float
  dimensions: [%(dim1)s, %(dim2)s]
"%(gen)s<%(tparam)s>": !record
  fields:
    %(f1)s: %(tparam)s
    %(f2)s: %(tparam)s*
%(rec)s: !record
  fields:
    %(f1)s: int
    %(f2)s: !union
      %(tag1)s: int
      %(tag2)s: string
    en: %(enum)s
    fl: %(flags)s
    arr: %(alias)s
    g: %(gen)s<string>
    un: [int, float, %(gen)s<int>?][0:0]
  computedFields:
    %(cf)s: %(f1)s + 1
    dimSize: size(arr, '%(dim1)s')
    pick:
      !switch %(f2)s:
        int i: i
        string s: 0
%(proto)s: !protocol
  sequence:
    %(s1)s: %(rec)s
    %(s2)s: !stream
      items: %(rec)s
""" % n
    model = model.replace("    un: [int, float, %(gen)s<int>?][0:0]\n" % n, "")
    return n, model


def write_case(root, n, model, extra_manifest="", versions=None):
    man = "namespace: %s\n%scpp:\n  sourcesOutputDir: ../out/cpp\n  generateCMakeLists: false\n  generateHDF5: false\n  overrideArrayHeader: %s\npython:\n  outputDir: ../out/python\nmatlab:\n  outputDir: ../out/matlab\njson:\n  outputDir: ../out/json\n" % (
        n["ns"], extra_manifest, cxx.ARRAY_HEADER)
    files = {"pkg/_package.yml": man, "pkg/model.yml": model}
    if versions:
        for lbl, (vman, vmodel) in versions.items():
            files["%s/_package.yml" % lbl] = vman
            files["%s/model.yml" % lbl] = vmodel
    common.write_tree(root, files)
    return os.path.join(root, "pkg")


def check_outputs(ctx, root, pkgdir, home, what, sig_suffix, args=(), cpp=True, python=True, full_cpp=False, cpp_dir=None, py_dir=None):
    """validate -> generate -> python import/construct -> C++ syntax check -> write collisions. Returns 'rejected' | 'ok' | 'bad'"""
    pv = cli.run_cli("validate", pkgdir, home, list(args))
    ctx.ev()
    if cli.panic_site(pv.stderr):
        ctx.violation("panic@%s" % cli.panic_site(pv.stderr), "%s: validate crashed" % what, {"case_dir": root, "proc": pv.brief()})
        return "bad"
    if pv.rc != 0:
        ctx.count("rejected-by-validate")
        return "rejected"
    evlog = os.path.join(root, "events.log")
    pg = cli.run_cli("generate", pkgdir, home, list(args), event_log=evlog)
    ctx.ev()
    site = cli.panic_site(pg.stderr)
    if site:
        ctx.violation("generate-panic@%s" % site, "%s: accepted by validate but generate crashed" % what, {"case_dir": root, "proc": pg.brief()})
        return "bad"
    if pg.rc != 0:
        ctx.violation("generate-failed:%s" % sig_suffix, "%s: accepted by validate but generate fails: %s" % (what, cli.clean(pg.stderr)[:300]), {"case_dir": root, "proc": pg.brief()})
        return "bad"
    bad = False
    # write collisions
    writes = {}
    for e in common.read_events(evlog):
        if e.get("ev") == "file.write":
            writes.setdefault(e["kv"]["path"], []).append(e["kv"]["changed"])
    twice = [p for p, ch in writes.items() if len(ch) > 1 and "true" in ch[1:]]
    if twice:
        ctx.violation("output-path-collision:%s" % sig_suffix, "%s: output path written twice with different content in one run: %s" % (what, [os.path.relpath(p, root) for p in twice[:4]]), {"case_dir": root})
        bad = True
    ctx.count("write-events", sum(len(v) for v in writes.values()))
    cpp_dir = cpp_dir or os.path.join(root, "out/cpp")
    py_dir = py_dir or os.path.join(root, "out/python")
    if python and os.path.isdir(py_dir):
        ents = [e for e in os.listdir(py_dir) if os.path.isdir(os.path.join(py_dir, e)) and not e.startswith("__")]
        if len(ents) != 1:
            ctx.violation("python-package-layout:%s" % sig_suffix, "%s: expected one generated python package, found %s" % (what, ents), {"case_dir": root})
            bad = True
        else:
            w = mut.PyWorker(py_dir, ents[0], os.path.join(root, "pyio"))
            ctx.ev()
            if not w.hello.get("ready"):
                from vlib.rt import py_import_errclass
                cls = py_import_errclass(w.hello.get("error"))
                ctx.violation("python-import-failed:%s%s" % (sig_suffix, cls), "%s: generated Python package does not import: %s" % (what, w.hello.get("error")), {"case_dir": root, "tb": w.hello.get("tb")})
                bad = True
            else:
                res = w.cmd({"op": "construct"})
                if not res.get("ok"):
                    ctx.violation("python-construct-failed:%s" % sig_suffix, "%s: constructing generated writers / serializers fails: %s" % (what, res.get("error")), {"case_dir": root, "tb": res.get("tb")})
                    bad = True
            w.close()
            ctx.count("python-imported")
    if cpp and os.path.isdir(cpp_dir):
        srcs = []
        for dp, _, fs in os.walk(cpp_dir):
            for f in fs:
                if f.endswith(".cc") and "/hdf5" not in dp and (full_cpp or "ndjson" not in dp):
                    srcs.append(os.path.join(dp, f))

        def cc(s):
            with cxx._cc_sem:
                p = subprocess.run(cxx.compile_cmd("syntax", s, None, cpp_dir), capture_output=True, text=True)
            return s, p.returncode, p.stderr
        for s, rc, err in [cc(s) for s in srcs]:
            ctx.ev()
            ctx.count("cpp-tu-compiled")
            if rc != 0:
                first = [l for l in err.split("\n") if "error" in l][:1]
                vb = ":vector-bool" if "std::vector<bool" in err else ""
                ctx.violation("cpp-compile-failed:%s%s" % (sig_suffix, vb), "%s: generated %s does not compile: %s" % (what, os.path.relpath(s, cpp_dir), first), {"case_dir": root, "stderr": err[-2500:]})
                bad = True
                break
    return "bad" if bad else "ok"


def run(ctx):
    common.build_yardl()
    quick = ctx.tier == "quick"
    home = os.path.join(ctx.workdir, "home")
    os.makedirs(home, exist_ok=True)
    ctx.rule = ("(i) ser-corpus models, (ii) one hostile identifier per case in one of 17 positions (+ colliding pairs) of a base model that uses every naming position, "
                "(iii) option matrix on one model, (iv) yardl init scaffolds; each accepted case: generate + Python import/construct + g++ -fsyntax-only of generated TUs "
                "+ write-collision log. distinct = (position, identifier) / model / option set. Cases yardl rejects are counted, not judged.")
    ctx.assumptions = ["C++ checked with g++ 12 -std=c++17 -fsyntax-only and harness shims (no xtensor/date/HDF5 in the sandbox): hdf5/*.cc is not compiled",
                       "MATLAB output cannot be parsed or run: only generation success and path collisions are observed",
                       "NDJSON TUs (3-4 s each) are compiled for a subset in the quick tier"]
    jobs = []
    r = rng("C08")
    # (ii) names
    positions = {"f1": MEMBER_NAMES, "cf": MEMBER_NAMES, "s1": MEMBER_NAMES, "sym1": MEMBER_NAMES, "tag1": MEMBER_NAMES, "dim1": MEMBER_NAMES,
                 "rec": TYPE_NAMES, "enum": TYPE_NAMES, "flags": TYPE_NAMES, "alias": TYPE_NAMES, "gen": TYPE_NAMES, "proto": TYPE_NAMES, "tparam": TYPE_NAMES,
                 "ns": NAMESPACES}
    for pos, names in positions.items():
        sel = names if not quick else r.sample(names, min(len(names), 9 if pos in ("f1", "rec", "ns") else 5))
        if quick and pos == "f1":
            sel = sorted(set(sel) | {"threadLocal", "notEq", "staticCast"})
        for nm in sel:
            jobs.append(("name", pos, nm))
    for a, b in COLLIDING_PAIRS if not quick else COLLIDING_PAIRS[:5]:
        for pos in (("f1", "f2"), ("s1", "s2"), ("sym1", "sym2"), ("tag1", "tag2"), ("dim1", "dim2")):
            jobs.append(("pair", pos, (a, b)))
    for lbl in ["class", "v1_0", "Version", "current", "Current", "default", "none", "x" * 50, "a_b_c", "int"][: (4 if quick else 10)]:
        jobs.append(("version-label", lbl, None))

    def one(job):
        kind = job[0]
        if kind == "name":
            _, pos, nm = job
            n, model = base_model(**{pos: nm})
            root = os.path.join(ctx.workdir, "cases", "name_%s_%s" % (pos, nm[:40]))
            what = "identifier %r as %s" % (nm, pos)
            sig = "%s:%s" % (pos, nm[:24])
            versions = None
            extra = ""
        elif kind == "pair":
            _, (p1, p2), (a, b) = job
            n, model = base_model(**{p1: a, p2: b})
            root = os.path.join(ctx.workdir, "cases", "pair_%s_%s_%s" % (p1, a, b))
            what = "identifiers %r and %r as %s/%s" % (a, b, p1, p2)
            sig = "%s:%s+%s" % (p1, a, b)
            versions = None
            extra = ""
        else:
            _, lbl, _ = job
            n, model = base_model()
            root = os.path.join(ctx.workdir, "cases", "vlabel_%s" % lbl[:30])
            what = "version label %r" % lbl
            sig = "version-label:%s" % lbl[:24]
            versions = {"old": ("namespace: Host\n", model)}
            extra = "versions:\n  %s: ../old\n" % lbl
        shutil.rmtree(root, ignore_errors=True)
        pkgdir = write_case(root, n, model, extra, versions)
        res = check_outputs(ctx, root, pkgdir, home, what, sig, full_cpp=not quick)
        ctx.case((kind, str(job[1]), str(job[2])))
        ctx.count("%s.%s" % (kind, res))
        if res != "bad":
            shutil.rmtree(root, ignore_errors=True)
        return (what, res)

    results = pmap(one, jobs, workers=8)
    for w, res in results[:3] + [x for x in results if x[1] == "rejected"][:3]:
        ctx.sample({"case": w, "outcome": res})

    # (i) corpus models (full C++ incl. NDJSON)
    def corp(key):
        pkg = corpus.ser_package(key, depth=3)
        root = os.path.join(ctx.workdir, "cases", "ser_" + key)
        shutil.rmtree(root, ignore_errors=True)
        outs = emit.default_outputs("../out", matlab=True, json=True, cpp_opts=cxx.cpp_gen_options())
        common.write_tree(root, emit.package_files(pkg, corpus.style_for(key), outs))
        res = check_outputs(ctx, root, os.path.join(root, pkg.dir), home, "corpus model %s" % key, "corpus:" + shape_class(pkg), full_cpp=True)
        ctx.case(("ser", key))
        ctx.count("ser.%s" % res)
        if res != "bad":
            shutil.rmtree(root, ignore_errors=True)
    pmap(corp, corpus.ser_keys(10 if quick else 150, "w"), workers=6)

    # (iii) option matrix
    n, model = base_model()
    combos = []
    for nd in (True, False):
        for h5 in (True, False):
            for cm in (True, False):
                for arr in (True, False):
                    combos.append({"generateNDJson": nd, "generateHDF5": h5, "generateCMakeLists": cm, "arr": arr})
    if quick:
        combos = combos[::2]

    def opt(i_c):
        i, cmb = i_c
        root = os.path.join(ctx.workdir, "cases", "opt_%d" % i)
        shutil.rmtree(root, ignore_errors=True)
        via_cli = (i % 2 == 1)
        cppsec = "cpp:\n  sourcesOutputDir: ../out/cpp\n"
        args = []
        for k in ("generateNDJson", "generateHDF5", "generateCMakeLists"):
            if via_cli:
                args += ["-c", "cpp.%s=%s" % (k, "true" if cmb[k] else "false")]
            else:
                cppsec += "  %s: %s\n" % (k, "true" if cmb[k] else "false")
        if cmb["arr"]:
            cppsec += "  overrideArrayHeader: %s\n" % cxx.ARRAY_HEADER
        sections = cppsec + "python:\n  outputDir: ../out/python\n" + ("matlab:\n  outputDir: ../out/matlab\n" if i % 3 else "matlab:\n  outputDir: ../out/matlab\n  disabled: true\n") + \
            ("json:\n  outputDir: ../out/json\n" if i % 4 else "")
        common.write_tree(root, {"pkg/_package.yml": "namespace: Host\n" + sections, "pkg/model.yml": model})
        res = check_outputs(ctx, root, os.path.join(root, "pkg"), home, "options %s%s" % (cmb, " via -c" if via_cli else ""), "options", args=args,
                            cpp=cmb["arr"], full_cpp=cmb["generateNDJson"])
        # option effects that are observable without compiling
        outcpp = os.path.join(root, "out/cpp")
        if res != "rejected" and os.path.isdir(outcpp):
            has = {"nd": os.path.exists(os.path.join(outcpp, "ndjson/protocols.cc")), "h5": os.path.exists(os.path.join(outcpp, "hdf5/protocols.cc")),
                   "cm": os.path.exists(os.path.join(outcpp, "CMakeLists.txt"))}
            if (has["nd"], has["h5"], has["cm"]) != (cmb["generateNDJson"], cmb["generateHDF5"], cmb["generateCMakeLists"]):
                ctx.violation("option-ignored", "options %s: generated files %s do not reflect the options" % (cmb, has), {"case_dir": root})
                res = "bad"
            if i % 3 == 0 and os.path.isdir(os.path.join(root, "out/matlab")):
                ctx.violation("option-ignored:disabled", "matlab.disabled: true but MATLAB output was written", {"case_dir": root})
                res = "bad"
        ctx.case(("options", i))
        ctx.count("options.%s" % res)
        if res != "bad":
            shutil.rmtree(root, ignore_errors=True)
    pmap(opt, list(enumerate(combos)), workers=6)

    # (iii-b) options of the Python / C++ back ends in a package that imports another one
    def opt_import(i):
        pynd, cppnd, via_cli, pydisabled = bool(i & 1), bool(i & 2), bool(i & 4), (i == 8)
        root = os.path.join(ctx.workdir, "cases", "optimp_%d" % i)
        shutil.rmtree(root, ignore_errors=True)
        args, cppsec, pysec = [], "cpp:\n  sourcesOutputDir: ../out/cpp\n  generateHDF5: false\n  generateCMakeLists: false\n  overrideArrayHeader: %s\n" % cxx.ARRAY_HEADER, "python:\n  outputDir: ../out/python\n"
        if via_cli:
            args = ["-c", "python.generateNDJson=%s" % ("true" if pynd else "false"), "-c", "cpp.generateNDJson=%s" % ("true" if cppnd else "false")]
        else:
            pysec += "  generateNDJson: %s\n" % ("true" if pynd else "false")
            cppsec += "  generateNDJson: %s\n" % ("true" if cppnd else "false")
        if pydisabled:
            pysec += "  disabled: true\n"
        common.write_tree(root, {"lib/_package.yml": "namespace: OptLib\n", "lib/lib.yml": "LibRec: !record\n  fields:\n    a: int\n    u: [int, string]\nLibEnum: !enum\n  values: [p, q]\n"
                                 "LibProto: !protocol\n  sequence:\n    r: LibRec\n",
                                 "pkg/_package.yml": "namespace: OptHost\nimports:\n  - ../lib\n" + cppsec + pysec,
                                 "pkg/model.yml": "HostRec: !record\n  fields:\n    l: OptLib.LibRec\n    e: OptLib.LibEnum\n    v: OptLib.LibRec*\nHostProto: !protocol\n  sequence:\n    h: HostRec\n    s: !stream\n      items: OptLib.LibRec\n"})
        res = check_outputs(ctx, root, os.path.join(root, "pkg"), home, "imports + python.generateNDJson=%s cpp.generateNDJson=%s%s%s" % (pynd, cppnd, " via -c" if via_cli else "", " python disabled" if pydisabled else ""),
                            "options-import", args=args, python=not pydisabled, full_cpp=cppnd)
        if pydisabled and os.path.isdir(os.path.join(root, "out/python")):
            ctx.violation("option-ignored:disabled", "python.disabled: true but Python output was written", {"case_dir": root})
            res = "bad"
        ctx.case(("options-import", i))
        ctx.count("options-import.%s" % res)
        if res != "bad":
            shutil.rmtree(root, ignore_errors=True)
    pmap(opt_import, list(range(9)), workers=6)

    # (iii-c) documentation comments that are hostile to the comment / docstring syntax of a target language
    DOCS = ['ends with a "quote"', '"starts with a quote', 'tri"""ple quotes', "tri'''ple single", "ends with a backslash \\", "\\", "has */ inside", "/* opens a block",
            "percent %s %d %%", "{braces} ${x} #{y}", "back\\slash n \\n and \\t", "üñí \u00e7 😀", "</summary> <b>&amp;", "'", '"', '""', "`tick`", "trailing space ", "#", "##  double hash",
            "a: b", "- dash", "--> arrow", "??/ trigraph ??)", "\\u0041 escape", "line one\n# line two with \"quote\""]
    if quick:
        DOCS = DOCS[:8] + DOCS[-2:]

    def docs(i):
        d = DOCS[i]
        lines = d.split("\n# ")
        def cm(ind):
            return "".join("%s# %s\n" % (ind, l) for l in lines)
        model = (cm("") + "DocEnum: !enum\n  values:\n" + cm("    ") + "    one: 1\n" + cm("    ") + "    two: 2\n" +
                 cm("") + "DocAlias: int*\n" + cm("") + "\"DocGen<T>\": !record\n  fields:\n" + cm("    ") + "    g: T\n" +
                 cm("") + "DocRec: !record\n  fields:\n" + cm("    ") + "    a: int\n" + cm("    ") + "    arr: !array\n      items: float\n      dimensions:\n" + cm("        ") + "        x:\n" + cm("        ") + "        y:\n" +
                 cm("    ") + "    u: !union\n" + cm("      ") + "      i: int\n" + cm("      ") + "      s: string\n  computedFields:\n" + cm("    ") + "    twice: a * 2\n" +
                 cm("") + "DocProto: !protocol\n  sequence:\n" + cm("    ") + "    first: DocRec\n" + cm("    ") + "    items: !stream\n      items: DocEnum\n")
        root = os.path.join(ctx.workdir, "cases", "docs_%d" % i)
        shutil.rmtree(root, ignore_errors=True)
        outs = ("cpp:\n  sourcesOutputDir: ../out/cpp\n  generateHDF5: false\n  generateCMakeLists: false\n  overrideArrayHeader: %s\npython:\n  outputDir: ../out/python\n"
                "matlab:\n  outputDir: ../out/matlab\njson:\n  outputDir: ../out/json\n" % cxx.ARRAY_HEADER)
        common.write_tree(root, {"pkg/_package.yml": "namespace: Docs\n" + outs, "pkg/model.yml": model})
        res = check_outputs(ctx, root, os.path.join(root, "pkg"), home, "documentation comment %r" % d, "doc:%d" % i, full_cpp=True)
        if res == "rejected":
            ctx.violation("valid-model-rejected:doc-comment", "a model that only differs by the documentation comment %r is rejected" % d, {"case_dir": root})
            res = "bad"
        ctx.case(("docs", d))
        ctx.count("docs.%s" % res)
        if res != "bad":
            shutil.rmtree(root, ignore_errors=True)
    pmap(docs, list(range(len(DOCS))), workers=6)

    # (iii-d) several open generic definitions whose unions have the same shape over differently named type parameters
    def generics_zoo():
        model = ('"Labeled<T>": !record\n  fields:\n    v: [T, string]\n    o: T?\n'
                 '"Tagged<U>": !record\n  fields:\n    w: [U, string]\n    x: [null, U, int]\n'
                 '"Pairing<A, B>": !record\n  fields:\n    p: [A, B]\n    q: A->B\n'
                 '"Swapped<B, A>": !record\n  fields:\n    p: [B, A]\n    r: [A, B]\n'
                 '"AliasG<K>": [K, float]\n"AliasH<V>": [V, float]\n'
                 'Uses: !record\n  fields:\n    a: Labeled<int>\n    b: Tagged<float>\n    c: Pairing<int, string>\n    d: Swapped<string, int>\n    e: AliasG<string>\n    f: AliasH<bool>\n    g: Labeled<Tagged<float>>\n'
                 'ZooProto: !protocol\n  sequence:\n    u: Uses\n    s: !stream\n      items: Tagged<double>\n')
        root = os.path.join(ctx.workdir, "cases", "generics_zoo")
        shutil.rmtree(root, ignore_errors=True)
        outs = ("cpp:\n  sourcesOutputDir: ../out/cpp\n  generateHDF5: false\n  generateCMakeLists: false\n  overrideArrayHeader: %s\npython:\n  outputDir: ../out/python\n"
                "matlab:\n  outputDir: ../out/matlab\njson:\n  outputDir: ../out/json\n" % cxx.ARRAY_HEADER)
        common.write_tree(root, {"pkg/_package.yml": "namespace: GenZoo\n" + outs, "pkg/model.yml": model})
        res = check_outputs(ctx, root, os.path.join(root, "pkg"), home, "generic definitions with equally shaped unions over differently named type parameters", "generics-zoo", full_cpp=True)
        ctx.case(("generics-zoo",))
        ctx.count("generics-zoo.%s" % res)
        if res == "rejected":
            ctx.violation("valid-model-rejected:generics-zoo", "the generics zoo is rejected", {"case_dir": root})
        elif res != "bad":
            shutil.rmtree(root, ignore_errors=True)
    generics_zoo()

    # (iii-e) generating into an output directory that already holds the (larger) output of an earlier version of the model
    def regenerate_smaller():
        big = ("Sample: !record\n  fields:\n" + "".join("    f%d: %s\n" % (i, t) for i, t in enumerate(["int", "string", "float[]", "int*", "string->double", "[int, string]", "complexfloat?", "date", "uint64[3]", "float[2,2]"] * 3)) +
               "Extra: !enum\n  values: [a, b, c, d, e]\nOther: !record\n  fields:\n    s: Sample\n    e: Extra\n"
               "RegenProto: !protocol\n  sequence:\n    first: Sample\n    more: !stream\n      items: Other\n    last: Extra\n")
        small = "Sample: !record\n  fields:\n    f0: int\nRegenProto: !protocol\n  sequence:\n    first: Sample\n"
        root = os.path.join(ctx.workdir, "cases", "regen_smaller")
        shutil.rmtree(root, ignore_errors=True)
        outs = ("cpp:\n  sourcesOutputDir: ../out/cpp\n  generateHDF5: false\n  generateCMakeLists: false\n  overrideArrayHeader: %s\npython:\n  outputDir: ../out/python\n"
                "matlab:\n  outputDir: ../out/matlab\njson:\n  outputDir: ../out/json\n" % cxx.ARRAY_HEADER)
        common.write_tree(root, {"pkg/_package.yml": "namespace: Regen\n" + outs, "pkg/model.yml": big})
        pg = cli.run_cli("generate", os.path.join(root, "pkg"), home, [])
        ctx.ev()
        if pg.rc != 0:
            ctx.violation("generate-failed:regen-smaller-first", "first generation of the larger model fails: %s" % cli.clean(pg.stderr)[:300], {"case_dir": root, "proc": pg.brief()})
            return
        with open(os.path.join(root, "pkg/model.yml"), "w") as f:
            f.write(small)
        res = check_outputs(ctx, root, os.path.join(root, "pkg"), home, "a smaller version of the model generated over the output of the larger one", "regen-smaller", full_cpp=True)
        ctx.case(("regen-smaller",))
        ctx.count("regen-smaller.%s" % res)
        if res == "rejected":
            ctx.violation("valid-model-rejected:regen-smaller", "the reduced model is rejected", {"case_dir": root})
        elif res != "bad":
            shutil.rmtree(root, ignore_errors=True)
    regenerate_smaller()

    # (iii-f) every kind of reference points at a definition that is declared *later* in the file; numeric literals in every accepted spelling
    def late_declarations():
        model = ('Stock: !map {keys: PartNumber, values: Level}\n'
                 'Shelf: !record\n  fields:\n    stock: Stock\n    byPart: PartNumber->Count\n    grid: !array {items: Cell, dimensions: [2, 2]}\n    row: Cell*\n    three: Cell*3\n'
                 '    either: [Count, Label]\n    maybe: Cell?\n    level: Level\n    perm: Perm\n    boxed: Box<Cell>\n    nested: Box<Box<Count>>\n'
                 '  computedFields:\n    half: .5\n    two: 2.\n    kilo: 1.e3\n    padded: 007.5\n    tiny: 1e-3\n    hex: 0x1F\n    neg: -.25\n    sum: count0 + 0.5\n    count0: size(row) as int\n'
                 'Level: !enum\n  base: Code\n  values: [low, high]\nPerm: !flags\n  base: Code\n  values: [r, w]\n'
                 '"Box<T>": !record\n  fields:\n    content: T\n    tag: Label\n'
                 'LateProto: !protocol\n  sequence:\n    shelf: Shelf\n    items: !stream {items: Box<PartNumber>}\n'
                 'Cell: !record\n  fields:\n    v: Count\nCount: uint32\nLabel: string\nPartNumber: string\nCode: uint8\n')
        root = os.path.join(ctx.workdir, "cases", "late_declarations")
        shutil.rmtree(root, ignore_errors=True)
        outs = ("cpp:\n  sourcesOutputDir: ../out/cpp\n  generateHDF5: false\n  generateCMakeLists: false\n  overrideArrayHeader: %s\npython:\n  outputDir: ../out/python\n"
                "matlab:\n  outputDir: ../out/matlab\njson:\n  outputDir: ../out/json\n" % cxx.ARRAY_HEADER)
        common.write_tree(root, {"pkg/_package.yml": "namespace: Late\n" + outs, "pkg/model.yml": model})
        res = check_outputs(ctx, root, os.path.join(root, "pkg"), home, "definitions used before they are declared (map keys, enum bases, items, cases, type arguments) and numeric literals in every spelling", "late-declarations", full_cpp=True)
        ctx.case(("late-declarations",))
        ctx.count("late-declarations.%s" % res)
        if res == "rejected":
            ctx.violation("valid-model-rejected:late-declarations", "the late-declaration model is rejected", {"case_dir": root})
        elif res != "bad":
            shutil.rmtree(root, ignore_errors=True)
    late_declarations()

    # (iii-g) the same union under a name and anonymously, nullable and not, in three definition orders
    def union_orders():
        parts = {"rec": "UzRec: !record\n  fields:\n    q: int\n", "user": "UzUser: !record\n  fields:\n    value: [int, float]\n    other: [null, string, UzRec]\n    tagged: !union {a: int, b: string}\n",
                 "named": "UzReading: [int, float]\nUzMaybe: [null, string, UzRec]\nUzTagged: !union {a: int, b: string}\nUzSecond: [int, float]\n",
                 "proto": "UzP: !protocol\n  sequence:\n    a: UzUser\n    b: !stream {items: [int, float]}\n    c: UzReading\n    d: !stream {items: UzMaybe}\n    e: UzTagged\n    f: UzSecond\n"}
        for oi, order in enumerate([("rec", "user", "named", "proto"), ("rec", "named", "user", "proto"), ("proto", "named", "rec", "user")]):
            root = os.path.join(ctx.workdir, "cases", "union_orders_%d" % oi)
            shutil.rmtree(root, ignore_errors=True)
            outs = ("cpp:\n  sourcesOutputDir: ../out/cpp\n  generateHDF5: false\n  generateCMakeLists: false\n  overrideArrayHeader: %s\npython:\n  outputDir: ../out/python\n" % cxx.ARRAY_HEADER)
            common.write_tree(root, {"pkg/_package.yml": "namespace: UnionOrders\n" + outs, "pkg/model.yml": "".join(parts[k] for k in order)})
            res = check_outputs(ctx, root, os.path.join(root, "pkg"), home, "named and anonymous uses of the same unions, definition order %s" % (order,), "union-orders", full_cpp=(oi == 0))
            ctx.case(("union-orders", oi))
            ctx.count("union-orders.%s" % res)
            if res == "rejected":
                ctx.violation("valid-model-rejected:union-orders", "the union-order model is rejected", {"case_dir": root})
            elif res != "bad":
                shutil.rmtree(root, ignore_errors=True)
    union_orders()

    # (iii-h) generic aliases by the shape of their body, each used with a primitive and a record argument, in a field, a vector, a step and a stream
    def generic_alias_shapes():
        shapes = [("identity", "T"), ("optional", "T?"), ("vector", "T*"), ("fixed-vector", "T*3"), ("array", "T[]"), ("fixed-array", "T[2, 2]"), ("map-value", "string->T"),
                  ("union", "[T, string]"), ("nullable-union", "[null, T, string]"), ("generic-record", "GaPair<T, int>"), ("nested-alias", "GaInner<T>*")]

        def one_shape(sh):
            name, body = sh
            model = ('"GaPair<A, B>": !record\n  fields:\n    a: A\n    b: B\n"GaInner<T>": T?\nGaRec: !record\n  fields:\n    q: int\n'
                     '"GaAlias<T>": %s\n' % (body if not body.startswith("[") else body) +
                     'GaUses: !record\n  fields:\n    p: GaAlias<int>\n    r: GaAlias<GaRec>\n    v: GaAlias<float>*\n    s: GaAlias<string>\n'
                     'GaProto: !protocol\n  sequence:\n    u: GaUses\n    direct: GaAlias<double>\n    items: !stream\n      items: GaAlias<int>\n')
            root = os.path.join(ctx.workdir, "cases", "generic_alias_%s" % name.replace("-", "_"))
            shutil.rmtree(root, ignore_errors=True)
            outs = ("cpp:\n  sourcesOutputDir: ../out/cpp\n  generateHDF5: false\n  generateCMakeLists: false\n  overrideArrayHeader: %s\npython:\n  outputDir: ../out/python\n"
                    "matlab:\n  outputDir: ../out/matlab\njson:\n  outputDir: ../out/json\n" % cxx.ARRAY_HEADER)
            common.write_tree(root, {"pkg/_package.yml": "namespace: GenAlias\n" + outs, "pkg/model.yml": model})
            res = check_outputs(ctx, root, os.path.join(root, "pkg"), home, "generic alias whose body is `%s`, used with primitive and record arguments" % body, "generic-alias:%s" % name, full_cpp=False)
            ctx.case(("generic-alias", name))
            ctx.count("generic-alias.%s" % res)
            if res == "rejected":
                ctx.count("generic-alias.not-a-valid-model")
                shutil.rmtree(root, ignore_errors=True)
            elif res != "bad":
                shutil.rmtree(root, ignore_errors=True)
        pmap(one_shape, shapes, workers=6)
    generic_alias_shapes()

    # (iii-i) computed fields: a variable declared by a switch case (or a field, an element, a member) used below every kind of expression node
    def computed_zoo():
        ctxs = ["{x}", "-{x}", "-(-{x})", "{x} + 1", "1 - {x}", "{x} * {x}", "{x} / 2", "{x} ** 2", "({x})", "{x} as float64", "-{x} as float64", "-({x} as int64)", "2 * -{x}", "(1 + -{x}) * 3"]
        lines = ["CzInner: !record\n  fields:\n    p: int\n    v: int*\n    arr: 'float[2, 2]'\n",
                 "Cz: !record\n  fields:\n    u: [int, float, CzInner]\n    o: int?\n    ou: [null, int, float]\n    inner: CzInner\n    n: int\n    vec: float*\n    m: string->int\n  computedFields:\n"]
        k = 0
        for cx in ctxs:
            # switch over a union: the int case uses its variable only inside the context; the record case uses members / elements of its variable
            for body_i, body_r in ((cx.format(x="i"), cx.format(x="r.p")), (cx.format(x="i"), cx.format(x="r.v[0]")), (cx.format(x="i"), cx.format(x="r.arr[1, 0]"))):
                lines.append("    cu%d:\n      !switch u:\n        int i: %s\n        float f: %s\n        CzInner r: %s\n" % (k, body_i, cx.format(x="f"), body_r))
                k += 1
            lines.append("    co%d:\n      !switch o:\n        int j: %s\n        _: %s\n" % (k, cx.format(x="j"), cx.format(x="n")))
            lines.append("    cn%d:\n      !switch ou:\n        int a: %s\n        float b: %s\n        null: %s\n" % (k, cx.format(x="a"), cx.format(x="b"), cx.format(x="n")))
            lines.append("    cf%d: %s\n" % (k, cx.format(x="n")))
            lines.append("    cm%d: %s\n" % (k, cx.format(x="inner.p")))
            lines.append("    ce%d: %s\n" % (k, cx.format(x="vec[0]")))
            lines.append("    cs%d: %s\n" % (k, cx.format(x="(size(vec) as int)")))
            lines.append("    cmap%d: %s\n" % (k, cx.format(x="m['k']")))
            # a switch nested in a case, the inner case using the outer variable
            lines.append("    cnest%d:\n      !switch o:\n        int j:\n          !switch ou:\n            int a: %s\n            _: %s\n        _: %s\n" % (k, cx.format(x="j"), cx.format(x="j"), cx.format(x="n")))
            k += 1
        model = "".join(lines) + "CzProto: !protocol\n  sequence:\n    c: Cz\n"
        root = os.path.join(ctx.workdir, "cases", "computed_zoo")
        shutil.rmtree(root, ignore_errors=True)
        outs = ("cpp:\n  sourcesOutputDir: ../out/cpp\n  generateHDF5: false\n  generateCMakeLists: false\n  generateNDJson: false\n  overrideArrayHeader: %s\npython:\n  outputDir: ../out/python\n"
                "matlab:\n  outputDir: ../out/matlab\n" % cxx.ARRAY_HEADER)
        common.write_tree(root, {"pkg/_package.yml": "namespace: CompZoo\n" + outs, "pkg/model.yml": model})
        res = check_outputs(ctx, root, os.path.join(root, "pkg"), home, "computed fields that use switch-case variables, fields, members and elements below every kind of expression node", "computed-zoo", full_cpp=True)
        ctx.case(("computed-zoo",))
        ctx.count("computed-zoo.%s" % res)
        if res == "rejected":
            ctx.violation("valid-model-rejected:computed-zoo", "the computed-field zoo is rejected", {"case_dir": root})
        elif res == "ok":
            # the Python side only fails when a computed field is *called*: call every one of them on a value of each union case
            pyd = os.path.join(root, "out/python")
            code = ("import sys; sys.path.insert(0, %r); import comp_zoo as z, numpy as np\n"
                    "inner = z.CzInner(p=3, v=[4, 5], arr=np.array([[1.0, 2.0], [3.0, 4.0]], dtype=np.float32))\n"
                    "bad = []\n"
                    "for u in (z.Int32OrFloat32OrCzInner.Int32(7), z.Int32OrFloat32OrCzInner.Float32(2.5), z.Int32OrFloat32OrCzInner.CzInner(inner)):\n"
                    "  for o, ou in ((5, z.Int32OrFloat32.Int32(2)), (None, z.Int32OrFloat32.Float32(1.5)), (1, None)):\n"
                    "    c = z.Cz(u=u, o=o, ou=ou, inner=inner, n=9, vec=[1.5, 2.5], m={'k': 4})\n"
                    "    for name in dir(c):\n"
                    "      if name[:2] in ('cu', 'co', 'cn', 'cf', 'cm', 'ce', 'cs') and callable(getattr(c, name)):\n"
                    "        try: getattr(c, name)()\n"
                    "        except Exception as e: bad.append('%%s: %%s: %%s' %% (name, type(e).__name__, e))\n"
                    "print(len(bad)); print('\\n'.join(sorted(set(bad))[:5]))\n" % pyd)
            pr = common.run([common.PY, "-c", code], cpu_s=120)
            ctx.ev()
            first = (pr.stdout.strip().split("\n") or ["?"])[0]
            if pr.rc != 0 or first != "0":
                ctx.violation("python-computed-field-raises:computed-zoo", "calling the generated Python computed fields raises: %s %s" % (pr.stdout[-500:], pr.stderr[-300:]), {"case_dir": root})
            else:
                shutil.rmtree(root, ignore_errors=True)
    computed_zoo()

    def string_literal_zoo():
        """computed fields that return string literals holding the characters a target language treats specially inside a literal: backslashes (alone, at the
        end, before letters), both kinds of quotes, tabs and line breaks, braces and percent signs, non-ASCII text. The generated Python must import and every
        computed field return exactly the string of the model; the generated C++ must compile"""
        import json as _json
        lits = [(r'"\\"', "\\"), (r'"a\\b"', "a\\b"), (r'"end\\"', "end\\"), (r'"C:\\new\\table"', "C:\\new\\table"), (r'"q\"q"', 'q"q'), ("'single'", "single"), ('"it\'s"', "it's"),
                (r'"tab\tx"', "tab\tx"), (r'"nl\nx"', "nl\nx"), ('"\u00e9\u20ac"', "\u00e9\u20ac"), ('"{}%s%d{0}"', "{}%s%d{0}"), ('"$HOME `x`"', "$HOME `x`"), ('""', ""), ('"??/ trigraph"', "??/ trigraph"),
                (r'"\\N{DASH}"', "\\N{DASH}"), (r'"\\x41\\u0041"', "\\x41\\u0041")]
        model = "Sl: !record\n  fields:\n    n: int\n  computedFields:\n" + "".join("    s%d: %s\n" % (i, _json.dumps(src)) for i, (src, _) in enumerate(lits)) + "SlProto: !protocol\n  sequence:\n    c: Sl\n"
        root = os.path.join(ctx.workdir, "cases", "string_literal_zoo")
        shutil.rmtree(root, ignore_errors=True)
        outs = ("cpp:\n  sourcesOutputDir: ../out/cpp\n  generateHDF5: false\n  generateCMakeLists: false\n  generateNDJson: false\n  overrideArrayHeader: %s\npython:\n  outputDir: ../out/python\n"
                "matlab:\n  outputDir: ../out/matlab\n" % cxx.ARRAY_HEADER)
        common.write_tree(root, {"pkg/_package.yml": "namespace: StrLit\n" + outs, "pkg/model.yml": model})
        res = check_outputs(ctx, root, os.path.join(root, "pkg"), home, "computed fields that return string literals with backslashes, quotes, control characters, braces", "string-literal-zoo", full_cpp=True)
        ctx.case(("string-literal-zoo",))
        ctx.count("string-literal-zoo.%s" % res)
        if res == "rejected":
            ctx.violation("valid-model-rejected:string-literal-zoo", "the string-literal zoo is rejected", {"case_dir": root})
        elif res == "ok":
            pyd = os.path.join(root, "out/python")
            code = ("import sys, json; sys.path.insert(0, %r); import str_lit as z\n"
                    "c = z.Sl(n=1)\nwant = json.loads(%r)\nbad = []\n"
                    "for i, w in enumerate(want):\n"
                    "  try:\n    got = getattr(c, 's%%d' %% i)()\n"
                    "  except Exception as e:\n    got = 'raised %%s' %% type(e).__name__\n"
                    "  if got != w: bad.append('s%%d: %%r instead of %%r' %% (i, got, w))\n"
                    "print(len(bad)); print('\\n'.join(bad[:5]))\n" % (pyd, _json.dumps([w for _, w in lits])))
            pr = common.run([common.PY, "-c", code], cpu_s=120)
            ctx.ev()
            first = (pr.stdout.strip().split("\n") or ["?"])[0]
            if pr.rc != 0 or first != "0":
                ctx.violation("python-string-literal-differs:string-literal-zoo", "the generated Python computed fields do not return the model's string literals: %s %s" % (pr.stdout[-500:], pr.stderr[-300:]), {"case_dir": root})
            else:
                shutil.rmtree(root, ignore_errors=True)
    string_literal_zoo()

    # (iii-j) unions that are the same target-language type through an alias used *inside* a case
    def alias_inside_union_case():
        model = ("Label: string\nCount: uint32\nPoint: !record\n  fields:\n    x: float\nPt: Point\n"
                 "AuRec: !record\n  fields:\n    a: !union {m: string->int, f: float}\n    b: !union {m: Label->int, f: float}\n    c: !union {v: string*, i: int}\n    d: !union {v: Label*, i: int}\n"
                 "    e: !union {arr: 'uint32[]', s: string}\n    f: !union {arr: 'Count[]', s: string}\n"
                 "    g: !union {pv: Point*, pi: int}\n    h: !union {pv: Pt*, pi: int}\n    i: !union {pm: string->Point, pn: bool}\n    j: !union {pm: Label->Pt, pn: bool}\n"
                 "AuProto: !protocol\n  sequence:\n    r: AuRec\n    s: !stream\n      items: !union {m: Label->int, f: float}\n    t: !union {m: string->int, f: float}\n")
        root = os.path.join(ctx.workdir, "cases", "alias_inside_union_case")
        shutil.rmtree(root, ignore_errors=True)
        outs = ("cpp:\n  sourcesOutputDir: ../out/cpp\n  generateHDF5: false\n  generateCMakeLists: false\n  overrideArrayHeader: %s\npython:\n  outputDir: ../out/python\n"
                "matlab:\n  outputDir: ../out/matlab\n" % cxx.ARRAY_HEADER)
        common.write_tree(root, {"pkg/_package.yml": "namespace: AliasUnion\n" + outs, "pkg/model.yml": model})
        res = check_outputs(ctx, root, os.path.join(root, "pkg"), home, "pairs of unions that differ only in an alias used inside a case (map key, vector / array item, map value)", "alias-inside-union-case", full_cpp=True)
        ctx.case(("alias-inside-union-case",))
        ctx.count("alias-inside-union-case.%s" % res)
        if res == "rejected":
            ctx.violation("valid-model-rejected:alias-inside-union-case", "the model is rejected", {"case_dir": root})
        elif res != "bad":
            shutil.rmtree(root, ignore_errors=True)
    alias_inside_union_case()

    # (iii-k) a map keyed by each primitive type the language accepts as a key (and by aliases of them), as a field, a step, stream items and a union case
    def map_keys(kt):
        key = kt if kt[0].islower() else "K%s" % kt
        model = ("KLabel: string\nKCount: uint16\nKWhen: datetime\nKDay: date\n"
                 "MkRec: !record\n  fields:\n    m: %s->int\n    o: (%s->string)?\n    v: (%s->float)*\n"
                 "MkProto: !protocol\n  sequence:\n    r: MkRec\n    m: %s->MkRec\n    s: !stream\n      items: %s->int\n    u: !union {byKey: %s->int, n: int}\n" % ((key,) * 6))
        root = os.path.join(ctx.workdir, "cases", "mapkey_%s" % kt)
        shutil.rmtree(root, ignore_errors=True)
        outs = ("cpp:\n  sourcesOutputDir: ../out/cpp\n  generateHDF5: false\n  generateCMakeLists: false\n  overrideArrayHeader: %s\npython:\n  outputDir: ../out/python\n"
                "matlab:\n  outputDir: ../out/matlab\n" % cxx.ARRAY_HEADER)
        common.write_tree(root, {"pkg/_package.yml": "namespace: MapKeys\n" + outs, "pkg/model.yml": model})
        res = check_outputs(ctx, root, os.path.join(root, "pkg"), home, "maps keyed by %s (field, optional, vector items, step, stream items, union case)" % key, "mapkey:%s" % kt, full_cpp=True)
        ctx.case(("map-key", kt))
        ctx.count("map-key.%s" % res)
        if res != "bad":
            shutil.rmtree(root, ignore_errors=True)
    pmap(map_keys, ["string", "int8", "uint8", "int16", "uint16", "int32", "uint32", "int64", "uint64", "size", "bool", "float32", "float64", "date", "time", "datetime",
                    "complexfloat32", "complexfloat64", "Label", "Count", "When", "Day"], workers=6)
    import_graphs(ctx, home, quick)

    # (iv) init scaffolds
    def init(nm):
        root = os.path.join(ctx.workdir, "cases", "init_%s" % nm[:30])
        shutil.rmtree(root, ignore_errors=True)
        os.makedirs(root)
        y = common.build_yardl()
        p = common.run([y, "init", nm], cwd=root, env=common.yardl_env(home))
        ctx.ev()
        ctx.case(("init", nm))
        if cli.panic_site(p.stderr):
            ctx.violation("panic@%s" % cli.panic_site(p.stderr), "yardl init %r crashed" % nm, {"case_dir": root, "proc": p.brief()})
            return
        if p.rc != 0:
            ctx.count("init.rejected")
            shutil.rmtree(root, ignore_errors=True)
            return
        pkgdir = os.path.join(root, "model")
        man = open(os.path.join(pkgdir, "_package.yml")).read().replace("sourcesOutputDir: ../cpp/generated", "sourcesOutputDir: ../cpp/generated\n  generateHDF5: false\n  overrideArrayHeader: %s" % cxx.ARRAY_HEADER)
        open(os.path.join(pkgdir, "_package.yml"), "w").write(man)
        res = check_outputs(ctx, root, pkgdir, home, "scaffold of `yardl init %s`" % nm, "init:" + nm[:24], full_cpp=not quick,
                            cpp_dir=os.path.join(root, "cpp/generated"), py_dir=os.path.join(root, "python"))
        if res == "rejected":
            ctx.violation("init-scaffold-rejected:%s" % nm[:24], "`yardl init %s` succeeded but the scaffold it wrote is rejected by validate" % nm, {"case_dir": root})
        ctx.count("init.%s" % res)
        if res == "ok":
            shutil.rmtree(root, ignore_errors=True)
    pmap(init, (NAMESPACES[:8] if quick else NAMESPACES) + ["lowercase", "My-Pkg", "9x", ""], workers=6)


def import_graphs(ctx, home, quick):
    """Accepted packages WITH imports: every loop-free import graph on 3 and 4 packages in which everything is reachable from the root, each
    import list in its written order and reversed; every package uses records, enums, generics and aliases of each of its direct imports in records, aliases and
    protocol steps. All namespaces land in the same C++ files, so the order the namespaces are emitted in matters; Python gets one package per namespace."""
    import itertools
    graphs = []
    for n in (3, 4):
        pairs = [(i, j) for i in range(n) for j in range(1, n) if i != j]
        for mask in range(1 << len(pairs)):
            adj = {}
            for k, (i, j) in enumerate(pairs):
                if mask >> k & 1:
                    adj.setdefault(i, []).append(j)
            seen, stack = {0}, [0]
            while stack:
                for v in adj.get(stack.pop(), []):
                    if v not in seen:
                        seen.add(v)
                        stack.append(v)
            if len(seen) != n:
                continue
            color = {}

            def cyc(u):
                color[u] = 1
                for v in adj.get(u, []):
                    if color.get(v) == 1 or (v not in color and cyc(v)):
                        return True
                color[u] = 2
                return False
            if cyc(0):
                continue
            if not any(len(set(v)) >= 2 for v in adj.values()):
                continue                # chains are C18's business: here a package is reachable through more than one path or has siblings
            graphs.append((n, adj))
    r = rng("C08graphs")
    if quick:
        graphs = [g for g in graphs if g[0] == 3] + r.sample([g for g in graphs if g[0] == 4], 10)
    jobs = [(gi, n, adj, rev) for gi, (n, adj) in enumerate(graphs) for rev in (False, True)]

    def one(job):
        gi, n, adj, rev = job
        root = os.path.join(ctx.workdir, "cases", "impgraph_%d_%d" % (gi, int(rev)))
        shutil.rmtree(root, ignore_errors=True)
        files = {}
        for i in range(n):
            imps = list(adj.get(i, []))
            if rev:
                imps.reverse()
            man = "namespace: Ig%d\n" % i
            if imps:
                man += "imports:\n" + "".join("  - ../g%d\n" % j for j in imps)
            if i == 0:
                man += ("cpp:\n  sourcesOutputDir: ../out/cpp\n  generateCMakeLists: false\n  generateHDF5: false\n  overrideArrayHeader: %s\n"
                        "python:\n  outputDir: ../out/python\nmatlab:\n  outputDir: ../out/matlab\njson:\n  outputDir: ../out/json\n" % cxx.ARRAY_HEADER)
            m = ("E%d: !enum\n  values: [a%d, b%d]\nG%d<T>: !record\n  fields:\n    t: T\n    ts: T*\n    e: E%d\n" % (i, i, i, i, i))
            fields = "    own: int\n    g: G%d<E%d>\n" % (i, i)
            steps = "    own: R%d\n" % i
            for j in imps:
                m += "A%dx%d: Ig%d.G%d<Ig%d.E%d>\nU%dx%d: [Ig%d.R%d, Ig%d.E%d, string]\n" % (i, j, j, j, j, j, i, j, j, j, j, j)
                fields += "    r%d: Ig%d.R%d?\n    a%d: A%dx%d\n    u%d: U%dx%d\n    m%d: string->Ig%d.G%d<int>\n" % (j, j, j, j, i, j, j, i, j, j, j, j)
                # imported types that have a default value of their own (enum, record, record of records), as required fields: the default is spelled in the
                # importing namespace here and in the imported namespace where that namespace uses the same type itself (D<j>, G<j>)
                fields += "    ie%d: Ig%d.E%d\n    ir%d: Ig%d.R%d\n    id%d: Ig%d.D%d\n" % (j, j, j, j, j, j, j, j, j)
                steps += "    s%d: !stream\n      items: Ig%d.R%d\n    g%d: Ig%d.G%d<R%d>\n" % (j, j, j, j, j, j, i)
            m += "R%d: !record\n  fields:\n%s" % (i, fields)
            m += "D%d: !record\n  fields:\n    inner: R%d\n    e: E%d\n    n: int\n" % (i, i, i)
            m += "Pr%d: !protocol\n  sequence:\n%s" % (i, steps)
            files["g%d/_package.yml" % i] = man
            files["g%d/model.yml" % i] = m
        common.write_tree(root, files)
        what = "import graph %s%s on %d packages" % ({u: v for u, v in sorted(adj.items())}, " (import lists reversed)" if rev else "", n)
        res = check_outputs(ctx, root, os.path.join(root, "g0"), home, what, "import-graph", full_cpp=(gi % 4 == 0) or not quick, python=False)
        # python: one package per namespace under out/python; the root package imports the others
        if res == "ok":
            pr = common.run([common.PY, "-c", "import sys; sys.path.insert(0, %r); import ig_0; ig_0.R0; ig_0.Pr0WriterBase; ig_0.BinaryPr0Writer; import importlib; [getattr(importlib.import_module('ig_0' if k == 0 else 'ig_0.ig_%%d' %% k), nm %% k)() for k in range(%d) for nm in ('R%%d', 'D%%d')]" % (os.path.join(root, "out/python"), n)], cpu_s=60)
            ctx.ev()
            if pr.rc != 0:
                ctx.violation("python-import-failed:import-graph", "%s: the generated Python packages do not import, or a record cannot be constructed with its defaults: %s" % (what, pr.stderr[-300:]), {"case_dir": root})
                res = "bad"
        if res == "rejected":
            ctx.violation("valid-model-rejected:import-graph", "%s: rejected by validate" % what, {"case_dir": root})
        ctx.case(("import-graph", n, tuple(sorted((u, tuple(v)) for u, v in adj.items())), rev))
        ctx.count("import-graph.%s" % res)
        if res == "ok":
            shutil.rmtree(root, ignore_errors=True)
    pmap(one, jobs, workers=8)


def shape_class(pkg):
    """trigger half of the std::vector<bool> finding: a vector or stream whose items are bool, anywhere in the package tree"""
    for q in pkg.closure():
        for d in q.defs:
            ts = [t for _, t in getattr(d, "fields", [])] + [t for _, t in getattr(d, "steps", [])] + ([d.type] if isinstance(d, Al) else [])
            for t in ts:
                for x in walk_types(t):
                    if isinstance(x, (V, S)) and isinstance(x.item, P) and x.item.name == "bool" and getattr(x, "length", None) is None:
                        return "bool-sequence"
    return "other"


def replay(ctx, path):
    print(json.dumps(json.load(open(path)), indent=1, default=str)[:3000])
    run(ctx)
