"""C15 - readers refuse streams of a different schema or format.

Workload: (1) protocol pairs (A, B): B a single-edit neighbour of A (one field type, an added field, reordered fields, a renamed
field / step / type, an enum value, optional vs required, vector vs fixed vector) and unrelated corpus protocols: B's generated
reader is fed a valid stream of A; (2) header corruptions of a valid stream fed to its own reader: every single-byte substitution /
insertion / deletion across magic, version and schema-length varint, a sample (all in thorough) of positions in the schema text,
versions {0, 2, -1}, non-JSON schema, truncated header; NDJSON first-line variants. Readers: generated C++ (plain + ASan/UBSan) and
Python, binary and NDJSON.
Oracle: the reader raises an error (non-zero exit, no signal, no sanitizer report) before returning any value (no value line is
emitted by the unit-buffered NDJSON writer)."""
from __future__ import annotations

import copy
import shutil
import json
import os
import struct

from vlib import common, corpus, cxx, mut, rt, values
from vlib.common import pmap, rng, Inconclusive
from vlib.model import *  # noqa
from vlib.refcodec import put_uvarint

LEVEL = "fault_enumeration"
FLOOR = {"quick": 600, "thorough": 4000}


def neighbour_package():
    def mk(sfx, fields=None, steps=None, enum_vals=None, rec_name=None):
        rn = rec_name or ("NbRec" + sfx)
        en = "NbEnum" + sfx
        E = En(en, enum_vals or [("a", 0), ("b", 1)], None, False, True)
        R = Rec(rn, fields or [("x", P("int32")), ("y", P("string")), ("z", Opt(P("float64"))), ("e", N(en))])
        Pn = Proto("Nb" + sfx, steps or [("head", N(rn)), ("items", S(N(rn))), ("nums", V(P("int32"))), ("tail", P("uint64"))])
        return [E, R, Pn]
    defs = []
    defs += mk("A")
    defs += mk("FieldType", fields=[("x", P("int64")), ("y", P("string")), ("z", Opt(P("float64"))), ("e", N("NbEnumFieldType"))])
    defs += mk("FieldAdded", fields=[("x", P("int32")), ("y", P("string")), ("z", Opt(P("float64"))), ("e", N("NbEnumFieldAdded")), ("w", Opt(P("int32")))])
    defs += mk("FieldOrder", fields=[("y", P("string")), ("x", P("int32")), ("z", Opt(P("float64"))), ("e", N("NbEnumFieldOrder"))])
    defs += mk("FieldName", fields=[("x", P("int32")), ("yy", P("string")), ("z", Opt(P("float64"))), ("e", N("NbEnumFieldName"))])
    defs += mk("Required", fields=[("x", P("int32")), ("y", P("string")), ("z", P("float64")), ("e", N("NbEnumRequired"))])
    defs += mk("EnumValue", enum_vals=[("a", 0), ("b", 2)])
    defs += mk("EnumSymbol", enum_vals=[("a", 0), ("c", 1)])
    defs += mk("StepType", steps=[("head", N("NbRecStepType")), ("items", S(N("NbRecStepType"))), ("nums", V(P("uint32"))), ("tail", P("uint64"))])
    defs += mk("StepFixed", steps=[("head", N("NbRecStepFixed")), ("items", S(N("NbRecStepFixed"))), ("nums", V(P("int32"), 2)), ("tail", P("uint64"))])
    defs += mk("StepName", steps=[("head", N("NbRecStepName")), ("elements", S(N("NbRecStepName"))), ("nums", V(P("int32"))), ("tail", P("uint64"))])
    defs += mk("StepOrder", steps=[("head", N("NbRecStepOrder")), ("nums", V(P("int32"))), ("items", S(N("NbRecStepOrder"))), ("tail", P("uint64"))])
    defs += mk("StepRemoved", steps=[("head", N("NbRecStepRemoved")), ("items", S(N("NbRecStepRemoved"))), ("nums", V(P("int32")))])
    arrf = lambda sfx, t: [("x", P("int32")), ("y", P("string")), ("z", Opt(P("float64"))), ("e", N("NbEnum" + sfx)), ("grid", t)]
    defs += mk("ArrA", fields=arrf("ArrA", A(P("int32"), ((None, 3), (None, 4)))))
    defs += mk("ArrB", fields=arrf("ArrB", A(P("int32"), ((None, 2), (None, 6)))))
    defs += mk("ArrC", fields=arrf("ArrC", A(P("int32"), 2)))
    defs += mk("ArrD", fields=arrf("ArrD", A(P("int32"), ((None, 4), (None, 3)))))
    defs += mk("ArrE", fields=arrf("ArrE", A(P("int32"), (("r", 3), ("c", 4)))))
    defs += mk("VecA", fields=arrf("VecA", V(P("int32"), 3)))
    defs += mk("VecB", fields=arrf("VecB", V(P("int32"), 4)))
    defs += mk("NotStream", steps=[("head", N("NbRecNotStream")), ("items", V(N("NbRecNotStream"))), ("nums", V(P("int32"))), ("tail", P("uint64"))])
    return Pkg("Neighbours", defs)


def refused(ctx, m, r: rt.Result, ep_name, outfmt, what, case) -> bool:
    sig = msg = None
    if r.timed_out:
        raise Inconclusive("watchdog: " + what)
    if r.cpu_exceeded:
        sig, msg = "hang:%s" % ep_name, "reader does not terminate"
    elif r.sig is not None and ep_name == "cpp-asan" and ("allocator is out of memory" in r.stderr or "allocation-size-too-big" in r.stderr):
        # ASan turns a failing operator new (std::bad_alloc in the plain build, which is a reported error) into an abort:
        # sanitizer artefact, counted as a refusal
        ctx.count("asan-oom-as-refusal")
    elif r.sig is not None:
        sig, msg = "crash:%s:%s" % (ep_name, r.errclass), "reader died with signal %s: %s" % (r.sig, r.stderr[-500:])
    elif "Sanitizer" in r.stderr or "runtime error:" in r.stderr:
        sig, msg = "sanitizer:%s" % ep_name, r.stderr[-600:]
    else:
        lines = [l for l in r.out.decode("utf-8", "replace").split("\n") if l.strip()]
        values_out = lines[1:] if outfmt == "ndjson" else []
        if r.rc == 0:
            sig, msg = "accepted:%s:%s" % (ep_name, case.get("class", "?")), "reader accepted the stream and completed normally"
        elif values_out:
            sig, msg = "value-before-refusal:%s:%s" % (ep_name, case.get("class", "?")), "reader delivered %d value(s) before refusing: %s" % (len(values_out), values_out[0][:200])
    if sig:
        ctx.violation(sig, "%s: %s" % (what, msg), dict(case, model_dir=m.root, stderr=r.stderr[-1000:], output_head=r.out[:300]))
        return False
    return True


def header_mutations(c, data: bytes, hdr_len: int, schema_off: int, quick: bool, r):
    """(class, mutated bytes)"""
    out = []
    fixed = list(range(0, schema_off))                      # magic, version, schema-length varint
    body = list(range(schema_off, hdr_len))
    sample = r.sample(body, min(len(body), 60 if quick else 100000))
    for pos in fixed + sorted(sample):
        cls = "magic" if pos < 5 else ("version" if pos < 9 else ("schema-length" if pos < schema_off else "schema-text"))
        for newb in ([data[pos] ^ 0x01, data[pos] ^ 0x80, 0x00, 0xFF] if pos < schema_off else [data[pos] ^ 0x01]):
            newb &= 0xFF
            if newb != data[pos]:
                out.append(("sub-" + cls, data[:pos] + bytes([newb]) + data[pos + 1:]))
        if pos < schema_off or r.random() < 0.3:
            out.append(("del-" + cls, data[:pos] + data[pos + 1:]))
            out.append(("ins-" + cls, data[:pos] + b"\x01" + data[pos:]))
    for v in (0, 2, -1, 256, 1 << 24):
        out.append(("version-%d" % v, data[:5] + struct.pack("<i", v) + data[9:]))
    for k in (0, 3, 5, 7, 9, schema_off, hdr_len - 1):
        out.append(("truncated-header", data[:k]))
    b = bytearray(b"yardl" + struct.pack("<i", 1))
    bad = b"this is not json"
    put_uvarint(b, len(bad))
    out.append(("non-json-schema", bytes(b) + bad + data[hdr_len:]))
    b = bytearray(b"yardl" + struct.pack("<i", 1))
    put_uvarint(b, 0)
    out.append(("empty-schema", bytes(b) + data[hdr_len:]))
    b = bytearray(b"yardl" + struct.pack("<i", 1))
    put_uvarint(b, 2**40)
    out.append(("huge-schema-length", bytes(b) + data[9:]))
    return out


def run(ctx):
    common.build_yardl()
    quick = ctx.tier == "quick"
    ctx.rule = ("13 single-edit neighbour protocols of a base protocol + unrelated corpus protocol pairs: B's reader fed A's valid stream (binary and NDJSON; C++ "
                "plain/ASan and Python); header corruptions of a valid stream fed to its own reader (substitute / insert / delete over magic, version, length varint "
                "and %s schema positions; version values; truncated, empty, non-JSON, huge-length headers); NDJSON first-line variants. "
                "distinct = (reader, writer protocol) or (corruption class, position)." % ("60 sampled" if quick else "all"))
    ctx.assumptions = ["the harness driver constructs the reader before any read; the unit-buffered NDJSON writer emits one line per value, so any value line means a value was returned",
                       "a schema that is JSON-equal but textually different is don't-care (not generated)"]
    pkg = neighbour_package()
    m = rt.prepare_model(ctx, "neighbours", pkg, ["plain", "asan"])
    if m is None:
        raise Inconclusive("neighbour model did not build")
    c = m.codec
    A = pkg.find("NbA")
    vgA = values.ValueGen(c, rng("C15"), json_safe=True)
    eps = [rt.CppEndpoint(m, "plain"), rt.CppEndpoint(m, "asan"), rt.PyEndpoint(m)]
    others = [p for p in pkg.protocols() if p.name != "NbA"]
    jobs = []
    for k in range(3 if quick else 30):
        valsA = vgA.steps(A, stream_len=[0, 2, 5][k % 3])
        binA = c.encode_stream(A, m.schema("NbA"), valsA)
        ndA = ("\n".join(c.ndjson_lines(A, m.schema("NbA"), valsA)) + "\n").encode()
        for B in others:
            for ep in eps:
                jobs.append((ep, B.name, "bin", binA, {"class": "neighbour:" + B.name[2:], "writer": "NbA", "reader": B.name}))
                jobs.append((ep, B.name, "ndjson", ndA, {"class": "neighbour:" + B.name[2:], "writer": "NbA", "reader": B.name}))
    # and the other direction: A's reader fed each neighbour's stream
    for B in others:
        vg = values.ValueGen(c, rng("C15b", B.name), json_safe=True)
        valsB = vg.steps(B, stream_len=2)
        binB = c.encode_stream(B, m.schema(B.name), valsB)
        ndB = ("\n".join(c.ndjson_lines(B, m.schema(B.name), valsB)) + "\n").encode()
        for ep in eps:
            jobs.append((ep, "NbA", "bin", binB, {"class": "neighbour-rev:" + B.name[2:], "writer": B.name, "reader": "NbA"}))
            jobs.append((ep, "NbA", "ndjson", ndB, {"class": "neighbour-rev:" + B.name[2:], "writer": B.name, "reader": "NbA"}))
    fam = [p for p in pkg.protocols() if p.name[2:5] in ("Arr", "Vec")]
    for Pa in fam:
        vg = values.ValueGen(c, rng("C15arr", Pa.name), json_safe=True)
        va = vg.steps(Pa, stream_len=2)
        # give every stream the name of the reader's protocol: only the *types* differ
        for Pb in fam:
            if Pb.name == Pa.name:
                continue
            import json as _json
            sa = m.schema(Pa.name)
            # a stream of Pa carrying Pa's schema with Pa's names replaced by Pb's: what a near-identical other model would write
            sb_names = sa.replace(Pa.name, Pb.name).replace("NbRec" + Pa.name[2:], "NbRec" + Pb.name[2:]).replace("NbEnum" + Pa.name[2:], "NbEnum" + Pb.name[2:])
            data = c.encode_stream(Pa, sb_names, va)
            for ep in eps:
                jobs.append((ep, Pb.name, "bin", data, {"class": "neighbour:array-extent", "writer": Pa.name, "reader": Pb.name}))
    # header corruptions
    valsA = vgA.steps(A, stream_len=2)
    binA = c.encode_stream(A, m.schema("NbA"), valsA)
    hdr_len = len(c.encode_stream(A, m.schema("NbA"), valsA, upto=0))
    sb = m.schema("NbA").encode()
    lv = bytearray()
    put_uvarint(lv, len(sb))
    schema_off = 9 + len(lv)
    for cls, mut in header_mutations(c, binA, hdr_len, schema_off, quick, rng("C15h")):
        for ep in ([eps[0], eps[2]] if quick and cls.endswith("schema-text") else eps):
            jobs.append((ep, "NbA", "bin", mut, {"class": "header:" + cls, "reader": "NbA"}))
    # NDJSON first line variants
    lines = c.ndjson_lines(A, m.schema("NbA"), valsA)
    head = json.loads(lines[0])
    variants = {
        "no-yardl-key": {"other": head["yardl"]},
        "version-2": {"yardl": {"version": 2, "schema": head["yardl"]["schema"]}},
        "version-string": {"yardl": {"version": "1", "schema": head["yardl"]["schema"]}},
        "no-schema": {"yardl": {"version": 1}},
        "schema-null": {"yardl": {"version": 1, "schema": None}},
        "schema-string": {"yardl": {"version": 1, "schema": "x"}},
        "schema-of-other": {"yardl": {"version": 1, "schema": json.loads(m.schema("NbFieldType"))}},
        "schema-types-dropped": {"yardl": {"version": 1, "schema": {"protocol": head["yardl"]["schema"]["protocol"], "types": []}}},
        # JSON values that a loosely typed comparison takes for the number 1 / for the expected text
        "version-true": {"yardl": {"version": True, "schema": head["yardl"]["schema"]}},
        "version-null": {"yardl": {"version": None, "schema": head["yardl"]["schema"]}},
        "version-array": {"yardl": {"version": [1], "schema": head["yardl"]["schema"]}},
        "version-object": {"yardl": {"version": {"1": 1}, "schema": head["yardl"]["schema"]}},
        "version-0": {"yardl": {"version": 0, "schema": head["yardl"]["schema"]}},
        "version-negative": {"yardl": {"version": -1, "schema": head["yardl"]["schema"]}},
        "version-huge": {"yardl": {"version": 2 ** 64 + 1, "schema": head["yardl"]["schema"]}},
        "yardl-is-array": {"yardl": [{"version": 1, "schema": head["yardl"]["schema"]}]},
        "schema-in-array": {"yardl": {"version": 1, "schema": [head["yardl"]["schema"]]}},
        "header-is-array": [1, 2, 3],
        "header-is-value-line": json.loads(lines[1]),
    }
    def with_bools(x, done):
        """the schema with its first number 1 replaced by true / first number 0 by false (equal under a loosely typed comparison)"""
        if isinstance(x, dict):
            return {k: with_bools(v, done) for k, v in x.items()}
        if isinstance(x, list):
            return [with_bools(v, done) for v in x]
        if not done and isinstance(x, int) and not isinstance(x, bool) and x in (0, 1):
            done.append(x)
            return bool(x)
        return x
    done = []
    sb_schema = with_bools(head["yardl"]["schema"], done)
    if done:
        variants["schema-number-as-boolean"] = {"yardl": {"version": 1, "schema": sb_schema}}
    for name, hv in variants.items():
        text = ("\n".join([json.dumps(hv)] + lines[1:]) + "\n").encode()
        for ep in eps:
            jobs.append((ep, "NbA", "ndjson", text, {"class": "ndjson-header:" + name, "reader": "NbA"}))
    for name, text in {"empty-input": b"", "blank-first-line": b"\n" + "\n".join(lines).encode(), "garbage-first-line": b"{{{\n" + "\n".join(lines[1:]).encode(),
                       "no-header-line": ("\n".join(lines[1:]) + "\n").encode()}.items():
        for ep in eps:
            jobs.append((ep, "NbA", "ndjson", text, {"class": "ndjson-header:" + name, "reader": "NbA"}))

    def one(job):
        ep, reader, fmt, data, case = job
        r = ep.copy(reader, fmt, "ndjson", data)
        ctx.ev()
        ctx.count("%s.%s" % (ep.name, case["class"].split(":")[0]))
        ok = refused(ctx, m, r, ep.name, "ndjson", "%s reader %s fed %s" % (ep.name, reader, case["class"]), dict(case, input_len=len(data), fmt=fmt))
        ctx.case((reader, fmt, case["class"], len(data), common.sha(data)[:8]))
        if ep.name == "cpp-plain" and not case["class"].startswith("header:"):
            # the same input opened through the reader's file-name constructor
            fp = os.path.join(ctx.workdir, "byname", "%s_%s.%s" % (reader, common.sha(data)[:12], fmt))
            os.makedirs(os.path.dirname(fp), exist_ok=True)
            with open(fp, "wb") as f:
                f.write(data)
            r2 = ep.copy(reader, fmt, "ndjson", b"", in_file=fp)
            ctx.ev()
            ctx.count("%s.by-name.%s" % (ep.name, case["class"].split(":")[0]))
            ok = refused(ctx, m, r2, ep.name + "-by-name", "ndjson", "%s reader %s (file-name constructor) fed %s" % (ep.name, reader, case["class"]),
                         dict(case, input_len=len(data), fmt=fmt, by_name=True)) and ok
            if case["class"].startswith("neighbour") and case.get("writer") and "array-extent" not in case["class"]:
                # the same process has read this stream with its own reader (a complete, successful copy) before the foreign reader is handed it
                r3 = ep.copy(reader, fmt, "ndjson", data, first=(case["writer"], fmt, fp))
                ctx.ev()
                ctx.count("%s.after-own-reader.%s" % (ep.name, case["class"].split(":")[0]))
                if "DRIVER-FIRST: rc=0" not in r3.stderr:
                    raise Inconclusive("the stream's own reader did not copy it: %s" % r3.stderr[-300:])
                ok = refused(ctx, m, r3, ep.name + "-after-own-reader", "ndjson", "%s reader %s fed %s after the same process read that stream with its own reader" % (ep.name, reader, case["class"]),
                             dict(case, input_len=len(data), fmt=fmt, after_own_reader=True)) and ok
            os.unlink(fp)
        return ok

    cpp_jobs = [j for j in jobs if not j[0].name.startswith("py")]
    py_jobs = [j for j in jobs if j[0].name.startswith("py")]
    pmap(one, cpp_jobs)
    for j in py_jobs:
        one(j)
    m.close()

    # a protocol of an imported namespace that has the simple name of a protocol added to the top-level namespace since the previous version:
    # nothing but the simple name relates them, the top-level reader must refuse the imported protocol's stream (as any version of itself, too)
    def imported_same_name():
        lib = Pkg("Common", [Proto("Frames", [("count", P("int32")), ("samples", S(P("int32")))])])
        old = Pkg("Demo", [Proto("Other", [("x", P("int32"))])], [lib], [], "demo_v0")
        new = Pkg("Demo", [Proto("Other", [("x", P("int32"))]), Proto("Frames", [("count", P("uint32")), ("samples", S(P("uint32")))])], [lib], [("v0", old)], "demo")
        m3 = rt.prepare_model(ctx, "importedsamename", new, ["plain"], langs=("cpp",))
        mlib = rt.prepare_model(ctx, "importedsamename_lib", lib, ["plain"], langs=("cpp",))
        mold = rt.prepare_model(ctx, "importedsamename_old", copy.deepcopy(old), ["plain"], langs=("cpp",))
        mold_schema = mold.schema("Other") if mold is not None else "{}"
        if mold is not None:
            mold.close()
        if m3 is None or mlib is None:
            raise Inconclusive("imported-same-name model did not build")
        cl = mlib.codec
        vals = [-3, [-1, -2, 5]]
        data = cl.encode_stream(lib.find("Frames"), mlib.schema("Frames"), vals)
        ep = rt.CppEndpoint(m3, "plain")
        r = ep.copy("Frames", "bin", "ndjson", data)
        ctx.ev()
        ctx.count("imported-same-name")
        ctx.case(("imported-same-name",))
        refused(ctx, m3, r, ep.name, "ndjson", "Demo.Frames reader (added since v0) fed a stream of the imported Common.Frames", {"class": "imported-same-name"})
        # the same reader (its protocol did not exist in v0, which is a listed version) fed its own payload under headers whose schema is empty / blank / "null":
        # there is no version whose schema is the empty string
        c3 = m3.codec
        mine = new.find("Frames")
        own = c3.encode_stream(mine, m3.schema("Frames"), [3, [1, 2, 5]])
        body = own[len(c3.encode_stream(mine, m3.schema("Frames"), [3, [1, 2, 5]], upto=0)):]
        for nm, sch in (("empty", b""), ("blank", b" "), ("null", b"null"), ("empty-object", b"{}"), ("v0-other-protocol", mold_schema.encode())):
            lv = bytearray()
            put_uvarint(lv, len(sch))
            data2 = b"yardl" + struct.pack("<I", 1) + bytes(lv) + sch + body
            for rd in ("Frames", "Other"):
                r2 = ep.copy(rd, "bin", "ndjson", data2)
                ctx.ev()
                ctx.count("added-protocol-header")
                ctx.case(("added-protocol-header", nm, rd))
                if rd == "Other" and nm == "v0-other-protocol":
                    continue     # Other's v0 schema is a registered schema of Other: accepting it is right
                refused(ctx, m3, r2, ep.name, "ndjson", "Demo.%s reader fed a stream whose header carries the schema %r" % (rd, sch[:40]), {"class": "added-protocol-header:" + nm, "reader": rd})
        m3.close(); mlib.close()
    imported_same_name()

    # two models that differ only in a type that is reachable through the *second* instantiation of a generic type and nowhere else
    def generic_second_instantiation(kind):
        def mk(valty, tag):
            pixel = Rec("Pixel", [("v", P("uint8"))])
            voxel = Rec("Voxel", [("value", P(valty)), ("w", P("uint32"))])
            if kind == "record":
                g = Rec("Image", [("data", V(TP("T"))), ("n", P("int32"))], ("T",))
            elif kind == "alias":
                g = Al("Image", V(TP("T")), ("T",))
            else:
                g = Al("Image", U(((None, TP("T")), (None, P("string")))), ("T",))
            if kind == "nested":
                g = Rec("Image", [("data", V(TP("T"))), ("n", P("int32"))], ("T",))
                holder = Rec("Holder", [("preview", N("Image", (N("Pixel"),))), ("volume", N("Image", (N("Voxel"),)))])
                steps = [("h", N("Holder")), ("more", S(N("Holder")))]
                defs = [pixel, voxel, g, holder]
            else:
                steps = [("preview", N("Image", (N("Pixel"),))), ("volume", N("Image", (N("Voxel"),))), ("more", S(N("Image", (N("Voxel"),))))]
                defs = [pixel, voxel, g]
            return Pkg("Scan", defs + [Proto("Acquisition", steps)], [], [], "scan_%s_%s" % (kind, tag))
        pa, pb = mk("float32", "a"), mk("int32", "b")
        ma = rt.prepare_model(ctx, "gen2_%s_a" % kind, pa, ["plain"])
        mb = rt.prepare_model(ctx, "gen2_%s_b" % kind, pb, ["plain"])
        if ma is None or mb is None:
            raise Inconclusive("generic-second-instantiation model did not build")
        A2 = pa.find("Acquisition")
        vg = values.ValueGen(ma.codec, rng("C15g", kind), json_safe=True)
        vals = vg.steps(A2, stream_len=2)
        for fmt, data in (("bin", ma.codec.encode_stream(A2, ma.schema("Acquisition"), vals)),
                          ("ndjson", ("\n".join(ma.codec.ndjson_lines(A2, ma.schema("Acquisition"), vals)) + "\n").encode())):
            for ep in (rt.CppEndpoint(mb, "plain"), rt.PyEndpoint(mb)):
                r = ep.copy("Acquisition", fmt, "ndjson", data)
                ctx.ev()
                ctx.count("generic-second-instantiation")
                ctx.case(("generic-second-instantiation", kind, fmt, ep.name))
                refused(ctx, mb, r, ep.name, "ndjson", "reader of a model whose Voxel.value is int fed a stream of the model whose Voxel.value is float (%s generic, Voxel reachable only through Image<Voxel>)" % kind,
                        {"class": "generic-second-instantiation:" + kind, "fmt": fmt})
        ma.close(); mb.close()
    for kind in ("record", "alias", "union-alias", "nested"):
        generic_second_instantiation(kind)

    # single-edit neighbours that keep every name: the same namespace, protocol and type names in two packages that differ in one encoding-relevant
    # detail; documented (comment-carrying) and undocumented definitions alike. Nothing but the detail itself tells the two schemas apart.
    def same_name_neighbours():
        from vlib.model import A as Arr      # `A` is a protocol in this function's enclosing scope
        def mk(tag, **o):
            doc = o.get("doc", True)
            level = En("Level", o.get("level_values", [("lo", 0), ("hi", 1)]), o.get("level_base", "uint8"), False, True, "how strong" if doc else None)
            plain = En("Plain", [("p", 0), ("q", 1)], o.get("plain_base", None), False, True, None)
            perm = En("Perm", [("r", 1), ("w", 2)], o.get("perm_base", "uint16"), True, True, "access bits" if doc else None)
            ident = Al("Ident", P(o.get("ident", "uint32")), (), "an identifier" if doc else None)
            box = Rec("Box", [("content", TP("T")), ("n", P(o.get("box_n", "int32")))], ("T",))
            samp = Rec("Sample", o.get("sample_fields", [("id", N("Ident")), ("level", N("Level")), ("note", Opt(P("string"))), ("w", P("float32"))]), (), [], "one sample" if doc else None)
            if doc:
                samp.field_comments = {"id": "who", "level": "how"}
            # aliases that are each used in exactly one kind of position (nothing else leads the schema walk to them)
            only = [Al("OnlyKey", P(o.get("only_key", "uint32"))), Al("OnlyItem", P(o.get("only_item", "int16"))), Al("OnlyArg", P(o.get("only_arg", "float32"))),
                    Al("OnlyCase", P(o.get("only_case", "uint8"))), Al("OnlyBase", P(o.get("only_base", "uint8"))), Al("OnlyArr", P(o.get("only_arr", "int32"))),
                    En("ViaBase", [("x", 0), ("y", 1)], o.get("only_base", "uint8"), False, True, None, "OnlyBase")]
            proto = Proto("Flow", o.get("steps", [("first", N("Sample")), ("perm", N("Perm")), ("plain", N("Plain")), ("items", S(N("Sample"))), ("grid", o.get("grid", Arr(P("int16"), ((None, 2), (None, 3))))),
                                                  ("pairs", M(P(o.get("key", "string")), N("Box", (N("Level"),)))), ("choice", U(o.get("choice", ((None, P("int32")), (None, P("string")))))), ("tail", V(N("Ident"), o.get("tail_len"))),
                                                  ("byKey", M(N("OnlyKey"), P("float32"))), ("seq", V(N("OnlyItem"))), ("boxed", N("Box", (N("OnlyArg"),))), ("either", U(((None, N("OnlyCase")), (None, P("string"))))),
                                                  ("viaBase", N("ViaBase")), ("cells", Arr(N("OnlyArr"), 1))]))
            if doc:
                proto.comment = "the flow"
                proto.step_comments = {"first": "first sample"}
            return Pkg("Same", [level, plain, perm, ident, box, samp] + only + [proto], [], [], "same_" + tag)
        base = mk("base")
        edits = [("doc-enum-base", dict(level_base="int32")), ("doc-enum-base-wide", dict(level_base="uint64")), ("doc-flags-base", dict(perm_base="uint8")), ("plain-enum-base", dict(plain_base="uint8")),
                 ("doc-enum-value", dict(level_values=[("lo", 0), ("hi", 2)])), ("doc-alias-target", dict(ident="uint64")), ("generic-field", dict(box_n="int64")),
                 ("field-optional", dict(sample_fields=[("id", N("Ident")), ("level", N("Level")), ("note", P("string")), ("w", P("float32"))])),
                 ("field-order", dict(sample_fields=[("level", N("Level")), ("id", N("Ident")), ("note", Opt(P("string"))), ("w", P("float32"))])),
                 ("array-shape", dict(grid=Arr(P("int16"), ((None, 3), (None, 2))))), ("array-rank", dict(grid=Arr(P("int16"), 2))), ("map-key", dict(key="uint8")),
                 ("union-order", dict(choice=((None, P("string")), (None, P("int32"))))), ("vector-fixed", dict(tail_len=2)),
                 ("undocumented-enum-base", dict(doc=False, level_base="int32")),
                 ("alias-only-map-key", dict(only_key="int32")), ("alias-only-vector-item", dict(only_item="uint16")), ("alias-only-type-argument", dict(only_arg="float64")),
                 ("alias-only-union-case", dict(only_case="int8")), ("alias-only-enum-base", dict(only_base="int16")), ("alias-only-array-item", dict(only_arr="uint32"))]
        if quick:
            edits = [e for i, e in enumerate(edits) if i in (0, 2, 3, 5, 8, 10, 14, 15, 16, 17, 18, 19, 20)]
        ma = rt.prepare_model(ctx, "samename_base", base, [], langs=("python",))
        mu = rt.prepare_model(ctx, "samename_base_undoc", mk("baseundoc", doc=False), [], langs=("python",))
        if ma is None or mu is None:
            raise Inconclusive("same-name base model did not generate")
        for tag, o in edits:
            src = mu if o.get("doc") is False else ma
            pb = mk(tag.replace("-", "_"), **o)
            mb = rt.prepare_model(ctx, "samename_" + tag.replace("-", "_"), pb, ["plain"] if tag in ("doc-enum-base", "field-order") else [], langs=("python", "cpp") if tag in ("doc-enum-base", "field-order") else ("python",))
            if mb is None:
                raise Inconclusive("same-name neighbour %s did not generate" % tag)
            for direction, (mw, mr) in (("base->edited", (src, mb)), ("edited->base", (mb, src))):
                pw = mw.pkg.find("Flow")
                vals = values.ValueGen(mw.codec, rng("C15sn", tag, direction), json_safe=True).steps(pw, stream_len=2)
                for fmt, data in (("bin", mw.codec.encode_stream(pw, mw.schema("Flow"), vals)), ("ndjson", ("\n".join(mw.codec.ndjson_lines(pw, mw.schema("Flow"), vals)) + "\n").encode())):
                    eps = [rt.PyEndpoint(mr)] + ([rt.CppEndpoint(mr, "plain")] if mr is mb and tag in ("doc-enum-base", "field-order") else [])
                    for ep in eps:
                        r = ep.copy("Flow", fmt, "ndjson", data)
                        ctx.ev()
                        ctx.count("same-name-neighbour")
                        ctx.case(("same-name-neighbour", tag, direction, fmt, ep.name))
                        refused(ctx, mr, r, ep.name, "ndjson", "two packages with the same names that differ only in `%s` (%s): the reader of one fed a %s stream of the other" % (tag, direction, fmt),
                                {"class": "same-name-neighbour:" + tag, "fmt": fmt, "direction": direction})
            mb.close()
        ma.close(); mu.close()
    same_name_neighbours()

    def big_schema_neighbours():
        """schemas of 25-60 KiB (longer than any limit on one string literal or one buffer a target might have): neighbours that differ in one field type of the
        record that comes first, in the middle or last in the schema text; C++ and Python readers, binary and NDJSON"""
        def mk(tag, nrec, which, t):
            recs = []
            for j in range(nrec):
                nm = ("AFirst" if j == 0 else "ZLast" if j == nrec - 1 else "Mid%03d" % j)
                ft = P(t if (which, j) in (("first", 0), ("middle", nrec // 2), ("last", nrec - 1)) else "int32")
                recs.append(Rec(nm, [("reading", ft)] + [("aRatherLongFieldNameNumber%dOfRecordNumber%03d" % (f, j), P(["float32", "int64", "string", "uint8"][f % 4])) for f in range(7)]))
            steps = [("s%03d" % j, N(r.name)) for j, r in enumerate(recs)]
            return Pkg("Big", recs + [Proto("Flow", steps[:3] + [("items", S(N("ZLast")))] + steps[3:])], [], [], "big_" + tag)
        def sch(m):
            # the reference streams carry the schema text of the generated Python (one literal, never split); the C++ literal has to be the same text
            py, cpp = m.py_schema("Flow"), m.cpp_schema("Flow")
            if py != cpp:
                ctx.violation("schema-literal-differs:cpp-vs-python:big", "a %d-byte schema is embedded as %d bytes in the generated C++ (truncated or altered): C++ readers compare against that text" % (len(py), len(cpp)),
                              {"model_dir": m.root, "python_len": len(py), "cpp_len": len(cpp), "common_prefix": len(os.path.commonprefix([py, cpp]))})
            return py
        for nrec in ((45,) if quick else (45, 110)):
            base = mk("base%d" % nrec, nrec, None, "int32")
            mbase = rt.prepare_model(ctx, "bigschema_base%d" % nrec, base, ["plain"])
            if mbase is None:
                raise Inconclusive("big-schema base model did not build")
            ctx.count("big-schema-bytes", len(sch(mbase)))
            for which in ("last", "middle", "first"):
                pb = mk("%s%d" % (which, nrec), nrec, which, "uint32")
                mb = rt.prepare_model(ctx, "bigschema_%s%d" % (which, nrec), pb, ["plain"])
                if mb is None:
                    raise Inconclusive("big-schema neighbour did not build")
                for direction, (mw, mr) in (("base->edited", (mbase, mb)), ("edited->base", (mb, mbase))):
                    pw = mw.pkg.find("Flow")
                    vals = values.ValueGen(mw.codec, rng("C15big", which, direction), json_safe=True).steps(pw, stream_len=2)
                    for fmt, data in (("bin", mw.codec.encode_stream(pw, sch(mw), vals)), ("ndjson", ("\n".join(mw.codec.ndjson_lines(pw, sch(mw), vals)) + "\n").encode())):
                        for ep in (rt.CppEndpoint(mr, "plain"), rt.PyEndpoint(mr)):
                            r = ep.copy("Flow", fmt, "ndjson", data)
                            ctx.ev()
                            ctx.count("big-schema-neighbour")
                            ctx.case(("big-schema-neighbour", nrec, which, direction, fmt, ep.name))
                            refused(ctx, mr, r, ep.name, "ndjson", "two packages with a %d-byte schema that differ in one field type of the %s record of the schema (%s): the reader of one fed a %s stream of the other" % (
                                len(sch(mw)), which, direction, fmt), {"class": "big-schema-neighbour:" + which, "fmt": fmt, "direction": direction})
                # own streams are still accepted (the oracle is not vacuous)
                pw = mb.pkg.find("Flow")
                vals = values.ValueGen(mb.codec, rng("C15bigown", which), json_safe=True).steps(pw, stream_len=2)
                data = mb.codec.encode_stream(pw, sch(mb), vals)
                for ep in (rt.CppEndpoint(mb, "plain"), rt.PyEndpoint(mb)):
                    r = ep.copy("Flow", "bin", "bin", data)
                    ctx.ev()
                    rt.judge(ctx, mb, pw, vals, data, r, ep.name, "bin", "big schema: a reader on a stream of its own package", {"big_schema": True})
                mb.close()
            mbase.close()
    big_schema_neighbours()

    # the reader generated for an edited model *over the output of the model before the edit*: it is the edited model's reader, so it refuses a
    # stream of the model before the edit - also when the edit replaces a type name by one of the same length (no generated file changes its size)
    def regenerated_in_place():
        from vlib import mut as mutmod       # `mut` is a local name in the enclosing scope
        pairs = [("float32", "float64"), ("int32", "int64"), ("uint8", "int16"), ("uint16", "uint32"), ("string", "uint64")]
        if quick:
            pairs = pairs[:3]
        for ta, tb in pairs:
            def mk(t):
                return Pkg("Regen", [Rec("Cal", [("gain", P(t)), ("offset", P("float32"))]), Proto("Trace", [("cal", N("Cal")), ("samples", S(P(t))), ("n", P("uint32"))])], [], [], "regen")
            pa, pb = mk(ta), mk(tb)
            root = os.path.join(ctx.workdir, "cases", "regen_%s_%s" % (ta, tb))
            shutil.rmtree(root, ignore_errors=True)
            ma = mutmod.Mut(pa, root, langs=("python",))
            try:
                ma.generate()
                data_a = ma.codec.encode_stream(pa.find("Trace"), ma.schema("Trace"), values.ValueGen(ma.codec, rng("C15rg", ta), json_safe=True).steps(pa.find("Trace"), stream_len=3))
                nd_a = ("\n".join(ma.codec.ndjson_lines(pa.find("Trace"), ma.schema("Trace"), values.ValueGen(ma.codec, rng("C15rg", ta), json_safe=True).steps(pa.find("Trace"), stream_len=3))) + "\n").encode()
                ma.close()
                mb = mutmod.Mut(pb, root, langs=("python",))      # same root: model file and output directory are those of the first generation
                mb.generate()
            except mutmod.GenerateFailed as e:
                raise Inconclusive("regenerate-in-place model did not generate: %s" % str(e)[:200])
            for fmt, data in (("bin", data_a), ("ndjson", nd_a)):
                r = rt.PyEndpoint(mb).copy("Trace", fmt, "ndjson", data)
                ctx.ev()
                ctx.count("regenerated-in-place")
                ctx.case(("regenerated-in-place", ta, tb, fmt))
                refused(ctx, mb, r, "py", "ndjson", "reader regenerated for `gain: %s` over the output generated for `gain: %s`, fed a %s stream of the earlier model" % (tb, ta, fmt),
                        {"class": "regenerated-in-place:%s-%s" % (ta, tb), "fmt": fmt})
            mb.close()
    regenerated_in_place()

    def regenerated_by_watcher():
        """the reader is generated by a long-running `yardl generate --watch` that has seen earlier models of the same protocol: the model file is saved
        several times (the protocol stays where it is; a record, an enum base, a vector length below it change); after every regeneration the Python
        reader the watcher wrote is fed the streams of every earlier model (written with the schema a one-shot generation embeds)."""
        from vlib import mut as mutmod
        from props import C20
        chains = [("record-field", ["float32", "float64", "int32", "float32"]), ("enum-base", ["uint8", "int16", "uint64"]), ("vector-length", [3, 4, None])]
        if quick:
            chains = [(n, ch[:3]) for n, ch in chains]

        def mk(kind, x):
            t = x if kind == "record-field" else "int32"
            fields = [("gain", P(t)), ("offset", P("float32"))]
            defs = [Rec("Cal", fields)]
            if kind == "enum-base":
                defs = [En("Mode", [("idle", 0), ("armed", 1)], x, False, True), Rec("Cal", fields + [("mode", N("Mode"))])]
            if kind == "vector-length":
                defs = [Rec("Cal", fields + [("taps", V(P("float32"), x))])]
            return Pkg("Regen", defs + [Proto("Trace", [("cal", N("Cal")), ("samples", S(N("Cal"))), ("n", P("uint32"))])], [], [], "regen")

        for kind, chain in chains:
            pkgs = [mk(kind, x) for x in chain]
            streams = []
            for k, pk in enumerate(pkgs):
                rootk = os.path.join(ctx.workdir, "cases", "watchregen_%s_ref%d" % (kind, k))
                shutil.rmtree(rootk, ignore_errors=True)
                mr = mutmod.Mut(pk, rootk, langs=("python",))
                try:
                    mr.generate()
                except mutmod.GenerateFailed as e:
                    raise Inconclusive("watch-regenerate model did not generate: %s" % str(e)[:200])
                pr = pk.find("Trace")
                vals = values.ValueGen(mr.codec, rng("C15wr", kind, k), json_safe=True).steps(pr, stream_len=3)
                streams.append((mr.codec.encode_stream(pr, mr.schema("Trace"), vals), ("\n".join(mr.codec.ndjson_lines(pr, mr.schema("Trace"), vals)) + "\n").encode()))
                mr.close()
                shutil.rmtree(rootk, ignore_errors=True)
            root = os.path.join(ctx.workdir, "cases", "watchregen_%s" % kind)
            shutil.rmtree(root, ignore_errors=True)
            m0 = mutmod.Mut(pkgs[0], root, langs=("python",))
            m0.write()
            w = C20.Watcher(root, m0.home, common.build_yardl(), pkgdir=pkgs[0].dir)
            bad = False
            try:
                if not w.wait_quiescent_patient(1, limit_s=40):
                    raise Inconclusive("watch-regenerate %s: the initial generation in watch mode did not finish within 40 s wall" % kind)
                for k in range(1, len(pkgs)):
                    starts = w.counts()[0]
                    mk_ = mutmod.Mut(pkgs[k], root, langs=("python",))
                    mk_.write()
                    if not w.wait_quiescent_patient(starts + 1, limit_s=40):
                        raise Inconclusive("watch-regenerate %s: the watcher was not quiescent within 40 s wall after save %d (alive=%s)" % (kind, k, w.alive()))
                    ok_own = rt.PyEndpoint(mk_).copy("Trace", "bin", "ndjson", streams[k][0])
                    ctx.ev()
                    ctx.count("watch-regenerated.own-stream-" + ("accepted" if ok_own.rc == 0 else "refused"))
                    for j in range(k):
                        if chain[j] == chain[k]:
                            continue
                        for fmt, data in (("bin", streams[j][0]), ("ndjson", streams[j][1])):
                            r = rt.PyEndpoint(mk_).copy("Trace", fmt, "ndjson", data)
                            ctx.ev()
                            ctx.count("watch-regenerated")
                            ctx.case(("watch-regenerated", kind, j, k, fmt))
                            if not refused(ctx, mk_, r, "py", "ndjson", "%s: reader regenerated by a running `generate --watch` after save %d (%s: %s), fed a %s stream of the model of save %d (%s)" % (
                                    kind, k, kind, chain[k], fmt, j, chain[j]), {"class": "watch-regenerated:%s" % kind, "fmt": fmt}):
                                bad = True
                    mk_.close()
            finally:
                w.stop()
            if not bad:
                shutil.rmtree(root, ignore_errors=True)
    regenerated_by_watcher()

    # unrelated protocols of corpus models
    def corpus_pairs(key):
        pkg2 = corpus.ser_package(key, depth=2)
        m2 = rt.prepare_model(ctx, key, pkg2, ["plain"])
        if m2 is None:
            return
        c2 = m2.codec
        ps = pkg2.protocols()
        ep = rt.CppEndpoint(m2, "plain")
        for a in ps:
            vg = values.ValueGen(c2, rng("C15c", key, a.name), json_safe=True)
            vals = vg.steps(a)
            data = c2.encode_stream(a, m2.schema(a.name), vals)
            for b in ps:
                if b.name == a.name:
                    continue
                r = ep.copy(b.name, "bin", "ndjson", data)
                ctx.ev()
                ctx.count("unrelated")
                refused(ctx, m2, r, ep.name, "ndjson", "unrelated: reader %s fed a stream of %s (%s)" % (b.name, a.name, key), {"class": "unrelated", "key": key})
                ctx.case((key, a.name, b.name))
        m2.close()
    pmap(corpus_pairs, corpus.ser_keys(4 if quick else 120, "u"), workers=4)
    ctx.sample({"neighbours": [p.name for p in others], "header_bytes": hdr_len, "schema_offset": schema_off})
    ctx.sample({"ndjson_header_variants": list(variants)})
    cxx.prune_cache()


def replay(ctx, path):
    print(json.dumps(json.load(open(path)), indent=1, default=str)[:3000])
    run(ctx)
