"""C07 - protocol step order is enforced by generated readers and writers.

Workload: all stream / non-stream patterns of 1-3 steps (1-4 in thorough), a 130-step protocol (260 in thorough; the generated C++ state is a uint8_t
and reader states are doubled). For every protocol the generated ABSTRACT BASE CLASSES are driven with stub implementations by an action interpreter
(C++: subclass of <P>WriterBase / <P>ReaderBase compiled from a harness-emitted driver; Python: subclass created by reflection).
Sequences: every valid prefix of the reference automaton (stream visits bounded) followed by EVERY action of the alphabet - so every (reference
state, action) pair is executed - plus seeded random walks. A fresh object per sequence; the sequence stops at the first exception.
Oracle: reference automata written from docs/cpp/language.md and docs/python/language.md: steps in declaration order, non-stream steps once,
stream steps any number of times then ended (C++ End<Step>) / exhausted (reader saw the end), Close only when every step is complete."""
from __future__ import annotations

import itertools
import json
import os
import re

from vlib import cli, common, cxx, mut
from vlib.common import pmap, rng, Inconclusive

LEVEL = "exploration"
FLOOR = {"quick": 3000, "thorough": 40000}


def patterns(maxlen):
    out = []
    for n in range(1, maxlen + 1):
        for p in itertools.product("vs", repeat=n):
            out.append("".join(p))
    return out


def proto_name(p):
    return "Sm" + p.capitalize()


def model_text(pats, big):
    t = []
    for p in pats:
        t.append("%s: !protocol\n  sequence:\n" % proto_name(p))
        for i, ch in enumerate(p):
            t.append("    %s: %s\n" % (chr(97 + i), "int" if ch == "v" else "!stream {items: int}"))
    for n in big:
        t.append("SmBig%d: !protocol\n  sequence:\n" % n)
        for i in range(n):
            t.append("    s%d: %s\n" % (i, "!stream {items: int}" if i % 16 == 5 else "int"))
    return "".join(t)


def big_pattern(n):
    return "".join("s" if i % 16 == 5 else "v" for i in range(n))


# ----------------------------------------------------------------------------- reference automata

class WriterRef:
    """C++ dialect: w<i> single, b<i>:<k> batch, e<i> end, c close.  Python dialect: w/l/g write, c close (streams end implicitly)."""

    def __init__(self, pat, dialect):
        self.p, self.d = pat, dialect
        self.pos = 0
        self.written = False   # python: current stream step has been written at least once

    closed = False

    def step(self, tok):
        """-> 'ok' | 'throw' | 'dontcare'"""
        n = len(self.p)
        op = tok[0]
        if self.closed:
            return "dontcare"     # using a writer after a successful close() is outside the property
        if op in ("c", "X"):
            if self.d == "cpp":
                if self.pos == n:
                    self.closed = True
                    return "ok"
                return "throw"
            if self.pos == n:
                self.closed = True
                return "ok"
            if self.pos == n - 1 and self.p[self.pos] == "s" and self.written:
                self.pos = n
                self.closed = True
                return "ok"
            return "throw"
        i = int(tok[1:].split(":")[0])
        if op == "p":
            # C++: a stub reader (k items per stream) is copied into this writer with CopyTo(); the i-th stub implementation called (reader and writer
            # implementations counted together, i = 0: none) throws. CopyTo drives the writer through its public methods, so whatever was completed
            # before the failure stays completed, and a writer that is not at its start rejects the first write.
            k = int(tok.split(":")[1])
            calls = []
            for si, ch in enumerate(self.p):
                calls += [("R", si), ("w", si)] if ch == "v" else [("R", si), ("w", si)] * k + [("R", si), ("e", si)]
            for idx, (kind, si) in enumerate(calls, 1):
                if i and idx == i:
                    return "throw"
                if kind != "R" and self.step("%s%d" % (kind, si)) != "ok":
                    return "throw"
            return "ok"
        if op in ("x", "y") and self.d == "cpp":
            # C++ stubs: the implementation of an in-order Write / End throws (an out-of-order one is rejected before it is called): either way the call
            # throws and the step is not completed
            return "throw"
        if op == "x":
            # python: the call is in order but the implementation raises: the step is not written; a stream that the call ended implicitly stays ended
            if i == self.pos + 1 and self.pos < n and self.p[self.pos] == "s" and self.written:
                self.pos += 1
                self.written = False
            return "throw"
        if self.d == "cpp":
            if i != self.pos:
                return "throw"
            if self.p[i] == "v":
                if op != "w":
                    return "throw"
                self.pos += 1
                return "ok"
            if op in ("w", "b"):
                return "ok"
            if op == "e":
                self.pos += 1
                return "ok"
            return "throw"
        # python
        if i == self.pos:
            if self.p[i] == "v":
                self.pos += 1
                self.written = False
                return "ok"
            self.written = True
            return "ok"
        if i == self.pos + 1 and self.pos < n and self.p[self.pos] == "s" and self.written:
            # the next step implicitly ends the current stream
            self.pos += 1
            self.written = False
            return self.step(tok)
        return "throw"


class ReaderRef:
    def __init__(self, pat, dialect, k):
        self.p, self.d = pat, dialect
        self.pos = 0
        self.left = list(k)
        self.pending = False   # cpp: a batch read reported the end of the stream; a further read of the step returns false once more
        self.observed_end = False  # cpp: ... and the caller already saw `false` (empty final batch): reading the step again is don't-care
        self.open_iter = False  # python: an iterable was returned and not fully consumed
        self.closed = False

    def step(self, tok):
        n = len(self.p)
        op = tok[0]
        if self.closed:
            return ("dontcare", None)
        if op in ("c", "X") and self.pos == n and not (self.d == "py" and self.open_iter):
            self.closed = True
        if op in ("c", "X"):
            if self.d == "py" and self.open_iter:
                return ("throw", None)
            if self.pos == n:
                return ("ok", None)
            if self.d == "cpp" and self.pending and self.pos == n - 1:
                return ("dontcare", None)
            return ("throw", None)
        i = int(tok[1:].split(":")[0])
        if self.d == "py" and self.open_iter:
            return ("throw", None)
        if op == "x" and self.d == "cpp":
            # the implementation of the read throws: nothing is completed; while the end of a stream is pending the base class may already have moved on
            return ("dontcare", None) if self.pending else ("throw", None)
        if self.d == "cpp":
            if self.pending and i == self.pos + 1:
                # the end of the stream was reported by a batch read: moving on completes the step
                self.pending = self.observed_end = False
                self.pos += 1
            if i != self.pos:
                return ("throw", None)
            if self.pending and self.observed_end:
                return ("dontcare", None)
            if self.p[i] == "v":
                if op != "r":
                    return ("throw", None)
                self.pos += 1
                return ("ok", None)
            if op == "r":
                if self.pending:
                    self.pending = False
                    self.pos += 1
                    return ("ok", "0")
                if self.left[i] > 0:
                    self.left[i] -= 1
                    return ("ok", "1")
                self.pos += 1
                return ("ok", "0")
            if op == "B":
                cap = int(tok.split(":")[1])
                if self.pending:
                    self.pending = False
                    self.pos += 1
                    return ("ok", "0:0")
                take = min(cap, self.left[i])
                self.left[i] -= take
                if take == cap:
                    return ("ok", "1:%d" % take)
                # the stub reported the end
                self.pending = True
                if take > 0:
                    return ("ok", "1:%d" % take)
                self.observed_end = True
                return ("ok", "0:0")
            return ("throw", None)
        # python
        if i != self.pos:
            return ("throw", None)
        if self.p[i] == "v":
            self.pos += 1
            return ("ok", None)
        if op == "r":
            got = self.left[i]
            self.left[i] = 0
            self.pos += 1
            return ("ok", str(got))
        if op in ("p", "q"):       # q = p followed by closing and dropping the iterator: the stream is just as unfinished
            want = int(tok.split(":")[1])
            got = min(want, self.left[i])
            self.left[i] -= got
            if got < want:
                # asked for more than there is: the iterator was exhausted
                self.pos += 1
                return ("ok", str(got))
            self.open_iter = True
            return ("ok", str(got))
        if op == "n":
            self.open_iter = True
            return ("ok", None)
        return ("throw", None)


def alphabet(pat, role, dialect):
    toks = ["c"] + (["X"] if dialect == "py" else [])     # X: leaving a `with` block (documented usage of the Python readers and writers)
    for i, ch in enumerate(pat):
        if role == "w":
            if dialect == "cpp":
                toks += ["w%d" % i] + (["b%d:2" % i, "b%d:0" % i, "e%d" % i] if ch == "s" else [])
            else:
                toks += (["l%d:2" % i, "l%d:0" % i, "g%d:1" % i] if ch == "s" else ["w%d" % i])
        else:
            if dialect == "cpp":
                toks += ["r%d" % i] + (["B%d:2" % i, "B%d:5" % i] if ch == "s" else [])
            else:
                toks += ["r%d" % i] + (["p%d:1" % i, "q%d:1" % i, "n%d" % i] if ch == "s" else [])
    return toks


def sequences(pat, role, dialect, k, r, n_random, max_len=None):
    """every valid prefix (bounded stream visits) extended by every action, plus random walks"""
    alpha = alphabet(pat, role, dialect)
    seqs = set()
    # BFS over reference-valid prefixes
    frontier = [()]
    max_len = max_len or (2 * len(pat) + 3)
    valid_prefixes = []
    while frontier:
        nxt = []
        for pre in frontier:
            valid_prefixes.append(pre)
            if len(pre) >= max_len:
                continue
            for a in alpha:
                ref = WriterRef(pat, dialect) if role == "w" else ReaderRef(pat, dialect, k)
                ok = True
                for t in pre + (a,):
                    res = ref.step(t)
                    res = res if isinstance(res, str) else res[0]
                    if res != "ok":
                        ok = False
                        break
                if ok and a not in ("c", "X") and sum(1 for t in pre if t[1:].split(":")[0] == a[1:].split(":")[0]) < 3:
                    nxt.append(pre + (a,))
        frontier = nxt[:400]
    for pre in valid_prefixes:
        for a in alpha:
            seqs.add(pre + (a,))
    # after an exception the object is still there: a premature close() followed by every action, and (Python writers) an in-order call whose
    # implementation raises followed by every action
    short = [pre for pre in valid_prefixes if len(pre) <= len(pat) + 1]
    for pre in short:
        for a in alpha:
            seqs.add(pre + ("c", a))
            if dialect == "py":
                seqs.add(pre + ("X", a))
        if role == "w" and dialect == "py":
            for i in range(len(pat)):
                for a in alpha:
                    seqs.add(pre + ("x%d:%s" % (i, pat[i]), a))
        if dialect == "cpp" and role == "w" and len(pre) <= 1:
            # CopyTo() from a stub reader into this writer, failing at every point (and not at all), then every action
            for kk in (0, 2):
                ncalls = sum(2 if ch == "v" else 2 * kk + 2 for ch in pat)
                for nf in range(0, ncalls + 1):
                    for a in alpha:
                        seqs.add(pre + ("p%d:%d" % (nf, kk), a))
        if dialect == "cpp":
            # an implementation that throws once (a failing sink / source): the step it was called for is not completed by that call
            for i in range(len(pat)):
                for a in alpha:
                    seqs.add(pre + ("x%d" % i, a))
                    if role == "w" and pat[i] == "s":
                        seqs.add(pre + ("y%d" % i, a))
    for _ in range(n_random):
        seqs.add(tuple(r.choice(alpha) for _ in range(r.randint(1, 2 * len(pat) + 4))))
    return sorted(seqs)


def expected(pat, role, dialect, k, seq):
    ref = WriterRef(pat, dialect) if role == "w" else ReaderRef(pat, dialect, k)
    out = []
    for t in seq:
        res = ref.step(t)
        if isinstance(res, str):
            res = (res, None)
        out.append(res)
        if res[0] == "throw" and (t in ("c", "X") or t[0] in ("x", "y", "p")):
            continue      # a rejected close() and a raising implementation leave the object where it was: the sequence goes on
        if res[0] != "ok":
            break
    return out


# ----------------------------------------------------------------------------- C++ driver

def cpp_driver(ns, protos):
    """protos: [(class prefix, pattern, [step method suffixes])]"""
    o = ['#include <cstdio>\n#include <cstdlib>\n#include <iostream>\n#include <sstream>\n#include <string>\n#include <vector>\n#include "protocols.h"\n',
         "static std::vector<int> g_k;\nstatic int g_fail_in = 0;   // n > 0: the n-th stub implementation called from now on throws\nstatic void maybe_fail() { if (g_fail_in > 0 && --g_fail_in == 0) { throw std::runtime_error(\"stub implementation fails\"); } }\n"]
    for name, pat, steps in protos:
        o.append("struct W_%s : public %s::%sWriterBase {\n" % (name, ns, name))
        for i, ch in enumerate(pat):
            o.append("  void Write%sImpl(int32_t const&) override { maybe_fail(); }\n" % steps[i])
            if ch == "s":
                o.append("  void End%sImpl() override { maybe_fail(); }\n" % steps[i])
        o.append("};\nstruct R_%s : public %s::%sReaderBase {\n  std::vector<int> left = g_k;\n" % (name, ns, name))
        for i, ch in enumerate(pat):
            if ch == "v":
                o.append("  void Read%sImpl(int32_t& v) override { maybe_fail(); v = 7; }\n" % steps[i])
            else:
                o.append("  bool Read%sImpl(int32_t& v) override { maybe_fail(); if (left.at(%d) > 0) { left[%d]--; v = 1; return true; } return false; }\n" % (steps[i], i, i))
                o.append("  using %s::%sReaderBase::Read%sImpl;\n" % (ns, name, steps[i]))
        o.append("};\n")
        o.append("static void run_w_%s(std::vector<std::string> const& seq) {\n  W_%s w;\n  for (auto const& t : seq) {\n    try {\n      std::string a = t.substr(1); size_t c = a.find(':'); int i = t == \"c\" ? -1 : std::stoi(a.substr(0, c)); int arg = c == std::string::npos ? 0 : std::stoi(a.substr(c + 1));\n      (void)arg;\n      if (t == \"c\") { w.Close(); }\n" % (name, name))
        for i, ch in enumerate(pat):
            o.append("      else if (t[0] == 'w' && i == %d) { w.Write%s(int32_t(1)); }\n" % (i, steps[i]))
            o.append("      else if (t[0] == 'x' && i == %d) { g_fail_in = 1; w.Write%s(int32_t(1)); }\n" % (i, steps[i]))
            if ch == "s":
                o.append("      else if (t[0] == 'b' && i == %d) { std::vector<int32_t> v(arg, 1); w.Write%s(v); }\n" % (i, steps[i]))
                o.append("      else if (t[0] == 'e' && i == %d) { w.End%s(); }\n" % (i, steps[i]))
                o.append("      else if (t[0] == 'y' && i == %d) { g_fail_in = 1; w.End%s(); }\n" % (i, steps[i]))
        o.append("      else if (t[0] == 'p') { R_%s rd; rd.left.assign(%d, arg); g_fail_in = i; rd.CopyTo(w%s); }\n" % (name, len(pat), "".join(", 1" for ch in pat if ch == "s")))
        o.append('      else { std::printf("throw:no-such-method\\n"); return; }\n      g_fail_in = 0;\n      std::printf("ok\\n");\n    } catch (std::exception const& e) { g_fail_in = 0; std::printf("throw\\n"); }\n  }\n}\n')
        o.append("static void run_r_%s(std::vector<std::string> const& seq) {\n  R_%s r;\n  for (auto const& t : seq) {\n    try {\n      std::string a = t.substr(1); size_t c = a.find(':'); int i = t == \"c\" ? -1 : std::stoi(a.substr(0, c)); int arg = c == std::string::npos ? 0 : std::stoi(a.substr(c + 1));\n      (void)arg;\n      if (t == \"c\") { r.Close(); std::printf(\"ok\\n\"); }\n" % (name, name))
        for i, ch in enumerate(pat):
            if ch == "v":
                o.append("      else if (t[0] == 'r' && i == %d) { int32_t v; r.Read%s(v); std::printf(\"ok\\n\"); }\n" % (i, steps[i]))
                o.append("      else if (t[0] == 'x' && i == %d) { g_fail_in = 1; int32_t v; r.Read%s(v); g_fail_in = 0; std::printf(\"ok\\n\"); }\n" % (i, steps[i]))
            else:
                o.append("      else if (t[0] == 'r' && i == %d) { int32_t v; bool b = r.Read%s(v); std::printf(\"ok:%%d\\n\", b ? 1 : 0); }\n" % (i, steps[i]))
                o.append("      else if (t[0] == 'x' && i == %d) { g_fail_in = 1; int32_t v; bool b = r.Read%s(v); g_fail_in = 0; std::printf(\"ok:%%d\\n\", b ? 1 : 0); }\n" % (i, steps[i]))
                o.append("      else if (t[0] == 'B' && i == %d) { std::vector<int32_t> v; v.reserve(arg); bool b = r.Read%s(v); std::printf(\"ok:%%d:%%zu\\n\", b ? 1 : 0, v.size()); }\n" % (i, steps[i]))
        o.append('      else { std::printf("throw:no-such-method\\n"); return; }\n    } catch (std::exception const& e) { g_fail_in = 0; std::printf("throw\\n"); }\n  }\n}\n')
    o.append('#include "binary/protocols.h"\n')
    for name, pat, steps in protos:
        if name.startswith("SmBig"):
            continue
        o.append("static int run_real_%s(std::vector<std::string> const& seq) {\n  try {\n    %s::binary::%sWriter w(std::cout);\n    int32_t n = 100;\n    for (auto const& t : seq) {\n"
                 "      std::string a = t.substr(1); size_t c = a.find(':'); int i = t == \"c\" ? -1 : std::stoi(a.substr(0, c)); int arg = c == std::string::npos ? 0 : std::stoi(a.substr(c + 1)); (void)arg;\n"
                 "      if (t == \"c\") { w.Close(); }\n" % (name, ns, name))
        for i, ch in enumerate(pat):
            o.append("      else if (t[0] == 'w' && i == %d) { w.Write%s(n++); }\n" % (i, steps[i]))
            if ch == "s":
                o.append("      else if (t[0] == 'b' && i == %d) { std::vector<int32_t> v; for (int k = 0; k < arg; k++) v.push_back(n++); w.Write%s(v); }\n" % (i, steps[i]))
                o.append("      else if (t[0] == 'e' && i == %d) { w.End%s(); }\n" % (i, steps[i]))
        o.append('    }\n  } catch (std::exception const& e) { std::cout.flush(); std::cerr << "DRIVER-ERROR: " << e.what() << "\\n"; return 3; }\n  return 0;\n}\n')
    o.append("int main(int argc, char** argv) {\n  if (argc > 2 && std::string(argv[1]) == \"--real\") {\n    std::vector<std::string> seq(argv + 3, argv + argc);\n")
    for name, pat, steps in protos:
        if not name.startswith("SmBig"):
            o.append('    if (std::string(argv[2]) == "%s") return run_real_%s(seq);\n' % (name, name))
    o.append("    return 64;\n  }\n  std::string line;\n  while (std::getline(std::cin, line)) {\n    std::istringstream ss(line); std::string proto, role, ks; ss >> proto >> role >> ks;\n"
             "    g_k.clear(); { std::stringstream kk(ks); std::string x; while (std::getline(kk, x, ',')) if (!x.empty() && x != \"-\") g_k.push_back(std::stoi(x)); }\n"
             "    std::vector<std::string> seq; std::string t; while (ss >> t) seq.push_back(t);\n    std::printf(\"#\\n\");\n")
    for name, pat, steps in protos:
        o.append('    if (proto == "%s") { if (role == "w") run_w_%s(seq); else run_r_%s(seq); continue; }\n' % (name, name, name))
    o.append("  }\n  return 0;\n}\n")
    return "".join(o)


def run(ctx):
    common.build_yardl()
    quick = ctx.tier == "quick"
    home = os.path.join(ctx.workdir, "home")
    os.makedirs(home, exist_ok=True)
    pats = patterns(3 if quick else 4)
    big = [130] if quick else [130, 260]
    ctx.rule = ("protocol shapes: all %d stream/non-stream patterns of length <= %d + %s-step protocols; per shape, role (writer/reader) and language (C++/Python): every "
                "reference-valid call prefix (stream visits <= 3) extended by every action of the alphabet, + seeded random walks; reader stubs deliver k in {0,1,2,5} items "
                "per stream. distinct = (language, role, shape, k, call sequence)." % (len(pats), 3 if quick else 4, big))
    ctx.assumptions = ["C++ dialect: stream steps are ended with End<Step>() / exhausted by reading until false; after a batch read delivered the last items, Close() is don't-care",
                       "Python dialect: a stream step may be written by several calls and ends implicitly with the next step or close(); a stream written zero times is incomplete; "
                       "a returned iterable must be consumed before the next read or close()", "behaviour after the first exception and message texts are don't-care",
                       "MATLAB *Base.m state machines cannot be executed"]
    root = os.path.join(ctx.workdir, "sm")
    man = "namespace: Sm\ncpp:\n  sourcesOutputDir: ../out/cpp\n  generateHDF5: false\n  generateCMakeLists: false\n  generateNDJson: false\n  overrideArrayHeader: %s\npython:\n  outputDir: ../out/python\n" % cxx.ARRAY_HEADER
    common.write_tree(root, {"pkg/_package.yml": man, "pkg/model.yml": model_text(pats, big)})
    p = cli.run_cli("generate", os.path.join(root, "pkg"), home)
    if p.rc != 0:
        ctx.violation("generate-failed", "state-machine model rejected: %s" % cli.clean(p.stderr)[:400], {"case_dir": root})
        return
    hdr = open(os.path.join(root, "out/cpp/protocols.h")).read()
    info = cxx.GenInfo(os.path.join(root, "out/cpp"))
    shapes = [(proto_name(pt), pt) for pt in pats] + [("SmBig%d" % n, big_pattern(n)) for n in big]
    protos = []
    for name, pt in shapes:
        m = re.search(r"^class %sWriterBase \{(.*?)^\};" % name, hdr, re.M | re.S)
        steps = []
        for f in re.finditer(r"void Write(\w+)\(", m.group(1)):
            if f.group(1) not in steps and not f.group(1).endswith("Impl"):
                steps.append(f.group(1))
        if len(steps) != len(pt):
            raise Inconclusive("cannot map steps of %s" % name)
        protos.append((name, pt, steps))
    try:
        exe = cxx.build(os.path.join(root, "out/cpp"), "plain", driver_src=cpp_driver(info.ns, protos), tag="c07")
    except cxx.CompileError as e:
        ctx.violation("cpp-compile-failed", "state-machine drivers do not compile: %s" % str(e)[-1000:], {"case_dir": root})
        return
    pyd = os.path.join(root, "out/python")
    worker = mut.PyWorker(pyd, [e for e in os.listdir(pyd) if os.path.isdir(os.path.join(pyd, e))][0], os.path.join(root, "pyio"))
    if not worker.hello.get("ready"):
        ctx.violation("python-import-failed", str(worker.hello.get("error")), {"case_dir": root})
        return
    ks_small = [0, 1, 2, 5]

    def batch(name, pt, role, dialect, k, seqs, real=None):
        """runs all sequences; returns list of outcome lists"""
        if dialect == "cpp":
            lines = "".join("%s %s %s %s\n" % (name, role, ",".join(map(str, k)) if k else "-", " ".join(s)) for s in seqs)
            pr = common.run([exe], stdin=lines.encode(), cpu_s=120)
            if pr.rc != 0 or pr.sig is not None:
                return None, "driver rc=%s sig=%s %s" % (pr.rc, pr.sig, pr.stderr[-300:])
            outs = [blk.split("\n")[:-1] if blk else [] for blk in pr.stdout.split("#\n")[1:]]
            outs = [[x for x in o if x] for o in outs]
            return outs, None
        res = worker.cmd({"op": "statemachine", "proto": name, "role": role, "seqs": [list(s) for s in seqs], "k": [ki for ki in k], "real": real})
        if not res.get("ok"):
            return None, res.get("error")
        return res["results"], None

    jobs = []
    for name, pt in shapes:
        isbig = name.startswith("SmBig")
        for dialect in ("cpp", "py"):
            for role in ("w", "r"):
                kvals = ks_small if (role == "r" and "s" in pt and not isbig) else [2]
                for kv in kvals:
                    k = [kv if ch == "s" else None for ch in pt]
                    kk = [x if x is not None else 0 for x in k] if dialect == "cpp" else k
                    jobs.append((name, pt, role, dialect, kk, kv, isbig, None))
                    if dialect == "py" and not isbig and kv in (0, 2):
                        # the same sequences on the generated binary and NDJSON readers / writers over in-memory streams
                        jobs.append((name, pt, role, dialect, kk, kv, isbig, "binary"))
                        jobs.append((name, pt, role, dialect, kk, kv, isbig, "ndjson"))

    def one(job):
        name, pt, role, dialect, k, kv, isbig, real = job
        label = dialect if real is None else "%s-%s" % (dialect, real)
        r = rng("C07", name, role, dialect, kv)
        kref = [x if x is not None else 0 for x in k]
        if isbig:
            # the in-order sequence, every prefix followed by one wrong action, and a few random ones
            full = []
            for i, ch in enumerate(pt):
                if role == "w":
                    full += (["w%d" % i] if ch == "v" else (["w%d" % i, "e%d" % i] if dialect == "cpp" else ["l%d:1" % i]))
                else:
                    full += (["r%d" % i] if ch == "v" else (["r%d" % i] * (kv + 1) if dialect == "cpp" else ["r%d" % i]))
            seqs = [tuple(full + ["c"])]
            for cut in sorted(set([0, 1, 2, len(full) // 2, len(full) - 1] + [r.randrange(len(full)) for _ in range(12)] + [j for j in range(len(full)) if 120 <= j <= 140 or 250 <= j <= 262])):
                for wrong in ("c", "%s%d" % ("w" if role == "w" else "r", min(len(pt) - 1, (cut // 2 + 3) % len(pt))), "%s0" % ("w" if role == "w" else "r")):
                    seqs.append(tuple(full[:cut] + [wrong]))
        else:
            seqs = sequences(pt, role, dialect, kref, r, 15 if quick else 80)
        if real:
            seqs = [q for q in seqs if not any(t[0] in ("x", "y", "p") for t in q)]     # a real writer has no implementation that can be made to raise
        outs, err = batch(name, pt, role, dialect, k, seqs, real)
        if outs is None:
            ctx.violation("driver-failed:%s" % label, "%s %s %s: %s" % (name, role, label, err), {"case_dir": root})
            return
        for seq, got in zip(seqs, outs):
            ctx.ev()
            ctx.case((label, role, name, kv, seq))
            exp = expected(pt, role, dialect, kref, seq)
            ctx.count("%s.%s" % (label, "writer" if role == "w" else "reader"))
            for j, (e, d) in enumerate(exp):
                g = got[j] if j < len(got) else "missing"
                if e == "dontcare":
                    break
                gk = g.split(":")[0]
                if e == "throw":
                    if gk != "throw":
                        ctx.violation("accepted-out-of-order:%s:%s:%s" % (label, "writer" if role == "w" else "reader", "big" if isbig else action_class(pt, seq, j)),
                                      "%s %s %s (k=%s): call #%d `%s` of sequence %s must raise, but returned %s" % (label, name, "writer" if role == "w" else "reader", kv, j + 1, seq[j], list(seq), g),
                                      {"protocol": name, "pattern": pt, "sequence": list(seq), "got": got, "expected": exp})
                        break
                    if j + 1 < len(exp):
                        ctx.count("continued-after-exception")
                        continue
                    break
                if gk != "ok":
                    ctx.violation("rejected-in-order:%s:%s:%s" % (label, "writer" if role == "w" else "reader", "big" if isbig else action_class(pt, seq, j)),
                                  "%s %s %s (k=%s): call #%d `%s` of the in-order sequence %s raised (%s)" % (label, name, "writer" if role == "w" else "reader", kv, j + 1, seq[j], list(seq), g),
                                  {"protocol": name, "pattern": pt, "sequence": list(seq), "got": got, "expected": exp})
                    break
                if d is not None and ":" in g and g.split(":", 1)[1] != d:
                    ctx.violation("wrong-result:%s:reader" % label, "%s %s reader (k=%s): call #%d `%s` of %s returned %s, expected %s" % (label, name, kv, j + 1, seq[j], list(seq), g, d),
                                  {"protocol": name, "pattern": pt, "sequence": list(seq), "got": got})
                    break

    # the python worker is single-threaded; C++ batches run in parallel
    pmap(one, [j for j in jobs if j[3] == "cpp"])
    for j in jobs:
        if j[3] == "py":
            one(j)
    # ---- the same kind of sequences on the REAL binary writers: what they emit must decode to exactly what was written
    from vlib.model import Pkg, Proto, P, S
    from vlib.refcodec import Codec, CodecError
    src = open(os.path.join(root, "out/cpp/protocols.cc")).read()
    real_jobs = []
    for name, pt in shapes:
        if name.startswith("SmBig") or "s" not in pt or len(pt) > 3:
            continue
        hp = Pkg("Sm", [Proto(name, [(chr(97 + i), P("int32") if ch == "v" else S(P("int32"))) for i, ch in enumerate(pt)])])
        sch = re.search(r'std::string %sWriterBase::schema_ = R"\((.*?)\)";' % name, src, re.S).group(1)
        r = rng("C07real", name)
        for rep in range(6 if quick else 30):
            seq, want, n = [], [], 100
            for i, ch in enumerate(pt):
                if ch == "v":
                    seq.append("w%d" % i); want.append(n); n += 1
                else:
                    items = []
                    for _ in range(r.randint(0, 4)):
                        if r.random() < 0.5:
                            seq.append("w%d" % i); items.append(n); n += 1
                        else:
                            k = r.choice([0, 0, 1, 2, 3])
                            seq.append("b%d:%d" % (i, k)); items += list(range(n, n + k)); n += k
                    seq.append("e%d" % i)
                    want.append(items)
            seq.append("c")
            real_jobs.append((name, hp, sch, seq, want))

    def real(job):
        name, hp, sch, seq, want = job
        pr = common.run([exe, "--real", name] + seq)
        ctx.ev()
        ctx.count("real-binary-writer")
        ctx.case(("real", name, tuple(seq)))
        what = "real binary writer %s, in-order sequence %s" % (name, seq)
        if pr.rc != 0 or pr.sig is not None:
            ctx.violation("rejected-in-order:cpp:real-writer", "%s raised: %s" % (what, pr.stderr[-200:]), {"sequence": seq})
            return
        try:
            d = Codec(hp).decode_stream(hp.find(name), pr.out)
        except (CodecError, UnicodeDecodeError) as e:
            ctx.violation("real-writer:undecodable:%s" % ("empty-batch" if any(t.endswith(":0") for t in seq) else "other"),
                          "%s: the emitted stream does not decode under the published format: %s" % (what, e), {"sequence": seq, "bytes": pr.out[-60:]})
            return
        if d["values"] != want or d["end"] != len(pr.out):
            ctx.violation("real-writer:values:%s" % ("empty-batch" if any(t.endswith(":0") for t in seq) else "other"),
                          "%s: decoded %s, written %s" % (what, d["values"], want), {"sequence": seq})
    pmap(real, real_jobs)
    worker.close()
    ctx.sample({"patterns": pats[:6], "example_sequences": [list(s) for s in sequences("vs", "w", "cpp", [0, 0], rng("x"), 0)[:6]]})
    ctx.sample({"python_alphabet_for_vs_reader": alphabet("vs", "r", "py")})


def action_class(pt, seq, j):
    t = seq[j]
    if t in ("c", "X"):
        return "close"
    return "op-" + t[0]


def replay(ctx, path):
    print(json.dumps(json.load(open(path)), indent=1, default=str)[:3000])
    run(ctx)
