"""C19 - computed fields mean the same thing in every target language.

Workload: (1) EXHAUSTIVE type table: all 13 x 13 ordered pairs of numeric primitives x {+, -, *, /, **}: acceptance of `a op b` and `b op a`
(one `yardl validate` each), then the declared result type in generated C++ and in generated Python; (2) operand values (type limits, +-1, 0,
negative dividends, fractional floats, values whose exact result is representable) for pairs over {int8, uint16, int32, uint64, float32,
float64}; (3) a catalogue of structured expressions (right-nested arithmetic, casts, vector / array / map subscripts by position and by
dimension name, size / dimensionIndex / dimensionCount, nested record access, switch over unions and optionals, literal spellings).
Monitor: records are reference-encoded, read by the generated C++ and Python code, every computed field is invoked and printed at full precision.
Oracle: type(a op b) = type(b op a) (or both rejected); C++ type = Python type; `**` yields float64; each language's value equals the exact
rational value of the expression (integers exactly; floats within 1 ulp of the result type) whenever operands and exact result are
representable in the static result type; for inexact integer quotients only cross-language agreement is demanded."""
from __future__ import annotations

import json
import math
import os
import re
import shutil
import struct
import subprocess
from fractions import Fraction

from vlib import cli, common, cxx, mut, rt
from vlib.common import pmap, rng, Inconclusive
from vlib.model import *  # noqa
from vlib.refcodec import Codec, F, f32, f64

LEVEL = "exploration"
FLOOR = {"quick": 1500, "thorough": 1500}
NUMS = ["int8", "uint8", "int16", "uint16", "int32", "uint32", "int64", "uint64", "size", "float32", "float64", "complexfloat32", "complexfloat64"]
OPS = [("add", "+"), ("sub", "-"), ("mul", "*"), ("div", "/"), ("pow", "**")]
CPP_T = {"int8_t": "int8", "uint8_t": "uint8", "int16_t": "int16", "uint16_t": "uint16", "int32_t": "int32", "uint32_t": "uint32", "int64_t": "int64",
         "uint64_t": "uint64", "yardl::Size": "size", "float": "float32", "double": "float64", "std::complex<float>": "complexfloat32",
         "std::complex<double>": "complexfloat64", "std::string": "string", "bool": "bool"}
PY_T = {"yardl.Int8": "int8", "yardl.UInt8": "uint8", "yardl.Int16": "int16", "yardl.UInt16": "uint16", "yardl.Int32": "int32", "yardl.UInt32": "uint32",
        "yardl.Int64": "int64", "yardl.UInt64": "uint64", "yardl.Size": "size", "yardl.Float32": "float32", "yardl.Float64": "float64",
        "yardl.ComplexFloat": "complexfloat32", "yardl.ComplexDouble": "complexfloat64", "str": "string", "bool": "bool"}
VAL_TYPES = ["int8", "uint16", "int32", "uint64", "float32", "float64"]
# one operator between two integer literals (non-negative, positive quotients only: the sign of an integer quotient is a listed finding)
LIT_BINARY = [(1, "+", 2), (100, "-", 200), (60000, "+", 60000), (7, "/", 2), (200, "*", 200), (255, "+", 1), (65535, "+", 1), (4000000000, "-", 1), (1, "-", 255),
              (300, "*", 300), (65535, "*", 2), (250, "/", 7), (70000, "+", 1), (0, "-", 1)]


def literal_type(n: int) -> str:
    """an integer literal has the narrowest unsigned type that holds it (not documented: this is what the operand-type table of part 1 and the
    diagnostics show - `i64 + 1` is reported as int64 + uint8 -; the relation checked with it holds on the unchanged tree for every entry)"""
    return "uint8" if n <= 255 else "uint16" if n <= 65535 else "uint32" if n <= 2 ** 32 - 1 else "uint64"


def cap(s):
    return s[:1].upper() + s[1:]


def write_pkg(root, model, outputs=True):
    man = "namespace: Cf\n"
    if outputs:
        man += "cpp:\n  sourcesOutputDir: ../out/cpp\n  generateHDF5: false\n  generateCMakeLists: false\n  generateNDJson: false\n  overrideArrayHeader: %s\npython:\n  outputDir: ../out/python\n" % cxx.ARRAY_HEADER
    common.write_tree(root, {"pkg/_package.yml": man, "pkg/model.yml": model})
    return os.path.join(root, "pkg")


def declared_types(root):
    """{(record, computed field lower-cased): (cpp type, python type)}"""
    cpp = open(os.path.join(root, "out/cpp/types.h")).read()
    pyd = os.path.join(root, "out/python")
    pk = [e for e in os.listdir(pyd) if os.path.isdir(os.path.join(pyd, e))][0]
    py = open(os.path.join(pyd, pk, "types.py")).read()
    out = {}
    for m in re.finditer(r"^struct (\w+) \{(.*?)^\};", cpp, re.M | re.S):
        for f in re.finditer(r"^  ([\w:<>, ]+?)(?: const&)? (\w+)\(\) const \{", m.group(2), re.M):
            out.setdefault((m.group(1), f.group(2).lower()), [None, None])[0] = f.group(1).strip()
    for m in re.finditer(r"^class (\w+)(?:\(.*?\))?:\n(.*?)(?=^class |\Z)", py, re.M | re.S):
        for f in re.finditer(r"^    def (\w+)\(self\) -> ([\w.\[\], ]+):", m.group(2), re.M):
            out.setdefault((m.group(1), f.group(1).replace("_", "").lower()), [None, None])[1] = f.group(2).strip()
    return out, pk


# ----------------------------------------------------------------------------- value driver

def driver_src(ns, protos):
    """protos: [(protocol class, record class, [method names])]"""
    parts = ['#include <complex>\n#include <cstdio>\n#include <iostream>\n#include <string>\n#include "binary/protocols.h"\n',
             "template <class T> void put(T const& v) {\n"
             "  if constexpr (std::is_same_v<T, bool>) { std::printf(v ? \"true\" : \"false\"); }\n"
             "  else if constexpr (std::is_floating_point_v<T>) { if (v != v) std::printf(\"\\\"nan\\\"\"); else if (v - v != 0) std::printf(v > 0 ? \"\\\"inf\\\"\" : \"\\\"-inf\\\"\"); else std::printf(\"%.17g\", static_cast<double>(v)); }\n"
             "  else if constexpr (std::is_integral_v<T> && std::is_signed_v<T>) { std::printf(\"%lld\", static_cast<long long>(v)); }\n"
             "  else if constexpr (std::is_integral_v<T>) { std::printf(\"%llu\", static_cast<unsigned long long>(v)); }\n"
             "  else if constexpr (std::is_same_v<T, std::string>) { std::printf(\"\\\"%s\\\"\", v.c_str()); }\n"
             "  else { std::printf(\"[%.17g,%.17g]\", static_cast<double>(v.real()), static_cast<double>(v.imag())); }\n}\n",
             "int main(int argc, char** argv) {\n  std::string p = argc > 1 ? argv[1] : \"\";\n  try {\n"]
    for pc, rc, methods, step in protos:
        parts.append('  if (p == "%s") {\n    %s::binary::%sReader r(std::cin);\n    %s::%s v;\n    while (r.Read%s(v)) {\n      std::printf("[");\n' % (pc, ns, pc, ns, rc, step))
        for i, mname in enumerate(methods):
            parts.append('      %stry { put(v.%s()); } catch (std::exception const& e) { std::printf("{\\"error\\":\\"exception\\"}"); }\n' % ('std::printf(",");\n      ' if i else "", mname))
        parts.append('      std::printf("]\\n");\n    }\n    r.Close();\n    return 0;\n  }\n')
    parts.append('  } catch (std::exception const& e) { std::fflush(stdout); std::cerr << "DRIVER-ERROR: " << e.what() << "\\n"; return 3; }\n  return 64;\n}\n')
    return "".join(parts)


def ulp(x: float, w: int) -> float:
    if x == 0 or not math.isfinite(x):
        return 5e-324 if w == 64 else 1.4e-45
    e = math.frexp(abs(x))[1]
    return math.ldexp(1.0, e - (53 if w == 64 else 24))


def exact(v):
    if isinstance(v, F):
        return Fraction(v.value)
    return Fraction(v)


def in_type(x: Fraction, t: str) -> bool:
    if t in INT_RANGE:
        return x.denominator == 1 and INT_RANGE[t][0] <= x <= INT_RANGE[t][1]
    if t == "float32":
        return abs(x) <= Fraction(3.4e38)
    return abs(x) <= Fraction(1.7e308)


def operand_values(t, r, n):
    if t in INT_RANGE:
        lo, hi = INT_RANGE[t]
        base = [0, 1, 2, 3, 7, hi, hi - 1, lo, lo + 1, -1, -2, -7, 100, 127, 128, 255, 256, 65535, 2**31 - 1, 2**31, 2**32, 2**53, 2**53 + 1, 2**63 - 1]
        vals = [v for v in base if lo <= v <= hi]
        vals += [r.randint(lo, hi) for _ in range(n)] + [r.randint(max(lo, -50), min(hi, 50)) for _ in range(n)]
        return vals
    mk = f32 if t == "float32" else f64
    return [mk(x) for x in [0.0, 1.0, -1.0, 0.5, -0.5, 2.5, -7.25, 1e-3, 3.0, 1e6, -1e6, 0.1, 123456.789, 1.5e10, -2.75]] + [mk(r.uniform(-100, 100)) for _ in range(n)]


def judge_value(ctx, what, op, rt_name, a, b, got_cpp, got_py, case):
    """a, b harness values; got_*: numbers parsed from the drivers' JSON"""
    A, B = exact(a), exact(b)
    isint = rt_name in INT_RANGE
    w = 32 if rt_name == "float32" else 64
    if isinstance(got_cpp, dict) or isinstance(got_py, dict):
        return   # an exception in one language for out-of-domain operands: not judged
    exp = None
    if op in ("+", "-", "*"):
        exp = A + B if op == "+" else (A - B if op == "-" else A * B)
    elif op == "/":
        if B == 0:
            return
        exp = A / B
    elif op == "**":
        if not (0 < A <= 1000 and abs(B) <= 8):
            return
        try:
            exp = Fraction(float(A) ** float(B))
        except (OverflowError, ValueError, ZeroDivisionError):
            return
    inrange = in_type(A, rt_name) and in_type(B, rt_name) and exp is not None and (in_type(exp, rt_name) if not (isint and op == "/" and exp.denominator != 1) else True)
    if not inrange:
        ctx.count("value.out-of-range-not-judged")
        return
    ctx.count("value.judged")

    def close(x, e):
        if isint:
            return Fraction(x) == e
        if not isinstance(x, (int, float)):
            return False
        tol = 2 * ulp(float(e), w) if op != "**" else max(8 * ulp(float(e), w), 1e-300)
        return abs(Fraction(x) - e) <= Fraction(tol)
    if isint and op == "/" and exp.denominator != 1:
        if got_cpp != got_py:
            ctx.violation("cross-language:int-division", "%s: %r / %r: C++ gives %r, Python gives %r (inexact integer quotient: only agreement is demanded)" % (what, a, b, got_cpp, got_py), case)
        return
    for lang, got in (("cpp", got_cpp), ("py", got_py)):
        if not close(got, exp):
            ctx.violation("value:%s:%s" % (lang, {"+": "add", "-": "sub", "*": "mul", "/": "div", "**": "pow"}[op]),
                          "%s: %r %s %r (result type %s): %s returns %r, the mathematical value is %s" % (what, a, op, b, rt_name, lang, got, float(exp) if not isint else int(exp)), case)


def run(ctx):
    common.build_yardl()
    quick = ctx.tier == "quick"
    home = os.path.join(ctx.workdir, "home")
    os.makedirs(home, exist_ok=True)
    ctx.exhaustive = True
    ctx.rule = ("type table: 13x13 ordered pairs of numeric primitives x 5 operators, exhaustive (acceptance of both operand orders, declared C++ and Python result types); "
                "values: pairs over %s x 5 operators x edge / random operands; structured expression catalogue with hand-derived expected values. "
                "distinct = (T1, T2, op) / (pair, op, operand values) / expression." % VAL_TYPES)
    ctx.assumptions = ["the promotion table is not hard-coded: only symmetry, C++ = Python, `**` -> float64 and 'result type can hold the exact result' are demanded",
                       "'in range' = both operands and the exact result are representable in the static result type", "MATLAB expressions cannot be executed"]
    # ---- (1) acceptance symmetry
    def accept(case):
        t1, t2, (opn, op) = case
        res = []
        for x, y in (("a", "b"), ("b", "a")):
            root = os.path.join(ctx.workdir, "acc", "%s_%s_%s_%s" % (t1, t2, opn, x))
            pkgdir = write_pkg(root, "R: !record\n  fields:\n    a: %s\n    b: %s\n  computedFields:\n    c: %s %s %s\n" % (t1, t2, x, op, y), outputs=False)
            p = cli.run_cli("validate", pkgdir, home)
            ctx.ev()
            site = cli.panic_site(p.stderr)
            if site:
                ctx.violation("panic@%s" % site, "%s %s %s: crash" % (t1, op, t2), {"case_dir": root})
            res.append(p.rc)
            shutil.rmtree(root, ignore_errors=True)
        ctx.case((t1, t2, op))
        if res[0] != res[1]:
            ctx.violation("asymmetric-acceptance:%s" % opn, "%s %s %s is %s but %s %s %s is %s" % (t1, op, t2, "accepted" if res[0] == 0 else "rejected", t2, op, t1, "accepted" if res[1] == 0 else "rejected"), {})
        return (t1, t2, opn, op, res[0] == 0 and res[1] == 0)
    table = pmap(accept, [(a, b, o) for a in NUMS for b in NUMS for o in OPS])
    accepted = [x for x in table if x[4]]
    ctx.count("typetable.accepted", len(accepted))
    ctx.count("typetable.rejected", len(table) - len(accepted))
    # ---- declared types for all accepted combinations (one package)
    recs = {}
    for t1, t2, opn, op, _ in accepted:
        recs.setdefault((t1, t2), []).append((opn, op))
    model = []
    for (t1, t2), ops in recs.items():
        model.append("T%sX%s: !record\n  fields:\n    a: %s\n    b: %s\n  computedFields:\n" % (cap(t1), cap(t2), t1, t2))
        for opn, op in ops:
            model.append("    f%s: a %s b\n    r%s: b %s a\n" % (opn, op, opn, op))
    root = os.path.join(ctx.workdir, "table")
    pkgdir = write_pkg(root, "".join(model))
    p = cli.run_cli("generate", pkgdir, home)
    ctx.ev()
    if p.rc != 0:
        ctx.violation("generate-failed", "type-table package rejected although every expression validates alone: %s" % cli.clean(p.stderr)[:400], {"case_dir": root})
        return
    decl, _ = declared_types(root)
    result_type = {}
    for (t1, t2), ops in recs.items():
        rn = "T%sX%s" % (cap(t1), cap(t2))
        for opn, op in ops:
            tf = decl.get((rn, "f" + opn))
            tr = decl.get((rn, "r" + opn))
            ctx.count("typetable.declared")
            if not tf or not tr or None in tf or None in tr:
                ctx.violation("declared-type-missing", "%s: declared types of f%s / r%s not found (%s, %s)" % (rn, opn, opn, tf, tr), {"case_dir": root})
                continue
            cf, pf = CPP_T.get(tf[0], tf[0]), PY_T.get(tf[1], tf[1])
            cr, pr = CPP_T.get(tr[0], tr[0]), PY_T.get(tr[1], tr[1])
            if cf != cr or pf != pr:
                ctx.violation("asymmetric-type:%s" % opn, "%s %s %s has type %s/%s but %s %s %s has type %s/%s (C++/Python)" % (t1, op, t2, cf, pf, t2, op, t1, cr, pr), {"case_dir": root})
            if cf != pf:
                ctx.violation("type-cpp-vs-python:%s" % opn, "%s %s %s: C++ declares %s, Python declares %s" % (t1, op, t2, cf, pf), {"case_dir": root})
            if op == "**" and cf not in ("float64", "float32") and not cf.startswith("complex"):
                ctx.violation("pow-not-floating", "%s ** %s has type %s (documented: `**` yields a floating-point value)" % (t1, t2, cf), {"case_dir": root})
            result_type[(t1, t2, op)] = cf
            small = {"int8": 8, "uint8": 8, "int16": 16, "uint16": 16}
            if t1 in small and t2 in small and cf in INT_RANGE and (op in ("+", "-") or (op == "*" and small[t1] == 8 and small[t2] == 8)):
                (lo1, hi1), (lo2, hi2) = INT_RANGE[t1], INT_RANGE[t2]
                ext = [f(a, b) for a in (lo1, hi1) for b in (lo2, hi2) for f in ({"+": lambda x, y: x + y, "-": lambda x, y: x - y, "*": lambda x, y: x * y}[op],)]
                lo, hi = INT_RANGE[cf]
                if min(ext) < lo or max(ext) > hi:
                    ctx.violation("result-type-too-narrow:%s" % opn, "%s %s %s has static type %s, which cannot hold the exact result for all operand values (range %d..%d) although int32 can" % (
                        t1, op, t2, cf, min(ext), max(ext)), {"case_dir": root})
    ctx.sample({"accepted": len(accepted), "rejected": len(table) - len(accepted), "examples": {"%s%s%s" % (k[0], k[2], k[1]): v for k, v in list(result_type.items())[:12]}})

    # ---- (2) values
    vrecs, vmodel = [], []
    for i, t1 in enumerate(VAL_TYPES):
        for t2 in VAL_TYPES[i:]:
            ops = [(opn, op) for (opn, op) in OPS if (t1, t2, op) in result_type]
            if not ops:
                continue
            rn = "V%sX%s" % (cap(t1), cap(t2))
            vmodel.append("%s: !record\n  fields:\n    a: %s\n    b: %s\n  computedFields:\n" % (rn, t1, t2))
            names = []
            for opn, op in ops:
                vmodel.append("    f%s: a %s b\n    r%s: b %s a\n" % (opn, op, opn, op))
                names += [("f" + opn, op, False), ("r" + opn, op, True)]
            vmodel.append("P%s: !protocol\n  sequence:\n    items: !stream\n      items: %s\n" % (rn, rn))
            vrecs.append((rn, t1, t2, names))
    # ---- (3) structured expressions
    EXPRS = [
        ("enest", "ia - (ib - ic)", lambda v: v["ia"] - (v["ib"] - v["ic"])),
        ("enestb", "(ia - ib) - ic", lambda v: (v["ia"] - v["ib"]) - v["ic"]),
        ("emuladd", "(ia + ib) * ic", lambda v: (v["ia"] + v["ib"]) * v["ic"]),
        ("eaddmul", "ia + ib * ic", lambda v: v["ia"] + v["ib"] * v["ic"]),
        ("edivmul", "da / (db * dc)", lambda v: v["da"] / (v["db"] * v["dc"])),
        ("edivdiv", "da / (db / dc)", lambda v: v["da"] / (v["db"] / v["dc"])),
        ("edivl", "da / db / dc", lambda v: v["da"] / v["db"] / v["dc"]),
        ("esubmix", "da - (ia - db)", lambda v: v["da"] - (v["ia"] - v["db"])),
        ("epowr", "2 ** 3 ** 2", lambda v: 512.0),
        ("epowl", "(2 ** 3) ** 2", lambda v: 64.0),
        ("elithex", "0x10 + ia", lambda v: 16 + v["ia"]),
        ("elitexp", "1e3 * da", lambda v: 1000.0 * v["da"]),
        ("ecast", "da as int32", lambda v: int(v["da"])),
        ("ecastf", "ia as float64", lambda v: float(v["ia"])),
        ("esize", "size(vec)", lambda v: len(v["vec"])),
        ("eidx", "vec[1]", lambda v: v["vec"][1]),
        ("eidxe", "vec[size(vec) - 1]", lambda v: v["vec"][-1]),
        ("earr", "arr[1, 2]", lambda v: v["arr"][1 * 3 + 2]),
        ("earrn", "arr[row:1, col:0]", lambda v: v["arr"][1 * 3 + 0]),
        ("earrt", "size(arr)", lambda v: 6),
        ("earrd", "size(arr, 1)", lambda v: 3),
        ("earrdn", "size(arr, 'row')", lambda v: 2),
        ("edimi", "dimensionIndex(arr, 'col')", lambda v: 1),
        ("edimc", "dimensionCount(arr)", lambda v: 2),
        ("emap", 'mp["k"]', lambda v: dict(v["mp"])["k"]),
        ("enested", "inner.q + inner.p", lambda v: v["inner"][0] + v["inner"][1]),
        ("efarr", "farr[1, 0]", lambda v: v["farr"][2]),
        # postfix operators bind tighter than a sign; a negated base of ** keeps its parentheses
        ("enegmem", "-inner.q + 1", lambda v: -v["inner"][1] + 1),
        ("enegidx", "-vec[0]", lambda v: -v["vec"][0]),
        ("enegarr", "-arr[1, 2] - 1", lambda v: -v["arr"][1 * 3 + 2] - 1),
        ("enegpowl", "(-3.0) ** 2", lambda v: 9.0),
        ("enegpowu", "(-da) ** 2", lambda v: v["da"] ** 2),
        ("enegpowi", "(-2) ** 3 + 0.0", lambda v: -8.0),
        # a sign in front of something that already carries one
        ("enegneglf", "-(-2.0)", lambda v: 2.0),
        ("enegnegli", "-(-2) + 0.0", lambda v: 2.0),
        ("enegnegu", "-(-da)", lambda v: v["da"]),
        ("enegneg3", "-(-(-2.5)) + da", lambda v: -2.5 + v["da"]),
        ("eminusneg", "da - -2.0", lambda v: v["da"] + 2.0),
        # literal-only sub-expressions in a floating-point context are not integer arithmetic
        ("elitdiv", "1 / 3 as float64", lambda v: 1.0 / 3.0),
        ("elitdivm", "da * (2 / 3 as float64)", lambda v: v["da"] * (2.0 / 3.0)),
        ("elitmul", "(100000 as float64) * 100000", lambda v: 1e10),
        ("elitadd", "(2000000000 as float64) + 2000000000", lambda v: 4e9),
        # sub-expressions whose operands are both integer literals are typed and evaluated like the same operator on fields of the literals' types
        ("elit2neg", "-(1 + 2)", lambda v: -3),
        ("elit2chain", "1 + 2 + 3", lambda v: 6),
        ("elit2scaled", "(2 + 2) * ia", lambda v: 4 * v["ia"]),
        ("elit2mixed", "(1 + 2) - ubig + ia", lambda v: 3 - v["ubig"] + v["ia"]),
        ("elit2idx", "vec[2 - 1]", lambda v: v["vec"][1]),
        ("elit2negprod", "-(200 * 200) + ia", lambda v: -40000 + v["ia"]),
        ("elit2sub0", "0 - (100 + 100)", lambda v: -200),
        ("elit2nested", "(250 + 10) * (3 - 5)", lambda v: -520),
        ("elit2cast", "(200 + 100) as float64", lambda v: 300.0),
        ("elit2divf", "(7 / 2) * da", lambda v: 3 * v["da"]),
    ] + [("elitb%d" % i, "%d %s %d" % (a, op, b), (lambda v, a=a, b=b, op=op: {"+": a + b, "-": a - b, "*": a * b, "/": a // b}[op])) for i, (a, op, b) in enumerate(LIT_BINARY)] + [
        # an explicit widening cast of one operand decides the width of the arithmetic
        ("ewidemul", "(big1 as int64) * big2", lambda v: v["big1"] * v["big2"]),
        ("ewideadd", "(big1 as int64) * big2 + big2", lambda v: v["big1"] * v["big2"] + v["big2"]),
        ("ewidesub", "(ia - big1 as int64) * big2 - big1", lambda v: (v["ia"] - v["big1"]) * v["big2"] - v["big1"]),
        ("ewideumul", "(ubig as uint64) * ubig", lambda v: v["ubig"] * v["ubig"]),
        # two arrays of the same type whose dimension names are in a different order, dimension chosen at run time
        ("edimrt", "dimensionIndex(arr, dimname) * 10 + dimensionIndex(arrt, dimname)", lambda v: ({"row": 0, "col": 1}[v["dimname"]]) * 10 + {"col": 0, "row": 1}[v["dimname"]]),
        ("esizert", "size(arr, dimname) * 100 + size(arrt, dimname)", lambda v: ({"row": 2, "col": 3}[v["dimname"]]) * 100 + {"col": 4, "row": 5}[v["dimname"]]),
    ]
    SW = [("eswu", "un", [("int32 i", "i + 1"), ("string s", "0 - 1")], lambda v: (v["un"][1] + 1) if v["un"][0] == 0 else -1),
          ("eswo", "opt", [("int32 x", "x * 2"), ("_", "7")], lambda v: 7 if v["opt"] is None else v["opt"][1] * 2),
          # a union defined by a named type (the generated union class carries the alias name), and a nullable union
          ("eswn", "nun", [("int32 i", "i + 2"), ("string s", "0 - 2")], lambda v: (v["nun"][1] + 2) if v["nun"][0] == 0 else -2),
          # a pattern variable with the name of a record field is the payload, not the field
          ("eswsh", "un", [("int32 ia", "ia * 2"), ("string s", "0 - 5")], lambda v: (v["un"][1] * 2) if v["un"][0] == 0 else -5),
          ("eswsho", "opt", [("int32 ib", "ib + 1"), ("_", "ib")], lambda v: v["ib"] if v["opt"] is None else v["opt"][1] + 1),
          ("eswnu", "nou", [("int32 i", "i + 3"), ("string s", "0 - 3"), ("_", "9")], lambda v: 9 if v["nou"] is None else ((v["nou"][1] + 3) if v["nou"][0] == 0 else -3)),
          # optionals that hold a value which is "false" in a truth test: 0, "", false, 0.0, an empty vector - present all the same
          ("eswzs", "ostr", [("string s", "1"), ("_", "0 - 1")], lambda v: -1 if v["ostr"] is None else 1),
          ("eswzb", "obool", [("bool b", "1"), ("_", "0 - 1")], lambda v: -1 if v["obool"] is None else 1),
          ("eswzf", "ofl", [("float64 x", "x + 1.0"), ("_", "0.0 - 1.0")], lambda v: -1.0 if v["ofl"] is None else v["ofl"][1] + 1.0),
          ("eswzv", "ovec", [("int32* w", "(size(w) as int32) + 1"), ("_", "0 - 1")], lambda v: -1 if v["ovec"] is None else len(v["ovec"][1]) + 1),
          ("eswzr", "opt", [("int32 x", "x + 1"), ("_", "0 - 1")], lambda v: -1 if v["opt"] is None else v["opt"][1] + 1),
          # arms of three different widths: each arm is converted to the common type directly, not through the types of the arms before it
          ("esw3a", "num3", [("int32 i", "i"), ("float32 f", "f"), ("float64 d", "d")], lambda v: float(v["num3"][1])),
          ("esw3b", "num3", [("float32 f", "f"), ("int32 i", "i"), ("float64 d", "d")], lambda v: float(v["num3"][1])),
          # a switch over a plain (non-union, non-optional) type has one case: its value is that case's, whatever the pattern looks like
          ("esw1t", "ia", [("int32", "ib + 1")], lambda v: v["ib"] + 1),
          ("esw1d", "ia", [("_", "ic * 2")], lambda v: v["ic"] * 2),
          ("esw1v", "ia", [("int32 q", "q + ib")], lambda v: v["ia"] + v["ib"]),
          ("esw1f", "da", [("float64", "ia")], lambda v: v["ia"]),
          ("esw1r", "inner", [("EInner e", "e.p + ic")], lambda v: v["inner"][0] + v["ic"]),
          ("esw1c", "ib", [("int32", "1000")], lambda v: 1000)]
    emodel = ("ENamedUn: [int32, string]\nEInner: !record\n  fields:\n    p: int32\n    q: int32\nEx: !record\n  fields:\n    ia: int32\n    ib: int32\n    ic: int32\n    da: float64\n    db: float64\n    dc: float64\n"
              "    vec: int32*\n    arr: 'int32[row, col]'\n    farr: 'int32[2, 2]'\n    mp: string->int32\n    inner: EInner\n    un: [int32, string]\n    opt: int32?\n    nun: ENamedUn\n    nou: [null, int32, string]\n    ostr: string?\n    obool: bool?\n    ofl: float64?\n    ovec: int32*?\n    num3: [int32, float32, float64]\n    arrt: 'int32[col, row]'\n    dimname: string\n    big1: int32\n    big2: int32\n    ubig: uint32\n  computedFields:\n")
    for nme, src, _ in EXPRS:
        emodel += "    %s: '%s'\n" % (nme, src.replace("'", "''"))
    for nme, tgt, cases, _ in SW:
        emodel += "    %s:\n      !switch %s:\n" % (nme, tgt) + "".join("        %s: %s\n" % c for c in cases)
    emodel += "PEx: !protocol\n  sequence:\n    items: !stream\n      items: Ex\n"
    # operands that are *elements* of containers of narrow integers / float32 (numpy scalars in Python, narrow C++ integers): the arithmetic is
    # done in the promoted type, so results beyond the element type are in range
    NX = [
        ("nsum8", "u8a[0] + u8a[1]", lambda v: v["u8a"][0] + v["u8a"][1]),
        ("ndiff8", "u8a[0] - u8a[1]", lambda v: v["u8a"][0] - v["u8a"][1]),
        ("nmul8", "u8a[2] * u8a[3]", lambda v: v["u8a"][2] * v["u8a"][3]),
        # (`-u8a[0]` keeps the static type uint8 - a sign changes no type - so its exact value is out of range: not part of the value oracle)
        ("nneg8", "0 - u8a[0]", lambda v: -v["u8a"][0]),
        ("nsumi8", "i8v[0] + i8v[1]", lambda v: v["i8v"][0] + v["i8v"][1]),
        ("nmuli8", "i8v[0] * i8v[1] * 2", lambda v: v["i8v"][0] * v["i8v"][1] * 2),
        ("nmul16", "i16a[0, 1] * i16a[1, 0]", lambda v: v["i16a"][1] * v["i16a"][2]),
        ("nsum16", "u16v[0] + u16v[1] + 1", lambda v: v["u16v"][0] + v["u16v"][1] + 1),
        ("nmulu16", "u16v[0] * 2", lambda v: v["u16v"][0] * 2),
        ("nmix8s", "u8a[0] + i8v[0]", lambda v: v["u8a"][0] + v["i8v"][0]),
        ("nmix8i", "u8a[1] * ia", lambda v: v["u8a"][1] * v["ia"]),
        ("nscal8", "u8s + u8s", lambda v: v["u8s"] + v["u8s"]),
        ("nscal16", "i16s * i16s", lambda v: v["i16s"] * v["i16s"]),
        ("nscalmix", "u8s * i16s - u8a[0]", lambda v: v["u8s"] * v["i16s"] - v["u8a"][0]),
        ("ncast8", "(u8a[0] as int32) * 3", lambda v: v["u8a"][0] * 3),
        ("nwide32", "(u32v[0] as uint64) + u32v[1]", lambda v: v["u32v"][0] + v["u32v"][1]),
        ("nwidei32", "(i32v[0] as int64) * i32v[1]", lambda v: v["i32v"][0] * v["i32v"][1]),
        ("nf32", "f32v[0] * 2.5 + u8a[0]", lambda v: v["f32v"][0] * 2.5 + v["u8a"][0]),
        ("nsize", "(size(u8a) as int32) * u8a[3]", lambda v: 4 * v["u8a"][3]),
        # computed fields that return the value of other computed fields (a value, not a reference), and the computed fields of a generic record
        # reached through two instantiations with different type arguments
        ("hsz", "size(u8a)", lambda v: 4), ("isz", "hsz", lambda v: 4), ("jsz", "isz + 1", lambda v: 5), ("ksum", "nsum8", lambda v: v["u8a"][0] + v["u8a"][1]),
        ("gpb", "pb.one", lambda v: v["pb"][0]), ("gpa", "pa.one", lambda v: v["pa"][0]), ("gpa2", "pa.two", lambda v: v["pa"][1]), ("gpb2", "pb.two", lambda v: v["pb"][1]),
        ("gsum", "pa.one + pa.two", lambda v: v["pa"][0] + v["pa"][1]), ("gboth", "pb.one + pa.one", lambda v: v["pb"][0] + v["pa"][0]),
    ]
    # integer literals at and around the limits of every integer width, negative and positive: alone, added to an int32 field, and as a switch arm.
    # The static type has to hold the literal: the value in every target is the literal's.
    LITS = [-1, -127, -128, -129, -200, -255, -256, -257, -32767, -32768, -32769, -40000, -65535, -65536, -65537, -2147483647, -2147483648, -2147483649, -3000000000,
            -4294967295, -4294967296, -4294967297, -9223372036854775807, 127, 128, 255, 256, 32767, 32768, 65535, 65536, 2147483647, 2147483648, 4294967295, 4294967296,
            9223372036854775807]
    for li, L in enumerate(LITS):
        NX.append(("lit%d" % li, "%d" % L, (lambda L: lambda v: L)(L)))
        if -(2 ** 62) < L <= 4294967295 and not (-2 ** 31 <= L < -2 ** 31 + 1001):      # (int32 + an int32 literal next to INT32_MIN would leave the result type)
            NX.append(("lita%d" % li, "ia + %d" % L if L >= 0 else "ia + (%d)" % L, (lambda L: lambda v: v["ia"] + L)(L)))
        NX.append(("lits%d" % li, None, (lambda L: lambda v: L if v["lu"][0] == 0 else (0 if L >= 0 else -1))(L)))
    NX += [
        # a switch case declares a variable `x`; the computed field of another record, reached from that case, uses *its own* field `x`
        ("leak", None, lambda v: v["sl"][0] * 2), ("leakd", "sl.twice", lambda v: v["sl"][0] * 2),
        # the same within one record: the case variable `x` and the record's own field `x`, used by a computed field that the case calls
        # operands typed by an *alias* of a narrow integer, the same operand (the same type node) on both sides of an operator
        ("asq8", "xa * xa", lambda v: v["xa"] * v["xa"]), ("adb8", "xa + xa", lambda v: v["xa"] + v["xa"]), ("asq16", "ta * ta", lambda v: v["ta"] * v["ta"]),
        ("asum", "lva[0] + lva[1]", lambda v: v["lva"][0] + v["lva"][1]), ("aprod", "lva[0] * lva[1]", lambda v: v["lva"][0] * v["lva"][1]),
        ("achain", "adb8 * adb8", lambda v: (2 * v["xa"]) ** 2), ("amix", "xa * ta", lambda v: v["xa"] * v["ta"]), ("aneg", "0 - xa - xa", lambda v: -2 * v["xa"]),
        ("leaks", "ss.viaCase", lambda v: v["ss"][0] * 2), ("leaksd", "ss.twice", lambda v: v["ss"][0] * 2),
    ]
    emodel += "NPair<T>: !record\n  fields:\n    first: T\n    second: T\n  computedFields:\n    one: first\n    two: second\n"
    emodel += "NScope: !record\n  fields:\n    x: float64\n  computedFields:\n    twice: x * 2\n"
    emodel += "NU8: uint8\nNI16: int16\n"
    emodel += "NSame: !record\n  fields:\n    x: float64\n    lu: [int32, string]\n  computedFields:\n    viaCase:\n      !switch lu:\n        int32 x: twice\n        string s: twice\n    twice: x * 2\n"
    emodel += ("Nx: !record\n  fields:\n    u8a: 'uint8[4]'\n    i8v: int8*\n    i16a: 'int16[2, 2]'\n    u16v: uint16*\n    u32v: uint32*\n    i32v: 'int32[2]'\n    f32v: float32*\n"
               "    u8s: uint8\n    i16s: int16\n    ia: int32\n    pa: NPair<int16>\n    pb: NPair<float64>\n    lu: [int32, string]\n    sl: NScope\n    ss: NSame\n    xa: NU8\n    ta: NI16\n    lva: NU8*\n  computedFields:\n")
    # (first, so that nothing has resolved NScope.twice before)
    emodel += "    leak:\n      !switch lu:\n        int32 x: sl.twice\n        string s: sl.twice\n"
    for nme, src, _ in NX:
        if src is not None:
            emodel += "    %s: '%s'\n" % (nme, src)
    for li, L in enumerate(LITS):
        emodel += "    lits%d:\n      !switch lu:\n        int32 q: '%d'\n        string s: '%d'\n" % (li, L, 0 if L >= 0 else -1)
    emodel += "PNx: !protocol\n  sequence:\n    items: !stream\n      items: Nx\n"
    root = os.path.join(ctx.workdir, "values")
    pkgdir = write_pkg(root, "".join(vmodel) + emodel)
    p = cli.run_cli("generate", pkgdir, home)
    ctx.ev()
    if p.rc != 0:
        ctx.violation("generate-failed", "value package rejected: %s" % cli.clean(p.stderr)[:600], {"case_dir": root})
        return
    decl, pypkg = declared_types(root)
    info = cxx.GenInfo(os.path.join(root, "out/cpp"))
    cpp_h = open(os.path.join(root, "out/cpp/types.h")).read()

    def methods_of(rec):
        m = re.search(r"^struct %s \{(.*?)^\};" % rec, cpp_h, re.M | re.S)
        return [f.group(1) for f in re.finditer(r"^  [\w:<>, ]+?(?: const&)? (\w+)\(\) const \{", m.group(1), re.M)]
    protos = [("P" + rn, rn, methods_of(rn), "Items") for rn, _, _, _ in vrecs] + [("PEx", "Ex", methods_of("Ex"), "Items"), ("PNx", "Nx", methods_of("Nx"), "Items")]
    try:
        exe = cxx.build(os.path.join(root, "out/cpp"), "plain", driver_src=driver_src(info.ns, protos), tag="c19")
    except cxx.CompileError as e:
        ctx.violation("cpp-compile-failed", "generated computed-field code does not compile: %s" % str(e)[-800:], {"case_dir": root})
        return
    # harness model for encoding
    defs = []
    for rn, t1, t2, names in vrecs:
        defs += [Rec(rn, [("a", P(t1)), ("b", P(t2))]), Proto("P" + rn, [("items", S(N(rn)))])]
    defs += [Rec("EInner", [("p", P("int32")), ("q", P("int32"))]),
             Rec("Ex", [("ia", P("int32")), ("ib", P("int32")), ("ic", P("int32")), ("da", P("float64")), ("db", P("float64")), ("dc", P("float64")), ("vec", V(P("int32"))),
                        ("arr", A(P("int32"), (("row", None), ("col", None)))), ("farr", A(P("int32"), ((None, 2), (None, 2)))), ("mp", M(P("string"), P("int32"))),
                        ("inner", N("EInner")), ("un", U(((None, P("int32")), (None, P("string"))))), ("opt", Opt(P("int32"))),
                        ("nun", N("ENamedUn")), ("nou", U(((None, P("int32")), (None, P("string"))), True)),
                        ("ostr", Opt(P("string"))), ("obool", Opt(P("bool"))), ("ofl", Opt(P("float64"))), ("ovec", Opt(V(P("int32")))),
                        ("num3", U(((None, P("int32")), (None, P("float32")), (None, P("float64"))))),
                        ("arrt", A(P("int32"), (("col", None), ("row", None)))), ("dimname", P("string")), ("big1", P("int32")), ("big2", P("int32")), ("ubig", P("uint32"))]),
             Al("ENamedUn", U(((None, P("int32")), (None, P("string"))))),
             Proto("PEx", [("items", S(N("Ex")))]),
             Rec("Nx", [("u8a", A(P("uint8"), ((None, 4),))), ("i8v", V(P("int8"))), ("i16a", A(P("int16"), ((None, 2), (None, 2)))), ("u16v", V(P("uint16"))), ("u32v", V(P("uint32"))),
                        ("i32v", A(P("int32"), ((None, 2),))), ("f32v", V(P("float32"))), ("u8s", P("uint8")), ("i16s", P("int16")), ("ia", P("int32")),
                        ("pa", N("NPair", (P("int16"),))), ("pb", N("NPair", (P("float64"),))), ("lu", U(((None, P("int32")), (None, P("string"))))), ("sl", N("NScope")), ("ss", N("NSame")), ("xa", N("NU8")), ("ta", N("NI16")), ("lva", V(N("NU8")))]),
             Rec("NPair", [("first", TP("T")), ("second", TP("T"))], ("T",)), Al("NU8", P("uint8")), Al("NI16", P("int16")), Rec("NScope", [("x", P("float64"))]), Rec("NSame", [("x", P("float64")), ("lu", U(((None, P("int32")), (None, P("string")))))]),
             Proto("PNx", [("items", S(N("Nx")))])]
    hp = Pkg("Cf", defs)
    codec = Codec(hp)
    pysrc = open(os.path.join(root, "out/python", pypkg, "protocols.py")).read()
    worker = mut.PyWorker(os.path.join(root, "out/python"), pypkg, os.path.join(root, "pyio"))
    if not worker.hello.get("ready"):
        ctx.violation("python-import-failed", "generated python does not import: %s" % worker.hello.get("error"), {"case_dir": root})
        return

    def schema_of(pn):
        return re.search(r'class %sWriterBase\(abc\.ABC\):.*?\n    schema = r"""(.*?)"""' % pn, pysrc, re.S).group(1)

    def run_both(pn, items):
        proto = hp.find(pn)
        data = codec.encode_stream(proto, schema_of(pn), [items])
        pr = common.run([exe, pn], stdin=data)
        ctx.ev()
        rows_cpp = [json.loads(l) for l in pr.stdout.split("\n") if l.strip()] if pr.rc == 0 else None
        ip = os.path.join(root, "pyio", "cin_%s" % pn)
        op = os.path.join(root, "pyio", "cout_%s" % pn)
        open(ip, "wb").write(data)
        res = worker.cmd({"op": "computed", "proto": pn, "in_path": ip, "out_path": op})
        ctx.ev()
        rows_py = json.load(open(op)) if res.get("ok") else None
        return pr, rows_cpp, res, rows_py

    n_rand = 6 if quick else 400
    for rn, t1, t2, names in vrecs:
        r = rng("C19v", rn)
        va, vb = operand_values(t1, r, n_rand), operand_values(t2, r, n_rand)
        pairs = [(a, b) for a in va[:10] for b in vb[:10]] + [(r.choice(va), r.choice(vb)) for _ in range(40 if quick else 1500)]
        # integer division by zero is undefined in C++: keep zero divisors out of records that divide integers
        intdiv = any(op == "/" and result_type.get((t1, t2, "/")) in INT_RANGE for _, op, _ in names)
        if intdiv:
            # zero divisors and INT_MIN / -1 are undefined behaviour in C++ (and out of range): not part of the workload
            rtd = result_type.get((t1, t2, "/"))
            lo = INT_RANGE[rtd][0]
            pairs = [(a, b) for a, b in pairs if exact(a) != 0 and exact(b) != 0 and not (exact(a) == lo and exact(b) == -1) and not (exact(b) == lo and exact(a) == -1)]
        pr, rows_cpp, res, rows_py = run_both("P" + rn, [[a, b] for a, b in pairs])
        if rows_cpp is None or rows_py is None:
            ctx.violation("driver-failed:%s" % ("cpp" if rows_cpp is None else "py"), "%s: computed-field driver failed: %s %s" % (rn, pr.stderr[-300:], res.get("error")), {"case_dir": root})
            continue
        pynames = [n.replace("_", "") for n in rows_py["names"]]
        mcpp = [m.lower() for m in methods_of(rn)]
        for k, (a, b) in enumerate(pairs):
            for (nm, op, rev) in names:
                x, y = (b, a) if rev else (a, b)
                tx, ty = (t2, t1) if rev else (t1, t2)
                rtn = result_type.get((t1, t2, op))
                gc = rows_cpp[k][mcpp.index(nm)]
                gp = rows_py["rows"][k][pynames.index(nm)]
                ctx.case((rn, nm, repr(a), repr(b)))
                judge_value(ctx, "%s %s %s" % (tx, op, ty), op, rtn, x, y, gc, gp, {"record": rn, "field": nm, "a": repr(a), "b": repr(b), "case_dir": root})
    # structured expressions
    r = rng("C19e")
    items, envs = [], []
    for k in range(20 if quick else 1500):
        ia, ib, ic = r.randint(-1000, 1000), r.randint(-1000, 1000), r.randint(-1000, 1000)
        da, db, dc = [f64(r.choice([r.uniform(-50, 50), float(r.randint(1, 9)), 0.5, 2.25])) for _ in range(3)]
        if db.value == 0 or dc.value == 0:
            db, dc = f64(1.5), f64(-2.0)
        vec = [r.randint(-10**6, 10**6) for _ in range(r.randint(2, 6))]
        arr = [r.randint(-99, 99) for _ in range(6)]
        farr = [r.randint(-99, 99) for _ in range(4)]
        mp = [("k", r.randint(-5, 5)), ("other", 1)]
        inner = [r.randint(-100, 100), r.randint(-100, 100)]
        un = (0, r.randint(-100, 100)) if r.random() < 0.5 else (1, "txt")
        opt = None if r.random() < 0.4 else (0, r.choice([0, r.randint(-100, 100)]))
        ostr = [None, (0, ""), (0, "x"), (0, "0")][k % 4]
        obool = [(0, False), None, (0, True)][k % 3]
        ofl = [(0, f64(0.0)), (0, f64(2.5)), None, (0, f64(-0.0))][k % 4]
        ovec = [(0, []), None, (0, [0]), (0, [4, 5])][k % 4]
        num3 = [(0, 16777217), (1, f32(1.5)), (2, f64(2.25)), (0, -16777219), (0, 2147483647), (1, f32(16777216.0)), (2, f64(16777217.0))][k % 7]
        nun = (0, r.randint(-1000, 1000)) if r.random() < 0.5 else (1, "t%d" % r.randint(0, 9))
        nou = None if r.random() < 0.34 else ((0, r.randint(-1000, 1000)) if r.random() < 0.5 else (1, "u%d" % r.randint(0, 9)))
        arrt = [r.randint(-9, 9) for _ in range(20)]
        dimname = r.choice(["row", "col"])
        big1, big2, ubig = r.randint(50000, 90000), r.randint(50000, 90000), r.randint(70000, 4000000000)
        items.append([ia, ib, ic, da, db, dc, vec, ((2, 3), arr), ((2, 2), farr), mp, inner, un, opt, nun, nou, ostr, obool, ofl, ovec, num3, ((4, 5), arrt), dimname, big1, big2, ubig])
        envs.append(dict(ia=ia, ib=ib, ic=ic, da=da.value, db=db.value, dc=dc.value, vec=vec, arr=arr, farr=farr, mp=mp, inner=inner, un=un, opt=opt, nun=nun, nou=nou, ostr=ostr, obool=obool, ofl=(None if ofl is None else (0, ofl[1].value)), ovec=ovec, num3=(num3[0], num3[1] if isinstance(num3[1], int) else num3[1].value),
                         arrt=arrt, dimname=dimname,
                         big1=big1, big2=big2, ubig=ubig))
    pr, rows_cpp, res, rows_py = run_both("PEx", items)
    if rows_cpp is None or rows_py is None:
        ctx.violation("driver-failed:%s" % ("cpp" if rows_cpp is None else "py"), "Ex: computed-field driver failed: %s %s" % (pr.stderr[-300:], res.get("error")), {"case_dir": root})
    else:
        pynames = [n.replace("_", "") for n in rows_py["names"]]
        mcpp = [m.lower() for m in methods_of("Ex")]
        for k, env in enumerate(envs):
            for nm, src, fn in [(a, b, c) for a, b, c in EXPRS] + [(a, "switch " + b, d) for a, b, c, d in SW]:
                want = fn(env)
                gc = rows_cpp[k][mcpp.index(nm)]
                gp = rows_py["rows"][k][pynames.index(nm)]
                ctx.case(("expr", nm, k))
                ctx.count("expr.judged")
                for lang, got in (("cpp", gc), ("py", gp)):
                    ok = (got == want) if isinstance(want, int) and not isinstance(want, bool) else (isinstance(got, (int, float)) and abs(got - want) <= 1e-9 * max(1.0, abs(want)))
                    if not ok:
                        ctx.violation("expr:%s:%s" % (lang, nm), "expression `%s`: %s returns %r, expected %r (record #%d)" % (src, lang, got, want, k), {"case_dir": root, "env": repr(env)[:600]})
        # an operator between two literals has the static type the same operator has between fields of the literals' types (part 1 measured it)
        for i, (a, op, b) in enumerate(LIT_BINARY):
            d = decl.get(("Ex", "elitb%d" % i))
            want_t = result_type.get((literal_type(a), literal_type(b), op)) or result_type.get((literal_type(b), literal_type(a), op))
            ctx.count("expr.literal-type-judged")
            if d and want_t and d[0] is not None and CPP_T.get(d[0], d[0]) != want_t:
                ctx.violation("literal-expression-type", "`%d %s %d` is declared %s in C++; `%s %s %s` on fields has static type %s" % (a, op, b, d[0], literal_type(a), op, literal_type(b), want_t), {"case_dir": root})
        # declared types of the expressions agree between C++ and Python
        for nm, _, _ in EXPRS:
            d = decl.get(("Ex", nm))
            if d and None not in d and CPP_T.get(d[0], d[0]) != PY_T.get(d[1], d[1]):
                ctx.violation("type-cpp-vs-python:expr", "expression %s: C++ declares %s, Python declares %s" % (nm, d[0], d[1]), {"case_dir": root})
    # narrow container elements
    r = rng("C19n")
    nitems, nenvs = [], []
    for k in range(12 if quick else 600):
        u8a = [r.choice([200, 255, 128, r.randint(0, 255)]) for _ in range(4)]
        i8v = [r.choice([-128, 127, 100, -100, r.randint(-128, 127)]) for _ in range(2)]
        i16a = [r.choice([300, -300, 32767, -32768, r.randint(-32768, 32767)]) for _ in range(4)]
        u16v = [r.choice([65535, 40000, r.randint(0, 65535)]) for _ in range(2)]
        u32v = [r.choice([4294967295, 3000000000, r.randint(0, 2**32 - 1)]) for _ in range(2)]
        i32v = [r.choice([2147483647, -2147483648, 70000, r.randint(-2**31, 2**31 - 1)]) for _ in range(2)]
        f32v = [f32(r.choice([0.5, 1.25, -3.0, 1024.0]))]
        u8s, i16s, ia = r.choice([255, 200, r.randint(0, 255)]), r.choice([32767, -32768, 300, r.randint(-32768, 32767)]), r.randint(-1000, 1000)
        pa, pb = [r.randint(-300, 300), r.randint(-300, 300)], [f64(r.choice([0.5, 2.25, -7.0])), f64(r.choice([1.5, 100.0]))]
        lu, sl = ((0, r.randint(-9, 9)) if k % 2 else (1, "t")), [f64(r.choice([1.25, -0.75, 1000.5]))]
        xa, ta, lva = r.choice([200, 255, 16, r.randint(0, 255)]), r.choice([300, -300, 32767, -32768, r.randint(-32768, 32767)]), [r.choice([255, 200, r.randint(0, 255)]) for _ in range(2)]
        ss = [f64(r.choice([1.25, -0.75, 1000.5])), ((0, r.randint(-9, 9)) if k % 3 else (1, "t"))]
        nitems.append([((4,), u8a), i8v, ((2, 2), i16a), u16v, u32v, ((2,), i32v), f32v, u8s, i16s, ia, pa, pb, lu, sl, ss, xa, ta, lva])
        nenvs.append(dict(sl=[sl[0].value], u8a=u8a, i8v=i8v, i16a=i16a, u16v=u16v, u32v=u32v, i32v=i32v, f32v=[f32v[0].value], u8s=u8s, i16s=i16s, ia=ia, pa=pa, pb=[pb[0].value, pb[1].value], lu=lu, ss=[ss[0].value], xa=xa, ta=ta, lva=lva))
    pr, rows_cpp, res, rows_py = run_both("PNx", nitems)
    if rows_cpp is None or rows_py is None:
        ctx.violation("driver-failed:%s" % ("cpp" if rows_cpp is None else "py"), "Nx: computed-field driver failed: %s %s" % (pr.stderr[-300:], res.get("error")), {"case_dir": root})
    else:
        pynames = [n.replace("_", "") for n in rows_py["names"]]
        mcpp = [m.lower() for m in methods_of("Nx")]
        for k, env in enumerate(nenvs):
            for nm, src, fn in NX:
                want = fn(env)
                gc = rows_cpp[k][mcpp.index(nm)]
                gp = rows_py["rows"][k][pynames.index(nm)]
                ctx.case(("narrow", nm, k))
                ctx.count("narrow.judged")
                for lang, got in (("cpp", gc), ("py", gp)):
                    ok = (got == want) if isinstance(want, int) and not isinstance(want, bool) else (isinstance(got, (int, float)) and abs(got - want) <= 1e-6 * max(1.0, abs(want)))
                    if not ok:
                        ctx.violation("expr:%s:narrow:%s" % (lang, nm), "expression `%s` over elements of narrow containers: %s returns %r, the value is %r (record #%d)" % (src, lang, got, want, k), {"case_dir": root, "env": repr(env)[:600]})
        for nm, _, _ in NX:
            d = decl.get(("Nx", nm))
            if d and None not in d and CPP_T.get(d[0], d[0]) != PY_T.get(d[1], d[1]):
                ctx.violation("type-cpp-vs-python:expr", "expression %s: C++ declares %s, Python declares %s" % (nm, d[0], d[1]), {"case_dir": root})
    worker.close()
    ctx.sample({"expression_catalogue": [s for _, s, _ in EXPRS][:10]})
    run_random_expressions(ctx, home, quick)


# ----------------------------------------------------------------------------- random well-typed expressions

class _Rx:
    """Random expression trees over a record with int32 / float64 fields, a vector and a nested record. Every tree carries its yardl source
    (minimal parentheses according to yardl's own precedence table: as > ** > * / > + -, ** right-associative), an interval bound (so that
    int32 results never overflow and float values stay tame) and an exact reference evaluator."""
    PREC = {"+": 1, "-": 1, "*": 2, "/": 2, "**": 3, "as": 4}

    def __init__(self, r):
        self.r = r

    def leaf(self, want):
        r = self.r
        if want == "int":
            k = r.randrange(8)
            if k < 3:
                n = r.choice(["ia", "ib", "ic"])
                return dict(src=n, prec=9, t="int", lo=-1000, hi=1000, ev=lambda v, n=n: v[n])
            if k == 3:
                i = r.randrange(2)
                return dict(src="vec[%d]" % i, prec=9, t="int", lo=-100, hi=100, ev=lambda v, i=i: v["vec"][i])
            if k == 4:
                f = r.choice(["p", "q"])
                return dict(src="inner.%s" % f, prec=9, t="int", lo=-100, hi=100, ev=lambda v, f=f: v["inner"][0 if f == "p" else 1])
            if k == 5:
                return dict(src="size(vec)", prec=9, t="int", lo=2, hi=6, ev=lambda v: len(v["vec"]), size=True)
            c = r.randint(0, 9)
            return dict(src=r.choice(["%d", "%d", "0x%x"]) % c, prec=9, t="int", lo=c, hi=c, ev=lambda v, c=c: c, lit=True)
        k = r.randrange(5)
        if k < 3:
            n = r.choice(["da", "db", "dc"])
            return dict(src=n, prec=9, t="float", lo=-50.0, hi=50.0, ev=lambda v, n=n: v[n], nz=(n != "da"))
        c = r.choice([0.5, 1.5, 2.0, 0.25, 3.0, 10.0])
        return dict(src=repr(c), prec=9, t="float", lo=c, hi=c, ev=lambda v, c=c: c, nz=True, lit=True)

    def paren(self, e, parent_prec, right_side, right_assoc):
        need = e["prec"] < parent_prec or (e["prec"] == parent_prec and (right_side != right_assoc))
        if not need and self.r.random() < 0.1:
            need = True            # redundant parentheses are legal
        return "(%s)" % e["src"] if need else e["src"]

    def gen(self, depth, want=None):
        r = self.r
        want = want or r.choice(["int", "float"])
        if depth <= 0 or r.random() < 0.2:
            return self.leaf(want)
        k = r.random()
        if k < 0.10:       # cast
            if want == "float":
                a = self.gen(depth - 1, "int")
                return dict(src="%s as float64" % self.paren(a, 4, False, False), prec=4, t="float", lo=float(a["lo"]), hi=float(a["hi"]), ev=lambda v, a=a: float(a["ev"](v)))
            a = self.gen(depth - 1, "float")
            if not (-2e9 < a["lo"] and a["hi"] < 2e9):
                return self.leaf("int")
            return dict(src="%s as int32" % self.paren(a, 4, False, False), prec=4, t="int", lo=int(a["lo"]) - 1, hi=int(a["hi"]) + 1, ev=lambda v, a=a: int(a["ev"](v)), trunc=True)
        if k < 0.17:       # unary minus on an atom or a parenthesised expression
            a = self.gen(depth - 1, want)
            if a.get("size"):
                return a           # size() is unsigned
            return dict(src="(-%s)" % (a["src"] if a["prec"] == 9 and not a["src"].startswith("-") else "(%s)" % a["src"]), prec=9, t=want, lo=-a["hi"], hi=-a["lo"], ev=lambda v, a=a: -a["ev"](v))
        if want == "float" and k < 0.27:     # power with a small literal exponent
            a = self.gen(depth - 1, "float")
            n = r.choice([2, 3])
            m = max(abs(a["lo"]), abs(a["hi"]))
            if m > 1e3:
                return a
            return dict(src="%s ** %d" % (self.paren(a, 3, False, True), n), prec=3, t="float", lo=-(m ** n), hi=m ** n, ev=lambda v, a=a, n=n: a["ev"](v) ** n, pow=True)
        op = r.choice(["+", "-", "*"] + (["/"] if want == "float" else []))
        if want == "int":
            a, b = self.gen(depth - 1, "int"), self.gen(depth - 1, "int")
        else:
            ta, tb = r.choice([("float", "float"), ("float", "int"), ("int", "float")])
            a, b = self.gen(depth - 1, ta), self.gen(depth - 1, tb)
        if a.get("size") or b.get("size"):
            # mixing the unsigned size() with signed operands changes the result type: keep it out of arithmetic
            return a if not a.get("size") else self.leaf(want)
        if op == "/":
            # a divisor that is provably non-zero: a non-zero field / literal
            b = self.leaf("float")
            while not b.get("nz"):
                b = self.leaf("float")
            if a["t"] == "int":
                a = self.leaf("float")
        pp = self.PREC[op]
        src = "%s %s %s" % (self.paren(a, pp, False, False), op, self.paren(b, pp, True, False))
        al, ah, bl, bh = a["lo"], a["hi"], b["lo"], b["hi"]
        if op == "+":
            lo, hi = al + bl, ah + bh
        elif op == "-":
            lo, hi = al - bh, ah - bl
        elif op == "*":
            c = [al * bl, al * bh, ah * bl, ah * bh]
            lo, hi = min(c), max(c)
        else:
            m = max(abs(al), abs(ah)) / 0.25
            lo, hi = -m, m
        if want == "int" and not (-2**31 < lo and hi < 2**31):
            return a
        if want == "float" and max(abs(lo), abs(hi)) > 1e12:
            return a
        f = {"+": lambda x, y: x + y, "-": lambda x, y: x - y, "*": lambda x, y: x * y, "/": lambda x, y: x / y}[op]
        return dict(src=src, prec=pp, t=want, lo=lo, hi=hi, ev=lambda v, a=a, b=b, f=f: f(a["ev"](v), b["ev"](v)), nz=False)


def run_random_expressions(ctx, home, quick):
    """cross-language and reference agreement on random well-typed expressions (the emitters must reproduce precedence, associativity,
    promotion and casts for any tree, not only for the catalogue)"""
    n_models = 1 if quick else 60
    per_model = 60 if quick else 170
    for mi in range(n_models):
        r = rng("C19rx", mi)
        g = _Rx(r)
        exprs, seen = [], set()
        while len(exprs) < per_model:
            e = g.gen(r.choice([1, 2, 3, 4]))
            if e["prec"] == 9 and e.get("lit"):
                continue
            if e["src"] in seen:
                continue
            seen.add(e["src"])
            exprs.append(e)
        model = ("RInner: !record\n  fields:\n    p: int32\n    q: int32\nRx: !record\n  fields:\n    ia: int32\n    ib: int32\n    ic: int32\n    da: float64\n    db: float64\n    dc: float64\n"
                 "    vec: int32*\n    inner: RInner\n  computedFields:\n")
        for i, e in enumerate(exprs):
            model += "    r%d: '%s'\n" % (i, e["src"].replace("'", "''"))
        model += "PRx: !protocol\n  sequence:\n    items: !stream\n      items: Rx\n"
        root = os.path.join(ctx.workdir, "random%d" % mi)
        pkgdir = write_pkg(root, model)
        p = cli.run_cli("generate", pkgdir, home)
        ctx.ev()
        if p.rc != 0:
            ctx.violation("generate-failed:random", "well-typed random expressions rejected: %s" % cli.clean(p.stderr)[:500], {"case_dir": root})
            continue
        decl, pypkg = declared_types(root)
        info = cxx.GenInfo(os.path.join(root, "out/cpp"))
        cpp_h = open(os.path.join(root, "out/cpp/types.h")).read()
        m = re.search(r"^struct Rx \{(.*?)^\};", cpp_h, re.M | re.S)
        methods = [f.group(1) for f in re.finditer(r"^  [\w:<>, ]+?(?: const&)? (\w+)\(\) const \{", m.group(1), re.M)]
        try:
            exe = cxx.build(os.path.join(root, "out/cpp"), "plain", driver_src=driver_src(info.ns, [("PRx", "Rx", methods, "Items")]), tag="c19r")
        except cxx.CompileError as e:
            ctx.violation("cpp-compile-failed:random", "generated computed-field code does not compile: %s" % str(e)[-600:], {"case_dir": root})
            continue
        hp = Pkg("Cf", [Rec("RInner", [("p", P("int32")), ("q", P("int32"))]),
                        Rec("Rx", [("ia", P("int32")), ("ib", P("int32")), ("ic", P("int32")), ("da", P("float64")), ("db", P("float64")), ("dc", P("float64")),
                                   ("vec", V(P("int32"))), ("inner", N("RInner"))]),
                        Proto("PRx", [("items", S(N("Rx")))])])
        codec = Codec(hp)
        pysrc = open(os.path.join(root, "out/python", pypkg, "protocols.py")).read()
        schema = re.search(r'class PRxWriterBase\(abc\.ABC\):.*?\n    schema = r"""(.*?)"""', pysrc, re.S).group(1)
        worker = mut.PyWorker(os.path.join(root, "out/python"), pypkg, os.path.join(root, "pyio"))
        if not worker.hello.get("ready"):
            ctx.violation("python-import-failed:random", "generated python does not import: %s" % worker.hello.get("error"), {"case_dir": root})
            continue
        items, envs = [], []
        for k in range(12 if quick else 40):
            ia, ib, ic = [r.randint(-1000, 1000) for _ in range(3)]
            da = f64(r.choice([r.uniform(-50, 50), float(r.randint(-9, 9)), 0.5, -2.25]))
            db, dc = [f64(r.choice([r.uniform(0.25, 50), -r.uniform(0.25, 50), 2.0, -4.0])) for _ in range(2)]
            vec = [r.randint(-100, 100) for _ in range(r.randint(2, 6))]
            inner = [r.randint(-100, 100), r.randint(-100, 100)]
            items.append([ia, ib, ic, da, db, dc, vec, inner])
            envs.append(dict(ia=ia, ib=ib, ic=ic, da=da.value, db=db.value, dc=dc.value, vec=vec, inner=inner))
        data = codec.encode_stream(hp.find("PRx"), schema, [items])
        pr = common.run([exe, "PRx"], stdin=data)
        ctx.ev()
        rows_cpp = [json.loads(l) for l in pr.stdout.split("\n") if l.strip()] if pr.rc == 0 else None
        ip, op = os.path.join(root, "pyio", "cin"), os.path.join(root, "pyio", "cout")
        open(ip, "wb").write(data)
        res = worker.cmd({"op": "computed", "proto": "PRx", "in_path": ip, "out_path": op})
        ctx.ev()
        rows_py = json.load(open(op)) if res.get("ok") else None
        worker.close()
        if rows_cpp is None or rows_py is None:
            ctx.violation("driver-failed:random:%s" % ("cpp" if rows_cpp is None else "py"), "Rx: computed-field driver failed: rc=%s sig=%s %s %s | %s" % (pr.rc, pr.sig, pr.stderr[-300:], res.get("error"), pr.stdout[-200:]), {"case_dir": root})
            continue
        pynames = [n.replace("_", "") for n in rows_py["names"]]
        mcpp = [x.lower() for x in methods]
        bad = False
        for i, e in enumerate(exprs):
            nm = "r%d" % i
            for k, env in enumerate(envs):
                want = e["ev"](env)
                gc = rows_cpp[k][mcpp.index(nm)]
                gp = rows_py["rows"][k][pynames.index(nm)]
                ctx.count("random.judged")
                for lang, got in (("cpp", gc), ("py", gp)):
                    if e["t"] == "int":
                        ok = isinstance(got, int) and not isinstance(got, bool) and got == want
                    else:
                        ok = isinstance(got, (int, float)) and abs(got - want) <= 1e-9 * max(1.0, abs(want))
                    if not ok:
                        bad = True
                        ctx.violation("random-expr:%s:%s" % (lang, e["t"]), "expression `%s`: %s returns %r, expected %r (record #%d)" % (e["src"], lang, got, want, k),
                                      {"case_dir": root, "env": repr(env)[:400]})
                        break
            ctx.case(("random", e["src"]))
        if mi == 0:
            ctx.sample({"random_expressions": [e["src"] for e in exprs[:8]]})
        if not bad:
            shutil.rmtree(root, ignore_errors=True)


def replay(ctx, path):
    print(json.dumps(json.load(open(path)), indent=1, default=str)[:3000])
    run(ctx)
